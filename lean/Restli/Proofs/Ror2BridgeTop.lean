import Restli.Proofs.Ror2Bridge
/-! The cursor reader at position 0 of an input that is exactly one rendered value — a query
parameter's value, an entity key, a header — read as any type and under any scope: it behaves like
the tree reader on the value's tree and consumes the whole input. Generalises `bridge_top_obj`
(objects, `query = false`, empty scope). -/
namespace Restli.Codec
open Json (JVal)

/-! ## leaves -/

theorem readPrimTok_top_tok (tok : Bytes) (hc : tokClean tok) :
    readPrimTok { rest := tok, start := true, missing := [] } =
      .ok tok { rest := [], start := false, missing := [] } := by
  unfold readPrimTok
  have hl : 0 < tok.length := List.length_pos_iff.2 hc.1
  simp only [↓reduceIte, hasBad_false_of_clean tok hc.2, Bool.false_eq_true]
  rw [adv_start _ _ _ (by simpa using hl)]

theorem readPrim_top_leaf (rc : RCfg) (p : Prim) (tok : Bytes) (hc : tokClean tok) :
    readPrim rc p { rest := tok, start := true, missing := [] } =
      liftT (liftTok (tokPrim rc.plus p tok)) { rest := [], start := false, missing := [] } := by
  unfold readPrim
  rw [readPrimTok_top_tok tok hc]
  cases h : tokPrim rc.plus p tok <;> simp only [h, liftTok, liftT, List.append_nil]

theorem readString_top_leaf (rc : RCfg) (tok : Bytes) (hc : tokClean tok) :
    readString rc { rest := tok, start := true, missing := [] } =
      (match tokString rc.plus tok with
       | some b => .ok b { rest := [], start := false, missing := [] }
       | none => .err .syntax) := by
  unfold readString
  rw [readPrimTok_top_tok tok hc]
  rfl

theorem atMap_tok_bare (tok : Bytes) (h : tokClean tok) (st : Bool) (m : List Bytes) :
    atMap { rest := tok, start := st, missing := m } = false := by
  have := atMap_tok tok h [] st m
  simpa using this

theorem atArray_tok_bare (tok : Bytes) (h : tokClean tok) (st : Bool) (m : List Bytes) :
    atArray { rest := tok, start := st, missing := m } = false := by
  simp only [atArray, Bool.and_eq_false_imp]
  intro hp
  exfalso
  have hpre : Gen.listPrefix <+: tok := List.isPrefixOf_iff_prefix.1 hp
  obtain ⟨t, ht⟩ := hpre
  have : (40 : UInt8) ∈ tok := by
    rw [← ht, listPrefix_eq]; simp
  exact (h.2 40 this).1 rfl

/-! ## containers read as a primitive at position 0 -/

theorem readPrimTok_top_arr (xs : List JVal) :
    readPrimTok { rest := renderRaw (.arr xs), start := true, missing := [] } = .err .syntax := by
  simp [readPrimTok, renderRaw, hasBad, listPrefix_eq]

theorem readPrimTok_top_obj' (kvs : List (Bytes × JVal)) :
    readPrimTok { rest := renderRaw (.obj kvs), start := true, missing := [] } = .err .syntax := by
  have := readPrimTok_top_obj kvs []
  simpa using this

/-! ## arrays at position 0 -/

theorem readArray_top (rc : RCfg) (xs : List JVal) (hw : RawWFItems xs) (fuel : Nat) (hf : needItems xs + 1 ≤ fuel)
    (scope : List Seg) (ty : Ty) :
    readArray rc fuel scope ty { rest := renderRaw (.arr xs), start := true, missing := [] } =
      liftT (bindT (treeReadItems (tcOf rc) scope ty 0 xs) (fun vs m => .ok (.arr vs) m))
        { rest := [], start := false, missing := [] } := by
  obtain ⟨f, rfl⟩ : ∃ f, fuel = f + 1 := ⟨fuel - 1, by omega⟩
  have hrender : renderRaw (.arr xs) = Gen.listPrefix ++ (renderRawItems xs ++ [41]) := by
    simp [renderRaw]
  rw [hrender, readArray]
  have hat : atArray { rest := Gen.listPrefix ++ (renderRawItems xs ++ [41]), start := true, missing := [] } = true :=
    atArray_arr _ (by simp) _ _
  simp only [hat, Bool.not_true, Bool.false_eq_true, ↓reduceIte, List.drop_left']
  rw [adv_start _ _ _ (by simp [listPrefix_eq])]
  cases xs with
  | nil => simp [renderRawItems, treeReadItems, bindT, liftT, adv_nonstart]
  | cons x more =>
    obtain ⟨c, cs, hc, hne41⟩ := renderRawItems_head (x :: more) (by simp) hw [41]
    have hih := bridge_items rc (x :: more) (by simp) hw f scope ty 0 [] [] (by omega)
    rw [hc] at hih ⊢
    have h41 : (c == 41) = false := by simp [hne41]
    simp only [h41, Bool.false_eq_true, ↓reduceIte, hih, liftT_bind_ok]
    cases treeReadItems (tcOf rc) scope ty 0 (x :: more) <;> simp [liftT]

/-! ## the top-level bridge -/

/-- **a whole input that is one rendered value**, read from position 0 by the generated
`UnmarshalRestLi` of any type under any scope: the tree reader's result (at top level unless the
reader is a per-parameter query reader), everything consumed -/
theorem bridge_top (rc : RCfg) : (t : JVal) → RawWF t → ∀ (fuel : Nat), needT t ≤ fuel →
    ∀ (scope : List Seg) (ty : Ty),
    readTy rc fuel scope ty { rest := renderRaw t, start := true, missing := [] } =
      liftT (treeRead (tcOf rc) (!rc.query) scope ty t) { rest := [], start := false, missing := [] }
  | .str tok, hw, fuel, hf, scope, ty => by
    simp only [RawWF] at hw
    simp only [needT] at hf
    obtain ⟨f1, rfl⟩ : ∃ f1, fuel = f1 + 2 := ⟨fuel - 2, by omega⟩
    cases ty with
    | prim p =>
      simp only [readTy, treeRead, renderRaw, tcOf, ror2Sem]
      exact readPrim_top_leaf rc p tok hw
    | arr ty' =>
      simp only [readTy, readArray, treeRead, renderRaw, atArray_tok_bare tok hw, Bool.not_false,
        ↓reduceIte, liftT]
    | map ty' =>
      simp only [readTy, readMap, treeRead, renderRaw, atMap_tok_bare tok hw, Bool.not_false, ↓reduceIte, liftT]
    | ref n =>
      simp only [readTy, treeRead, tcOf]
      cases hfind : rc.env.find n with
      | none => simp [liftT]
      | some decl =>
        cases decl with
        | typeref p =>
          simp only [renderRaw, ror2Sem]
          exact readPrim_top_leaf rc p tok hw
        | enum syms =>
          simp only [renderRaw, readString_top_leaf rc tok hw, ror2Sem, bindT]
          cases tokString rc.plus tok <;> simp [liftT] <;> rfl
        | fixed size =>
          simp only [renderRaw, readString_top_leaf rc tok hw, ror2Sem, bindT, liftTok, tokPrim]
          cases tokString rc.plus tok with
          | none => simp [liftT]
          | some b =>
            simp only [liftT]
            by_cases hl : b.length = size <;> simp [hl]
        | record incs own =>
          simp only [readMap, renderRaw, atMap_tok_bare tok hw, Bool.not_false, ↓reduceIte, liftT, bindT]
        | union hasNull members =>
          simp only [readMap, renderRaw, atMap_tok_bare tok hw, Bool.not_false, ↓reduceIte, liftT, bindT]
  | .obj kvs, hw, fuel, hf, scope, ty => by
    simp only [RawWF] at hw
    simp only [needT] at hf
    obtain ⟨f, rfl⟩ : ∃ f, fuel = f + 4 := ⟨fuel - 4, by omega⟩
    have hmap := fun mode => readMap_top rc kvs hw (f + 3) (by omega) scope mode []
    simp only [List.append_nil] at hmap
    have hprim : ∀ p, readPrim rc p { rest := renderRaw (.obj kvs), start := true, missing := [] } = .err .syntax := by
      intro p; simp [readPrim, readPrimTok_top_obj']
    have hstr : readString rc { rest := renderRaw (.obj kvs), start := true, missing := [] } = .err .syntax := by
      simp [readString, readPrimTok_top_obj']
    cases ty with
    | prim p => simp [readTy, treeRead, tcOf, ror2Sem, hprim, liftT]
    | arr ty' =>
      have : atArray { rest := renderRaw (.obj kvs), start := true, missing := [] } = false := by
        simp [renderRaw, atArray_obj]
      simp [readTy, readArray, treeRead, this, liftT]
    | map ty' =>
      simp only [readTy, treeRead, hmap, liftT_bind_ok]
      cases treeReadEntries (tcOf rc) scope (.mapOf ty') [] [] kvs <;> simp [liftT]
    | ref n =>
      simp only [readTy, treeRead, tcOf]
      cases hfind : rc.env.find n with
      | none => simp [liftT]
      | some decl =>
        cases decl with
        | typeref p => simp [hprim, ror2Sem, liftT]
        | enum syms => simp [hstr, ror2Sem, bindT, liftT]
        | fixed size => simp [hstr, ror2Sem, bindT, liftT]
        | record incs own =>
          have := hmap (.record (allFields rc.env (includeFuel rc.env) n))
          simp only [tcOf] at this
          simp only [Bool.true_and]
          rw [this, liftT_bind_ok]
          cases treeReadEntries { env := rc.env, tracker := rc.tracker, sem := ror2Sem rc.plus } scope
              (.record (allFields rc.env (includeFuel rc.env) n)) [] [] kvs with
          | ok r ms =>
            obtain ⟨fs, seen⟩ := r
            simp only [liftT, List.nil_append]
            cases finishRecord rc.env rc.tracker scope (!rc.query) (allFields rc.env (includeFuel rc.env) n) own fs seen ms <;>
              simp [liftT]
          | err e => simp [liftT]
          | panic => simp [liftT]
          | unmodelled => simp [liftT]
        | union hasNull members =>
          have := hmap (.union members)
          simp only [tcOf] at this
          simp only []
          rw [this, liftT_bind_ok]
          cases treeReadEntries { env := rc.env, tracker := rc.tracker, sem := ror2Sem rc.plus } scope
              (.union members) [] [] kvs with
          | ok r ms =>
            obtain ⟨ms', seen⟩ := r
            simp only [liftT]
            by_cases hu : (!hasNull && seen.isEmpty) = true <;> simp [hu, liftT]
          | err e => simp [liftT]
          | panic => simp [liftT]
          | unmodelled => simp [liftT]
  | .arr xs, hw, fuel, hf, scope, ty => by
    simp only [RawWF] at hw
    simp only [needT] at hf
    obtain ⟨f, rfl⟩ : ∃ f, fuel = f + 4 := ⟨fuel - 4, by omega⟩
    have hprim : ∀ p, readPrim rc p { rest := renderRaw (.arr xs), start := true, missing := [] } = .err .syntax := by
      intro p; simp [readPrim, readPrimTok_top_arr]
    have hstr : readString rc { rest := renderRaw (.arr xs), start := true, missing := [] } = .err .syntax := by
      simp [readString, readPrimTok_top_arr]
    have hnomap : ∀ mode, readMap rc (f + 3) scope mode { rest := renderRaw (.arr xs), start := true, missing := [] } =
        .err .syntax := by
      intro mode
      simp only [renderRaw, readMap, atMap_arr, Bool.not_false, ↓reduceIte]
    cases ty with
    | prim p => simp [readTy, treeRead, tcOf, ror2Sem, hprim, liftT]
    | map ty' => simp only [readTy, treeRead, hnomap, liftT]
    | arr ty' =>
      simp only [readTy, treeRead]
      exact readArray_top rc xs hw (f + 3) (by omega) scope ty'
    | ref n =>
      simp only [readTy, treeRead, tcOf]
      cases hfind : rc.env.find n with
      | none => simp [liftT]
      | some decl =>
        cases decl with
        | typeref p => simp [hprim, ror2Sem, liftT]
        | enum syms => simp [hstr, ror2Sem, bindT, liftT]
        | fixed size => simp [hstr, ror2Sem, bindT, liftT]
        | record incs own => simp only [hnomap, bindT, liftT]
        | union hasNull members => simp only [hnomap, bindT, liftT]
  | .null, hw, _, _, _, _ => by simp [RawWF] at hw
  | .bool _, hw, _, _, _, _ => by simp [RawWF] at hw
  | .num _, hw, _, _, _, _ => by simp [RawWF] at hw

end Restli.Codec
