import Restli.Model.Ror2Tree
/-! Scanning lemmas for the ROR2 cursor reader on rendered raw-token trees. -/
namespace Restli.Codec
open Json (JVal)

theorem isDelim_iff (c : UInt8) : isDelim c = true ↔ c = 44 ∨ c = 41 := by simp [isDelim]

theorem scanPrim_append (tok : Bytes) (d : UInt8) (rest : Bytes)
    (h : ∀ c ∈ tok, c ≠ 44 ∧ c ≠ 41) (hd : isDelim d = true) :
    scanPrim (tok ++ d :: rest) = (tok, d :: rest) := by
  induction tok with
  | nil => simp [scanPrim, hd]
  | cons c cs ih =>
    have hc := h c (by simp)
    have : isDelim c = false := by simp [isDelim, hc.1, hc.2]
    simp [scanPrim, this, ih (fun x hx => h x (by simp [hx]))]

theorem hasBad_false_of_clean (t : Bytes) (h : ∀ c ∈ t, c ≠ 40 ∧ c ≠ 41 ∧ c ≠ 44) : hasBad t = false := by
  simp only [hasBad, List.any_eq_false]
  intro c hc
  have := h c hc
  simp [this.1, this.2.1, this.2.2]

/-- reading a clean token that is followed by a delimiter, anywhere but at the input start -/
theorem readPrimTok_clean (tok : Bytes) (hc : tokClean tok) (d : UInt8) (hd : isDelim d = true)
    (rest : Bytes) (m : List Bytes) :
    readPrimTok { rest := tok ++ d :: rest, start := false, missing := m } =
      .ok tok { rest := d :: rest, start := false, missing := m } := by
  unfold readPrimTok
  simp only [Bool.false_eq_true, ↓reduceIte]
  rw [scanPrim_append tok d rest (fun c h => ⟨(hc.2 c h).2.2, (hc.2 c h).2.1⟩) hd]
  simp [hasBad_false_of_clean tok hc.2, RS.adv]

/-- the token `scanPrim` returns starts with the first byte when that byte is no delimiter -/
theorem scanPrim_head (c : UInt8) (xs : Bytes) (hc : isDelim c = false) :
    (scanPrim (c :: xs)).1 = c :: (scanPrim xs).1 ∧ (scanPrim (c :: xs)).2 = (scanPrim xs).2 := by
  simp [scanPrim, hc]

theorem scanPrim_rest_ne_nil (xs : Bytes) (h : ∃ x ∈ xs, isDelim x = true) : (scanPrim xs).2 ≠ [] := by
  induction xs with
  | nil => obtain ⟨x, hx, _⟩ := h; cases hx
  | cons c cs ih =>
    by_cases hc : isDelim c = true
    · simp [scanPrim, hc]
    · simp only [Bool.not_eq_true] at hc
      rw [(scanPrim_head c cs hc).2]
      apply ih
      obtain ⟨x, hx, hdx⟩ := h
      rcases List.mem_cons.1 hx with rfl | hx
      · rw [hc] at hdx; cases hdx
      · exact ⟨x, hx, hdx⟩

/-- a primitive read that starts on a '(' (an object, or the '(' of `List(`) is a syntax error -/
theorem readPrimTok_on_container (xs : Bytes) (m : List Bytes) (hbad : ∃ pre post, xs = pre ++ 40 :: post ∧ ∀ c ∈ pre, isDelim c = false)
    (hdel : ∃ x ∈ xs, isDelim x = true) :
    readPrimTok { rest := xs, start := false, missing := m } = .err .syntax := by
  unfold readPrimTok
  simp only [Bool.false_eq_true, ↓reduceIte]
  have hne := scanPrim_rest_ne_nil xs hdel
  have hb : hasBad (scanPrim xs).1 = true := by
    obtain ⟨pre, post, rfl, hpre⟩ := hbad
    clear hdel hne
    induction pre with
    | nil =>
      have : isDelim 40 = false := by decide
      simp [(scanPrim_head 40 post this).1, hasBad]
    | cons p ps ih =>
      have hp := hpre p (by simp)
      simp only [List.cons_append, (scanPrim_head p (ps ++ 40 :: post) hp).1]
      simp only [hasBad, List.any_cons, Bool.or_eq_true]
      right
      exact ih (fun c hc => hpre c (by simp [hc]))
  cases hs : scanPrim xs with
  | mk t r =>
    rw [hs] at hne hb
    simp only at hne hb ⊢
    have : r.isEmpty = false := by cases r <;> simp_all
    simp [this, hb]

/-! ### `Skip` over a rendered value -/

theorem skipScan_plain (c : UInt8) (cs : Bytes) (b : Bool) (n : Nat)
    (h : c ≠ 40 ∧ c ≠ 41 ∧ c ≠ 44) : skipScan b n (c :: cs) = skipScan b n cs := by
  simp [skipScan, h.1, h.2.1, h.2.2]

theorem skipScan_clean_append (tok : Bytes) (tail : Bytes) (b : Bool) (n : Nat)
    (h : ∀ c ∈ tok, c ≠ 40 ∧ c ≠ 41 ∧ c ≠ 44) : skipScan b n (tok ++ tail) = skipScan b n tail := by
  induction tok with
  | nil => rfl
  | cons c cs ih =>
    rw [List.cons_append, skipScan_plain c _ b n (h c (by simp))]
    exact ih (fun x hx => h x (by simp [hx]))

theorem listPrefix_eq : Gen.listPrefix = [76, 105, 115, 116, 40] := rfl

mutual
/-- inside at least one open parenthesis, the scan runs over a whole rendered value -/
theorem skipScan_over : (t : JVal) → RawWF t → ∀ n tail,
    skipScan true (n + 1) (renderRaw t ++ tail) = skipScan true (n + 1) tail
  | .str tok, hw, n, tail => by
    simp only [renderRaw]
    exact skipScan_clean_append tok tail true (n + 1) hw.2
  | .obj kvs, hw, n, tail => by
    simp only [renderRaw, List.cons_append, List.append_assoc, List.nil_append]
    have h1 : skipScan true (n + 1) (40 :: (renderRawKvs kvs ++ 41 :: tail)) =
        skipScan true (n + 2) (renderRawKvs kvs ++ 41 :: tail) := by simp [skipScan]
    rw [h1, skipScan_over_kvs kvs hw (n + 1) (41 :: tail)]
    simp [skipScan]
  | .arr xs, hw, n, tail => by
    simp only [renderRaw, listPrefix_eq, List.cons_append, List.append_assoc, List.nil_append]
    have h1 : skipScan true (n + 1) (76 :: 105 :: 115 :: 116 :: 40 :: (renderRawItems xs ++ 41 :: tail)) =
        skipScan true (n + 2) (renderRawItems xs ++ 41 :: tail) := by simp [skipScan]
    rw [h1, skipScan_over_items xs hw (n + 1) (41 :: tail)]
    simp [skipScan]
  | .null, hw, _, _ => by simp [RawWF] at hw
  | .bool _, hw, _, _ => by simp [RawWF] at hw
  | .num _, hw, _, _ => by simp [RawWF] at hw
theorem skipScan_over_kvs : (kvs : List (Bytes × JVal)) → RawWFKvs kvs → ∀ n tail,
    skipScan true (n + 1) (renderRawKvs kvs ++ tail) = skipScan true (n + 1) tail
  | [], _, _, _ => by simp [renderRawKvs]
  | [(k, v)], hw, n, tail => by
    simp only [RawWFKvs] at hw
    simp only [renderRawKvs, List.append_assoc, List.cons_append]
    rw [skipScan_clean_append k _ true (n + 1) (fun c hc => ⟨(hw.1.2 c hc).1, (hw.1.2 c hc).2.1, (hw.1.2 c hc).2.2.1⟩)]
    rw [skipScan_plain 58 _ true (n + 1) (by decide)]
    exact skipScan_over v hw.2.1 n tail
  | (k, v) :: kv2 :: more, hw, n, tail => by
    simp only [RawWFKvs] at hw
    simp only [renderRawKvs, List.append_assoc, List.cons_append]
    rw [skipScan_clean_append k _ true (n + 1) (fun c hc => ⟨(hw.1.2 c hc).1, (hw.1.2 c hc).2.1, (hw.1.2 c hc).2.2.1⟩)]
    rw [skipScan_plain 58 _ true (n + 1) (by decide)]
    rw [skipScan_over v hw.2.1 n _]
    have hc : skipScan true (n + 1) (44 :: (renderRawKvs (kv2 :: more) ++ tail)) =
        skipScan true (n + 1) (renderRawKvs (kv2 :: more) ++ tail) := by simp [skipScan]
    rw [hc]
    exact skipScan_over_kvs (kv2 :: more) (by simpa [RawWFKvs] using hw.2.2) n tail
theorem skipScan_over_items : (xs : List JVal) → RawWFItems xs → ∀ n tail,
    skipScan true (n + 1) (renderRawItems xs ++ tail) = skipScan true (n + 1) tail
  | [], _, _, _ => by simp [renderRawItems]
  | [v], hw, n, tail => by
    simp only [RawWFItems] at hw
    simp only [renderRawItems]
    exact skipScan_over v hw.1 n tail
  | v :: v2 :: more, hw, n, tail => by
    simp only [RawWFItems] at hw
    simp only [renderRawItems, List.append_assoc, List.cons_append]
    rw [skipScan_over v hw.1 n _]
    have hc : skipScan true (n + 1) (44 :: (renderRawItems (v2 :: more) ++ tail)) =
        skipScan true (n + 1) (renderRawItems (v2 :: more) ++ tail) := by simp [skipScan]
    rw [hc]
    exact skipScan_over_items (v2 :: more) (by simpa [RawWFItems] using hw.2) n tail
end

/-! ### what the reader sees at the head of a rendered value -/

theorem tok_head (tok : Bytes) (h : tokClean tok) : ∃ c cs, tok = c :: cs ∧ c ≠ 40 := by
  cases tok with
  | nil => exact absurd rfl h.1
  | cons c cs => exact ⟨c, cs, rfl, (h.2 c (by simp)).1⟩

theorem atMap_tok (tok : Bytes) (h : tokClean tok) (tail : Bytes) (st : Bool) (m : List Bytes) :
    atMap { rest := tok ++ tail, start := st, missing := m } = false := by
  obtain ⟨c, cs, rfl, hc⟩ := tok_head tok h
  simp [atMap, hc]

theorem isPrefixOf_listPrefix_clean (tok : Bytes) (h : ∀ c ∈ tok, c ≠ 40) (d : UInt8)
    (hd : isDelim d = true) (rest : Bytes) : Gen.listPrefix.isPrefixOf (tok ++ d :: rest) = false := by
  rw [listPrefix_eq]
  have hd' : d = 44 ∨ d = 41 := (isDelim_iff d).1 hd
  match tok, h with
  | [], _ => rcases hd' with rfl | rfl <;> simp [List.isPrefixOf]
  | [a], _ => rcases hd' with rfl | rfl <;> simp [List.isPrefixOf]
  | [a, b], _ => rcases hd' with rfl | rfl <;> simp [List.isPrefixOf]
  | [a, b, c], _ => rcases hd' with rfl | rfl <;> simp [List.isPrefixOf]
  | [a, b, c, e], _ => rcases hd' with rfl | rfl <;> simp [List.isPrefixOf]
  | a :: b :: c :: e :: f :: r, h =>
    simp [List.isPrefixOf]
    intro _ _ _ _ hf
    exact (h f (by simp)) hf.symm

theorem atArray_tok (tok : Bytes) (h : tokClean tok) (d : UInt8) (hd : isDelim d = true) (rest : Bytes)
    (st : Bool) (m : List Bytes) :
    atArray { rest := tok ++ d :: rest, start := st, missing := m } = false := by
  simp [atArray, isPrefixOf_listPrefix_clean tok (fun c hc => (h.2 c hc).1) d hd rest]

theorem atMap_obj (body : Bytes) (st : Bool) (m : List Bytes) :
    atMap { rest := 40 :: body, start := st, missing := m } = true := by simp [atMap]

theorem atMap_arr (body : Bytes) (st : Bool) (m : List Bytes) :
    atMap { rest := Gen.listPrefix ++ body, start := st, missing := m } = false := by
  simp [atMap, listPrefix_eq]

theorem atArray_obj (body : Bytes) (st : Bool) (m : List Bytes) :
    atArray { rest := 40 :: body, start := st, missing := m } = false := by
  simp [atArray, listPrefix_eq, List.isPrefixOf]

theorem atArray_arr (body : Bytes) (hb : body ≠ []) (st : Bool) (m : List Bytes) :
    atArray { rest := Gen.listPrefix ++ body, start := st, missing := m } = true := by
  cases body with
  | nil => exact absurd rfl hb
  | cons x xs => simp [atArray, listPrefix_eq, List.isPrefixOf]

/-- `Skip` consumes exactly one rendered value -/
theorem skip_rendered (t : JVal) (hw : RawWF t) (d : UInt8) (hd : isDelim d = true) (rest : Bytes)
    (m : List Bytes) :
    skip { rest := renderRaw t ++ d :: rest, start := false, missing := m } =
      .ok () { rest := d :: rest, start := false, missing := m } := by
  have hd' : d = 44 ∨ d = 41 := (isDelim_iff d).1 hd
  have stop : ∀ b, skipScan b 0 (d :: rest) = some (d :: rest) := by
    intro b; rcases hd' with rfl | rfl <;> simp [skipScan]
  cases t with
  | str tok =>
    simp only [RawWF] at hw
    simp only [skip, renderRaw, Bool.false_eq_true, ↓reduceIte, atArray_tok tok hw d hd rest,
      atMap_tok tok hw, Bool.or_self]
    rw [skipScan_clean_append tok _ false 0 hw.2, stop]
    simp [RS.adv]
  | obj kvs =>
    simp only [RawWF] at hw
    simp only [skip, renderRaw, Bool.false_eq_true, ↓reduceIte, List.cons_append, List.append_assoc,
      List.nil_append, atMap_obj, Bool.or_true]
    have h1 : skipScan true 0 (40 :: (renderRawKvs kvs ++ 41 :: d :: rest)) =
        skipScan true 1 (renderRawKvs kvs ++ 41 :: d :: rest) := by simp [skipScan]
    rw [h1, skipScan_over_kvs kvs hw 0 _]
    have h2 : skipScan true 1 (41 :: d :: rest) = skipScan true 0 (d :: rest) := by simp [skipScan]
    rw [h2, stop]
    simp [RS.adv]
  | arr xs =>
    simp only [RawWF] at hw
    have hat : atArray { rest := Gen.listPrefix ++ (renderRawItems xs ++ [41]) ++ d :: rest, start := false, missing := m } = true := by
      rw [List.append_assoc]; exact atArray_arr _ (by simp) _ _
    simp only [skip, renderRaw, Bool.false_eq_true, ↓reduceIte, hat, Bool.true_or]
    simp only [listPrefix_eq, List.cons_append, List.append_assoc, List.nil_append]
    have h1 : skipScan true 0 (76 :: 105 :: 115 :: 116 :: 40 :: (renderRawItems xs ++ 41 :: d :: rest)) =
        skipScan true 1 (renderRawItems xs ++ 41 :: d :: rest) := by simp [skipScan]
    rw [h1, skipScan_over_items xs hw 0 _]
    have h2 : skipScan true 1 (41 :: d :: rest) = skipScan true 0 (d :: rest) := by simp [skipScan]
    rw [h2, stop]
    simp [RS.adv]
  | null => simp [RawWF] at hw
  | bool _ => simp [RawWF] at hw
  | num _ => simp [RawWF] at hw

end Restli.Codec
