import Restli.Proofs.Ror2Bridge
import Restli.Proofs.SortKeys
import Restli.Proofs.Digits
import Restli.Proofs.Escape
import Restli.Model.RenderRor2
import Restli.Model.Norm
/-! Towards the typed ROR2 round trip: what the writer renders is the rendering of a well-formed
raw-token tree (`rawOf`), so the bridge applies to every document any encoder can produce. -/
namespace Restli.Codec
open Json (JVal)

/-- what the proofs need from a flavour's escaper/unescaper pair (instances: Props/C01) -/
structure EscLaws (esc : Bytes → Bytes) (plus : Bool) : Prop where
  rt : ∀ b, Escape.unescape plus (esc b) = some b
  clean : ∀ b, ∀ c ∈ esc b, c ∉ Escape.reserved
  ne : ∀ b, b ≠ [] → esc b ≠ []

mutual
/-- the raw-token tree the ROR2 writer's output is the rendering of -/
def rawOf (esc : Bytes → Bytes) : Doc → JVal
  | .int v => .str (Strconv.formatInt v)
  | .f64 b => .str (ror2Float esc b)
  | .bool b => .str (if b then trueB else falseB)
  | .str b => .str (ror2Str esc b)
  | .bytes b => .str (ror2Str esc b)
  | .obj kvs => .obj (rawOfKvs esc kvs)
  | .arr xs => .arr (rawOfItems esc xs)
def rawOfKvs (esc : Bytes → Bytes) : List (Bytes × Doc) → List (Bytes × JVal)
  | [] => []
  | (k, v) :: rest => (ror2Str esc k, rawOf esc v) :: rawOfKvs esc rest
def rawOfItems (esc : Bytes → Bytes) : List Doc → List JVal
  | [] => []
  | v :: rest => rawOf esc v :: rawOfItems esc rest
end

mutual
theorem renderRor2_eq_renderRaw (esc : Bytes → Bytes) : (d : Doc) → renderRor2 esc d = renderRaw (rawOf esc d)
  | .int _ => by simp [renderRor2, rawOf, renderRaw]
  | .f64 _ => by simp [renderRor2, rawOf, renderRaw]
  | .bool b => by cases b <;> simp [renderRor2, rawOf, renderRaw]
  | .str _ => by simp [renderRor2, rawOf, renderRaw]
  | .bytes _ => by simp [renderRor2, rawOf, renderRaw]
  | .obj kvs => by simp [renderRor2, rawOf, renderRaw, renderRor2Kvs_eq esc kvs]
  | .arr xs => by simp [renderRor2, rawOf, renderRaw, renderRor2Items_eq esc xs]
theorem renderRor2Kvs_eq (esc : Bytes → Bytes) : (kvs : List (Bytes × Doc)) →
    renderRor2Kvs esc kvs = renderRawKvs (rawOfKvs esc kvs)
  | [] => by simp [renderRor2Kvs, rawOfKvs, renderRawKvs]
  | [(k, v)] => by simp [renderRor2Kvs, rawOfKvs, renderRawKvs, renderRor2_eq_renderRaw esc v]
  | (k, v) :: kv2 :: more => by
    have ih := renderRor2Kvs_eq esc (kv2 :: more)
    obtain ⟨k2, v2⟩ := kv2
    simp only [rawOfKvs] at ih
    simp [renderRor2Kvs, rawOfKvs, renderRawKvs, renderRor2_eq_renderRaw esc v, ih]
theorem renderRor2Items_eq (esc : Bytes → Bytes) : (xs : List Doc) →
    renderRor2Items esc xs = renderRawItems (rawOfItems esc xs)
  | [] => by simp [renderRor2Items, rawOfItems, renderRawItems]
  | [v] => by simp [renderRor2Items, rawOfItems, renderRawItems, renderRor2_eq_renderRaw esc v]
  | v :: v2 :: more => by
    have ih := renderRor2Items_eq esc (v2 :: more)
    simp only [rawOfItems] at ih
    simp [renderRor2Items, rawOfItems, renderRawItems, renderRor2_eq_renderRaw esc v, ih]
end

/-- the text a float is written as, before the flavour's escaper is applied to it (the three
special values are written verbatim) -/
def floatText (bits : Nat) : Bytes :=
  let d := Strconv.decodeBits Strconv.f64 bits
  if d.cls == 2 then nanB
  else if d.cls == 1 then (if d.neg then 45 :: infinityB else infinityB)
  else Strconv.formatFloat64 bits


/-- what the proofs assume about `strconv` float formatting/parsing and the float32/float64
conversions (third-party; modelled in Lib/Strconv.lean and compared with Go on every run):
hypotheses of the theorems, never axioms -/
structure FloatLaws : Prop where
  text_ne : ∀ b, floatText b ≠ []
  rt64 : ∀ b, b < 2 ^ 64 → Strconv.parseFloat Strconv.f64 (floatText b) = .ok (normF Strconv.f64 b)
  rt32 : ∀ b, b < 2 ^ 32 →
    Strconv.parseFloat Strconv.f32 (floatText (Strconv.convert Strconv.f32 Strconv.f64 b)) = .ok (normF Strconv.f32 b)

theorem reserved_mem (c : UInt8) : c ∉ Escape.reserved ↔ c ≠ 40 ∧ c ≠ 41 ∧ c ≠ 44 ∧ c ≠ 58 ∧ c ≠ 39 := by
  simp [Escape.reserved]

theorem ror2Str_keyClean (esc : Bytes → Bytes) (plus : Bool) (E : EscLaws esc plus) (b : Bytes) :
    keyClean (ror2Str esc b) := by
  unfold ror2Str
  split
  · exact ⟨by simp [show Gen.emptyMarker = [39, 39] from rfl], by
      intro c hc
      have : c = 39 := by simpa [show Gen.emptyMarker = [39, 39] from rfl] using hc
      subst this; decide⟩
  · next hb =>
    have hne : b ≠ [] := by intro h; subst h; simp at hb
    refine ⟨E.ne b hne, ?_⟩
    intro c hc
    have := (reserved_mem c).1 (E.clean b c hc)
    exact ⟨this.1, this.2.1, this.2.2.1, this.2.2.2.1⟩

theorem keyClean_tokClean (t : Bytes) (h : keyClean t) : tokClean t :=
  ⟨h.1, fun c hc => ⟨(h.2 c hc).1, (h.2 c hc).2.1, (h.2 c hc).2.2.1⟩⟩

theorem isDigit_not_struct (c : UInt8) (h : Strconv.isDigit c = true ∨ c = 45) : c ≠ 40 ∧ c ≠ 41 ∧ c ≠ 44 := by
  rcases h with h | h
  · simp only [Strconv.isDigit, Bool.and_eq_true, decide_eq_true_eq] at h
    refine ⟨?_, ?_, ?_⟩ <;> (intro hc; subst hc; revert h; decide)
  · subst h; decide

theorem ror2Float_eq (esc : Bytes → Bytes) (b : Nat) :
    ror2Float esc b =
      (if (Strconv.decodeBits Strconv.f64 b).cls == 2 || (Strconv.decodeBits Strconv.f64 b).cls == 1
       then floatText b else esc (floatText b)) := by
  unfold ror2Float floatText
  simp only
  by_cases h2 : ((Strconv.decodeBits Strconv.f64 b).cls == 2) = true
  · simp [h2]
  · by_cases h1 : ((Strconv.decodeBits Strconv.f64 b).cls == 1) = true
    · simp [h2, h1]
    · simp [h2, h1]

theorem specials_clean : (∀ c ∈ nanB, c ≠ 40 ∧ c ≠ 41 ∧ c ≠ 44 ∧ c ≠ 37 ∧ c ≠ 43) ∧
    (∀ c ∈ infinityB, c ≠ 40 ∧ c ≠ 41 ∧ c ≠ 44 ∧ c ≠ 37 ∧ c ≠ 43) ∧
    (∀ c ∈ (45 :: infinityB : Bytes), c ≠ 40 ∧ c ≠ 41 ∧ c ≠ 44 ∧ c ≠ 37 ∧ c ≠ 43) := by decide

/-- in the special cases `floatText` is one of the three literal tokens -/
theorem floatText_special (b : Nat)
    (h : ((Strconv.decodeBits Strconv.f64 b).cls == 2 || (Strconv.decodeBits Strconv.f64 b).cls == 1) = true) :
    ∀ c ∈ floatText b, c ≠ 40 ∧ c ≠ 41 ∧ c ≠ 44 ∧ c ≠ 37 ∧ c ≠ 43 := by
  unfold floatText
  simp only
  by_cases h2 : ((Strconv.decodeBits Strconv.f64 b).cls == 2) = true
  · simp only [h2, ↓reduceIte]; exact specials_clean.1
  · have h1 : ((Strconv.decodeBits Strconv.f64 b).cls == 1) = true := by simpa [h2] using h
    simp only [h2, Bool.false_eq_true, ↓reduceIte, h1]
    split
    · exact specials_clean.2.2
    · exact specials_clean.2.1

theorem ror2Float_tokClean (esc : Bytes → Bytes) (plus : Bool) (E : EscLaws esc plus) (F : FloatLaws) (b : Nat) :
    tokClean (ror2Float esc b) := by
  rw [ror2Float_eq]
  split
  · next h =>
    exact ⟨F.text_ne b, fun c hc => ⟨(floatText_special b h c hc).1, (floatText_special b h c hc).2.1, (floatText_special b h c hc).2.2.1⟩⟩
  · refine ⟨E.ne _ (F.text_ne b), ?_⟩
    intro c hc
    have := (reserved_mem c).1 (E.clean _ c hc)
    exact ⟨this.1, this.2.1, this.2.2.1⟩

mutual
/-- every document the ROR2 writer can be asked to emit renders to a well-formed raw-token tree -/
theorem rawOf_wf (esc : Bytes → Bytes) (plus : Bool) (E : EscLaws esc plus) (F : FloatLaws) :
    (d : Doc) → RawWF (rawOf esc d)
  | .int v => by
    simp only [rawOf, RawWF]
    exact ⟨(Strconv.formatInt_clean v).1, fun c hc => isDigit_not_struct c ((Strconv.formatInt_clean v).2 c hc)⟩
  | .f64 b => by simp only [rawOf, RawWF]; exact ror2Float_tokClean esc plus E F b
  | .bool b => by cases b <;> simp only [rawOf, RawWF] <;> exact ⟨by simp [trueB, falseB], by decide⟩
  | .str b => by simp only [rawOf, RawWF]; exact keyClean_tokClean _ (ror2Str_keyClean esc plus E b)
  | .bytes b => by simp only [rawOf, RawWF]; exact keyClean_tokClean _ (ror2Str_keyClean esc plus E b)
  | .obj kvs => by simp only [rawOf, RawWF]; exact rawOfKvs_wf esc plus E F kvs
  | .arr xs => by simp only [rawOf, RawWF]; exact rawOfItems_wf esc plus E F xs
theorem rawOfKvs_wf (esc : Bytes → Bytes) (plus : Bool) (E : EscLaws esc plus) (F : FloatLaws) :
    (kvs : List (Bytes × Doc)) → RawWFKvs (rawOfKvs esc kvs)
  | [] => by simp [rawOfKvs, RawWFKvs]
  | (k, v) :: rest => by
    simp only [rawOfKvs, RawWFKvs]
    exact ⟨ror2Str_keyClean esc plus E k, rawOf_wf esc plus E F v, rawOfKvs_wf esc plus E F rest⟩
theorem rawOfItems_wf (esc : Bytes → Bytes) (plus : Bool) (E : EscLaws esc plus) (F : FloatLaws) :
    (xs : List Doc) → RawWFItems (rawOfItems esc xs)
  | [] => by simp [rawOfItems, RawWFItems]
  | v :: rest => by
    simp only [rawOfItems, RawWFItems]
    exact ⟨rawOf_wf esc plus E F v, rawOfItems_wf esc plus E F rest⟩
end

/-! ### leaves: what the reader makes of the tokens the writer emits -/

theorem tracker_check_empty (ign : Nat) (scope : List Seg) :
    ({ excl := .empty, ignore := ign } : Tracker).check scope = .no := by
  unfold Tracker.check
  split
  · rfl
  · have : ∀ path, gmatches (PathSpec.node []) path = .no := by
      intro path; cases path with
      | nil => simp [gmatches]
      | cons a as => cases as <;> simp [gmatches]
    exact this _

theorem unescAux_plain (plus : Bool) (t : Bytes) (h : ∀ c ∈ t, c ≠ 37 ∧ c ≠ 43) :
    Escape.unescAux plus .normal t = some t := by
  induction t with
  | nil => rfl
  | cons c cs ih =>
    have hc := h c (by simp)
    have e1 : (c == 37) = false := beq_eq_false_iff_ne.mpr hc.1
    have e2 : (c == 43) = false := beq_eq_false_iff_ne.mpr hc.2
    simp [Escape.unescAux, e1, e2, ih (fun x hx => h x (by simp [hx]))]

theorem unescape_plain (plus : Bool) (t : Bytes) (h : ∀ c ∈ t, c ≠ 37 ∧ c ≠ 43) :
    Escape.unescape plus t = some t := unescAux_plain plus t h

theorem formatInt_plain (v : Int) : ∀ c ∈ Strconv.formatInt v, c ≠ 37 ∧ c ≠ 43 := by
  intro c hc
  rcases (Strconv.formatInt_clean v).2 c hc with h | h
  · simp only [Strconv.isDigit, Bool.and_eq_true, decide_eq_true_eq] at h
    constructor <;> (intro hc'; subst hc'; revert h; decide)
  · subst h; decide

theorem tokString_ror2Str (esc : Bytes → Bytes) (plus : Bool) (E : EscLaws esc plus) (b : Bytes) :
    tokString plus (ror2Str esc b) = some b := by
  unfold ror2Str tokString
  by_cases hb : b.isEmpty = true
  · have : b = [] := by simpa using hb
    subst this
    simp [show Gen.emptyMarker = [39, 39] from rfl]
  · simp only [hb, Bool.false_eq_true, ↓reduceIte]
    have hne : b ≠ [] := by intro h; subst h; simp at hb
    have h1 : (esc b).isEmpty = false := by
      have := E.ne b hne
      cases h : esc b <;> simp_all
    have h2 : (esc b == Gen.emptyMarker) = false := by
      apply beq_eq_false_iff_ne.mpr
      intro heq
      have := E.clean b 39 (by rw [heq]; decide)
      exact this (by decide)
    simp [h1, h2, E.rt]

theorem decodeKey_ror2Str (esc : Bytes → Bytes) (plus : Bool) (E : EscLaws esc plus) (k : Bytes) :
    decodeKey plus (ror2Str esc k) = some k := by
  unfold ror2Str decodeKey
  by_cases hb : k.isEmpty = true
  · have : k = [] := by simpa using hb
    subst this; simp
  · simp only [hb, Bool.false_eq_true, ↓reduceIte]
    have h2 : (esc k == Gen.emptyMarker) = false := by
      apply beq_eq_false_iff_ne.mpr
      intro heq
      have := E.clean k 39 (by rw [heq]; decide)
      exact this (by decide)
    simp [h2, E.rt]

/-- integers: `ParseInt(unescape(FormatInt v)) = v` -/
theorem tokPrim_i32 (plus : Bool) (v : Int) (hlo : -(2147483648 : Int) ≤ v) (hhi : v < 2147483648) :
    tokPrim plus .i32 (Strconv.formatInt v) = .ok (.i32 v) := by
  have hp := Strconv.parseInt_formatInt 32 v (by simpa using hlo) (by simpa using hhi)
  simp [tokPrim, unescape_plain plus _ (formatInt_plain v), hp]

theorem tokPrim_i64 (plus : Bool) (v : Int) (hlo : -(9223372036854775808 : Int) ≤ v) (hhi : v < 9223372036854775808) :
    tokPrim plus .i64 (Strconv.formatInt v) = .ok (.i64 v) := by
  have hp := Strconv.parseInt_formatInt 64 v (by simpa using hlo) (by simpa using hhi)
  simp [tokPrim, unescape_plain plus _ (formatInt_plain v), hp]

theorem tokPrim_bool (plus : Bool) (b : Bool) :
    tokPrim plus .bool (if b then trueB else falseB) = .ok (.bool b) := by
  cases b <;> cases plus <;> rfl

theorem tokPrim_str (esc : Bytes → Bytes) (plus : Bool) (E : EscLaws esc plus) (b : Bytes) :
    tokPrim plus .str (ror2Str esc b) = .ok (.str b) := by
  simp [tokPrim, tokString_ror2Str esc plus E b]

theorem tokPrim_bytes (esc : Bytes → Bytes) (plus : Bool) (E : EscLaws esc plus) (b : Bytes) :
    tokPrim plus .bytes (ror2Str esc b) = .ok (.bytes b) := by
  simp [tokPrim, tokString_ror2Str esc plus E b]

/-! floats -/

theorem unescape_ror2Float (esc : Bytes → Bytes) (plus : Bool) (E : EscLaws esc plus) (b : Nat) :
    Escape.unescape plus (ror2Float esc b) = some (floatText b) := by
  rw [ror2Float_eq]
  split
  · next h =>
    exact unescape_plain plus _ (fun c hc => ⟨(floatText_special b h c hc).2.2.2.1, (floatText_special b h c hc).2.2.2.2⟩)
  · exact E.rt _

theorem tokPrim_f64 (esc : Bytes → Bytes) (plus : Bool) (E : EscLaws esc plus) (F : FloatLaws) (b : Nat)
    (hb : b < 2 ^ 64) : tokPrim plus .f64 (ror2Float esc b) = .ok (.f64 (normF Strconv.f64 b)) := by
  simp [tokPrim, unescape_ror2Float esc plus E b, F.rt64 b hb]

theorem tokPrim_f32 (esc : Bytes → Bytes) (plus : Bool) (E : EscLaws esc plus) (F : FloatLaws) (b : Nat)
    (hb : b < 2 ^ 32) :
    tokPrim plus .f32 (ror2Float esc (Strconv.convert Strconv.f32 Strconv.f64 b)) = .ok (.f32 (normF Strconv.f32 b)) := by
  simp [tokPrim, unescape_ror2Float esc plus E _, F.rt32 b hb]

end Restli.Codec
