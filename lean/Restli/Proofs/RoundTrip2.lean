import Restli.Proofs.RoundTrip
/-! The typed tree-level round trip: reading the document tree of what `encode` produced gives
back the value (normalised: defaults filled, entries in key order, NaN canonical). The proof is
generic in how a wire format presents a document as a parsed tree (`TreeEnc`: leaf tokens, key
tokens, leaf semantics) and is instantiated for ROR2 (raw-token trees, any escaper flavour) and for
JSON (typed tokens). -/
namespace Restli.Codec
open Json (JVal)

/-- how a wire format presents a document as a parsed tree -/
structure TreeEnc where
  /-- how the reader interprets leaves and member names -/
  sem : LeafSem
  /-- the member-name token written for a key -/
  key : Bytes → Bytes
  /-- the tree of a leaf document (int, float, bool, string, bytes) -/
  leaf : Doc → JVal

mutual
def treeOf (E : TreeEnc) : Doc → JVal
  | .obj kvs => .obj (treeOfKvs E kvs)
  | .arr xs => .arr (treeOfItems E xs)
  | .int v => E.leaf (.int v)
  | .f64 b => E.leaf (.f64 b)
  | .bool b => E.leaf (.bool b)
  | .str b => E.leaf (.str b)
  | .bytes b => E.leaf (.bytes b)
def treeOfKvs (E : TreeEnc) : List (Bytes × Doc) → List (Bytes × JVal)
  | [] => []
  | (k, v) :: rest => (E.key k, treeOf E v) :: treeOfKvs E rest
def treeOfItems (E : TreeEnc) : List Doc → List JVal
  | [] => []
  | v :: rest => treeOf E v :: treeOfItems E rest
end

/-! ### sorting commutes with re-labelling the values -/

theorem insertByKey_mapVal {α β : Type} (g : Bytes → β) (k : Bytes) (a : α) (l : List (Bytes × α)) :
    insertByKey (k, g k) (l.map (fun e => (e.1, g e.1))) =
      (insertByKey (k, a) l).map (fun e => (e.1, g e.1)) := by
  induction l with
  | nil => simp [insertByKey]
  | cons x xs ih =>
    simp only [List.map_cons, insertByKey]
    split <;> simp [ih]

theorem sortByKey_mapVal {α β : Type} (g : Bytes → β) (l : List (Bytes × α)) :
    sortByKey (l.map (fun e => (e.1, g e.1))) = (sortByKey l).map (fun e => (e.1, g e.1)) := by
  induction l with
  | nil => simp [sortByKey]
  | cons x xs ih =>
    obtain ⟨k, a⟩ := x
    simp only [List.map_cons, sortByKey, ih]
    exact insertByKey_mapVal g k a (sortByKey xs)

theorem keys_sortByKey_perm {α : Type} (l : List (Bytes × α)) : (sortByKey l).Perm l := by
  induction l with
  | nil => simp [sortByKey]
  | cons x xs ih =>
    simp only [sortByKey]
    have : ∀ (e : Bytes × α) (m : List (Bytes × α)), (insertByKey e m).Perm (e :: m) := by
      intro e m
      induction m with
      | nil => simp [insertByKey]
      | cons y ys ihm =>
        simp only [insertByKey]
        split
        · exact List.Perm.refl _
        · exact (List.Perm.cons y ihm).trans (List.Perm.swap e y ys)
    exact (this x (sortByKey xs)).trans (List.Perm.cons x ih)

theorem keysNodup_sortByKey {α : Type} (l : List (Bytes × α)) (h : KeysNodup l) : KeysNodup (sortByKey l) := by
  unfold KeysNodup at h ⊢
  exact ((keys_sortByKey_perm l).map (fun e => e.1)).nodup_iff.2 h

/-! ### the writer without exclusions keeps every entry, in order -/

/-- the document an element encoder produced (junk when it failed; only used under a success
hypothesis) -/
def okDoc (r : Except EncErr Doc) : Doc := match r with | .ok d => d | .error _ => .arr []

theorem encodeTyped_all (enc : Bytes → Ty → Value → Except EncErr Doc) :
    ∀ (items : List (Bytes × Ty × Value)) (kvs : List (Bytes × Doc)),
      encodeTyped (fun _ => false) enc items = .ok kvs →
      kvs = items.map (fun it => (it.1, okDoc (enc it.1 it.2.1 it.2.2))) ∧
      ∀ it ∈ items, enc it.1 it.2.1 it.2.2 = .ok (okDoc (enc it.1 it.2.1 it.2.2)) := by
  intro items
  induction items with
  | nil => intro kvs h; simp [encodeTyped] at h; subst h; simp
  | cons x xs ih =>
    obtain ⟨k, t, v⟩ := x
    intro kvs h
    simp only [encodeTyped, bind, Except.bind] at h
    cases hd : enc k t v with
    | error e => simp [hd] at h
    | ok d =>
      cases hm : encodeTyped (fun _ => false) enc xs with
      | error e => simp [hd, hm] at h
      | ok more =>
        simp only [hd, hm, Bool.false_eq_true, ↓reduceIte, pure, Except.pure, Except.ok.injEq] at h
        subst h
        obtain ⟨h1, h2⟩ := ih more hm
        refine ⟨by simp [hd, okDoc, h1], ?_⟩
        intro it hit
        rcases List.mem_cons.1 hit with rfl | hit
        · simp [hd, okDoc]
        · exact h2 it hit

theorem encodeKeyed_all (enc : Bytes → Value → Except EncErr Doc) :
    ∀ (items : List (Bytes × Value)) (kvs : List (Bytes × Doc)),
      encodeKeyed (fun _ => false) enc items = .ok kvs →
      kvs = items.map (fun it => (it.1, okDoc (enc it.1 it.2))) ∧
      ∀ it ∈ items, enc it.1 it.2 = .ok (okDoc (enc it.1 it.2)) := by
  intro items
  induction items with
  | nil => intro kvs h; simp [encodeKeyed] at h; subst h; simp
  | cons x xs ih =>
    obtain ⟨k, v⟩ := x
    intro kvs h
    simp only [encodeKeyed, bind, Except.bind] at h
    cases hd : enc k v with
    | error e => simp [hd] at h
    | ok d =>
      cases hm : encodeKeyed (fun _ => false) enc xs with
      | error e => simp [hd, hm] at h
      | ok more =>
        simp only [hd, hm, Bool.false_eq_true, ↓reduceIte, pure, Except.pure, Except.ok.injEq] at h
        subst h
        obtain ⟨h1, h2⟩ := ih more hm
        refine ⟨by simp [hd, okDoc, h1], ?_⟩
        intro it hit
        rcases List.mem_cons.1 hit with rfl | hit
        · simp [hd, okDoc]
        · exact h2 it hit

theorem encodeList_all (enc : Value → Except EncErr Doc) :
    ∀ (vs : List Value) (ds : List Doc), encodeList enc vs = .ok ds →
      ds = vs.map (fun v => okDoc (enc v)) ∧ ∀ v ∈ vs, enc v = .ok (okDoc (enc v)) := by
  intro vs
  induction vs with
  | nil => intro ds h; simp [encodeList] at h; subst h; simp
  | cons x xs ih =>
    intro ds h
    simp only [encodeList, bind, Except.bind] at h
    cases hd : enc x with
    | error e => simp [hd] at h
    | ok d =>
      cases hm : encodeList enc xs with
      | error e => simp [hd, hm] at h
      | ok more =>
        simp only [hd, hm, pure, Except.pure, Except.ok.injEq] at h
        subst h
        obtain ⟨h1, h2⟩ := ih more hm
        refine ⟨by simp [hd, okDoc, h1], ?_⟩
        intro v hv
        rcases List.mem_cons.1 hv with rfl | hv
        · simp [hd, okDoc]
        · exact h2 v hv

theorem setEntry_fresh (acc : List (Bytes × Value)) (k : Bytes) (v : Value)
    (h : ∀ e ∈ acc, e.1 ≠ k) : setEntry acc k v = acc ++ [(k, v)] := by
  unfold setEntry
  have : acc.any (fun e => e.1 == k) = false := by
    simp only [List.any_eq_false, beq_iff_eq]
    exact fun e he => h e he
  simp [this]

theorem treeOf_ne_null (E : TreeEnc) (hnn : ∀ d, E.leaf d ≠ .null) (d : Doc) : treeOf E d ≠ .null := by
  cases d <;> simp [treeOf] <;> exact hnn _

/-- reading the members of an object whose every member is readable by the callback (record and
map modes): the entries come back in document order, every key is seen -/
theorem readEntries_all (E : TreeEnc) (hnn : ∀ d, E.leaf d ≠ .null) (tc : TCfg)
    (hkey : ∀ k, tc.sem.key (E.key k) = some k) (htr : ∀ sc, tc.tracker.check sc = .no)
    (scope' : List Seg) (mode : MapMode) :
    ∀ (ts : List (Bytes × Doc × Value)),
      (∀ t ∈ ts, ∀ acc seen, treeCallbackWith (fun ty => treeRead tc false (scope' ++ [Seg.key t.1]) ty (treeOf E t.2.1))
          mode acc seen t.1 = .ok (setEntry acc t.1 t.2.2) []) →
      (ts.map (·.1)).Nodup →
      ∀ acc seen, (∀ e ∈ acc, e.1 ∉ ts.map (·.1)) →
        treeReadEntries tc scope' mode acc seen (treeOfKvs E (ts.map (fun t => (t.1, t.2.1)))) =
          .ok (acc ++ ts.map (fun t => (t.1, t.2.2)), seen ++ ts.map (·.1)) [] := by
  intro ts
  induction ts with
  | nil => intro _ _ acc seen _; simp [treeOfKvs, treeReadEntries]
  | cons t rest ih =>
    obtain ⟨k, d, x⟩ := t
    intro hgood hnd acc seen hacc
    simp only [List.map_cons, List.nodup_cons] at hnd
    simp only [List.map_cons, treeOfKvs]
    rw [treeReadEntries_cons _ _ _ _ _ _ _ _ (treeOf_ne_null E hnn d), hkey k]
    simp only [htr]
    rw [hgood (k, d, x) (by simp) acc seen]
    have hfresh : ∀ e ∈ acc, e.1 ≠ k := by
      intro e he heq
      exact hacc e he (by simp [heq])
    rw [setEntry_fresh acc k x hfresh]
    simp only [bindT]
    have hacc' : ∀ e ∈ acc ++ [(k, x)], e.1 ∉ rest.map (·.1) := by
      intro e he
      rcases List.mem_append.1 he with he | he
      · intro hm; exact hacc e he (by simp [hm])
      · simp only [List.mem_singleton] at he; subst he; exact hnd.1
    rw [ih (fun t ht => hgood t (by simp [ht])) hnd.2 (acc ++ [(k, x)]) (seen ++ [k]) hacc']
    simp [List.append_assoc]

theorem readItems_all (E : TreeEnc) (tc : TCfg) (scope : List Seg) (ty : Ty) :
    ∀ (ts : List (Doc × Value)) (idx : Nat),
      (∀ t ∈ ts, ∀ i, treeRead tc false (scope ++ [Seg.idx i]) ty (treeOf E t.1) = .ok t.2 []) →
      treeReadItems tc scope ty idx (treeOfItems E (ts.map (·.1))) = .ok (ts.map (·.2)) [] := by
  intro ts
  induction ts with
  | nil => intro _ _; simp [treeOfItems, treeReadItems]
  | cons t rest ih =>
    intro idx h
    simp only [List.map_cons, treeOfItems, treeReadItems]
    rw [h t (by simp) idx]
    simp only [bindT]
    rw [ih (idx + 1) (fun t' ht' => h t' (by simp [ht']))]
    simp

/-! ### what Go's static types guarantee about a value -/

mutual
def ValOK : Value → Prop
  | .i32 v => -(2147483648 : Int) ≤ v ∧ v < 2147483648
  | .i64 v => -(9223372036854775808 : Int) ≤ v ∧ v < 9223372036854775808
  | .f32 b => b < 2 ^ 32
  | .f64 b => b < 2 ^ 64
  | .record fs => ValOKKvs fs
  | .union ms => ValOKKvs ms
  | .map es => KeysNodup es ∧ ValOKKvs es
  | .arr vs => ValOKList vs
  | _ => True
def ValOKKvs : List (Bytes × Value) → Prop
  | [] => True
  | (_, v) :: rest => ValOK v ∧ ValOKKvs rest
def ValOKList : List Value → Prop
  | [] => True
  | v :: rest => ValOK v ∧ ValOKList rest
end

theorem valOKKvs_mem : ∀ (l : List (Bytes × Value)), ValOKKvs l → ∀ e ∈ l, ValOK e.2
  | [], _, e, he => by cases he
  | (k, v) :: rest, h, e, he => by
    simp only [ValOKKvs] at h
    rcases List.mem_cons.1 he with rfl | he
    · exact h.1
    · exact valOKKvs_mem rest h.2 e he

theorem valOKList_mem : ∀ (l : List Value), ValOKList l → ∀ v ∈ l, ValOK v
  | [], _, v, hv => by cases hv
  | x :: rest, h, v, hv => by
    simp only [ValOKList] at h
    rcases List.mem_cons.1 hv with rfl | hv
    · exact h.1
    · exact valOKList_mem rest h.2 v hv

theorem lookup_valOK (fs : List (Bytes × Value)) (h : ValOKKvs fs) (k : Bytes) (v : Value)
    (hl : Value.lookup fs k = some v) : ValOK v := by
  have := Escape.lookup_mem fs k v (by simpa [Value.lookup] using hl)
  exact valOKKvs_mem fs h _ this

/-- schema well-formedness the round trip needs -/
structure SchemaOK (env : Env) : Prop where
  enumNodup : ∀ n syms, env.find n = some (.enum syms) → syms.Nodup
  fieldsNodup : ∀ n incs own, env.find n = some (.record incs own) →
    ((allFields env (includeFuel env) n).map (·.name)).Nodup
  membersNodup : ∀ n hn ms, env.find n = some (.union hn ms) → (ms.map (·.1)).Nodup

/-! ### the induction -/

/-- what the round trip needs of a format: keys and leaves read back -/
structure TreeLaws (E : TreeEnc) : Prop where
  key_rt : ∀ k, E.sem.key (E.key k) = some k
  leaf_ne_null : ∀ d, E.leaf d ≠ .null
  prim_rt : ∀ p v doc, ValOK v → encPrim p v = .ok doc → E.sem.prim p (E.leaf doc) = .ok (normPrim p v) []
  str_rt : ∀ s, E.sem.str (E.leaf (.str s)) = .ok s []

/-- everything the round trip is relative to -/
structure RTCtx where
  env : Env
  enc : TreeEnc
  L : TreeLaws enc
  S : SchemaOK env

/-- the writer: no exclusion spec, v2 key sorting -/
def RTCtx.cfg (X : RTCtx) : EncCfg := { env := X.env, excl := .empty, sortKeys := true }
/-- the matching reader -/
def RTCtx.tc (X : RTCtx) (ign : Nat) : TCfg :=
  { env := X.env, tracker := { excl := .empty, ignore := ign }, sem := X.enc.sem }

theorem matchesB_empty (path : List Bytes) : PathSpec.empty.matchesB path = false := by
  have : gmatches (PathSpec.node []) path = .no := by
    cases path with
    | nil => simp [gmatches]
    | cons a as => cases as <;> simp [gmatches]
  simp [PathSpec.matchesB, PathSpec.empty, this]

theorem encPrim_leaf (E : TreeEnc) (p : Prim) (v : Value) (doc : Doc) (h : encPrim p v = .ok doc) :
    treeOf E doc = E.leaf doc := by
  cases p <;> cases v <;> simp only [encPrim, Except.ok.injEq, reduceCtorEq] at h <;> subst h <;> simp [treeOf]

/-- primitives -/
theorem prim_roundtrip (X : RTCtx) (p : Prim) (v : Value) (doc : Doc) (hv : ValOK v)
    (h : encPrim p v = .ok doc) :
    X.enc.sem.prim p (treeOf X.enc doc) = .ok (normPrim p v) [] := by
  rw [encPrim_leaf X.enc p v doc h]
  exact X.L.prim_rt p v doc hv h

/-! keyed containers (records, unions, maps) -/

theorem find_of_nodup {α : Type} (items : List (Bytes × α)) (hnd : (items.map (·.1)).Nodup) (it : Bytes × α)
    (hit : it ∈ items) : items.find? (fun x => x.1 == it.1) = some it := by
  induction items with
  | nil => cases hit
  | cons x xs ih =>
    simp only [List.map_cons, List.nodup_cons] at hnd
    rcases List.mem_cons.1 hit with rfl | hit'
    · simp [List.find?]
    · have hne : (x.1 == it.1) = false := by
        apply beq_eq_false_iff_ne.mpr
        intro heq
        exact hnd.1 (by rw [heq]; exact List.mem_map_of_mem hit')
      simp only [List.find?, hne]
      exact ih hnd.2 hit'

/-- the (normalised) value of the entry with key `k` -/
def valFor (g : Bytes × Ty × Value → Value) (items : List (Bytes × Ty × Value)) (k : Bytes) : Value :=
  match items.find? (fun it => it.1 == k) with
  | some it => g it
  | none => .arr []

theorem valFor_mem (g : Bytes × Ty × Value → Value) (items : List (Bytes × Ty × Value))
    (hnd : (items.map (·.1)).Nodup) (it : Bytes × Ty × Value) (hit : it ∈ items) :
    valFor g items it.1 = g it := by
  unfold valFor
  rw [find_of_nodup items hnd it hit]

/-- reading back the sorted entries of a keyed container, given that each entry's callback
succeeds with the entry's normalised value -/
theorem keyed_roundtrip (E : TreeEnc) (hnn : ∀ d, E.leaf d ≠ .null) (tc : TCfg)
    (hkey : ∀ k, tc.sem.key (E.key k) = some k) (htr : ∀ sc, tc.tracker.check sc = .no)
    (scopeR : List Seg) (mode : MapMode) (items : List (Bytes × Ty × Value))
    (docOf : Bytes × Ty × Value → Doc) (g : Bytes × Ty × Value → Value)
    (hnd : (items.map (·.1)).Nodup)
    (hread : ∀ it ∈ items, ∀ acc seen,
      treeCallbackWith (fun ty => treeRead tc false (scopeR ++ [Seg.key it.1]) ty (treeOf E (docOf it)))
        mode acc seen it.1 = .ok (setEntry acc it.1 (g it)) []) :
    treeReadEntries tc scopeR mode [] [] (treeOfKvs E (sortByKey (items.map (fun it => (it.1, docOf it))))) =
      .ok (sortByKey (items.map (fun it => (it.1, g it))),
           (sortByKey (items.map (fun it => (it.1, docOf it)))).map (·.1)) [] := by
  let kvs := items.map (fun it => (it.1, docOf it))
  let ts : List (Bytes × Doc × Value) := (sortByKey kvs).map (fun e => (e.1, e.2, valFor g items e.1))
  have hts1 : ts.map (fun t => (t.1, t.2.1)) = sortByKey kvs := by
    simp [ts, List.map_map, Function.comp_def]
  have hkeys : ts.map (·.1) = (sortByKey kvs).map (·.1) := by
    simp [ts, List.map_map, Function.comp_def]
  have hkvsnd : KeysNodup kvs := by
    unfold KeysNodup
    simpa [kvs, List.map_map, Function.comp_def] using hnd
  have hnd' : (ts.map (·.1)).Nodup := by
    rw [hkeys]; exact keysNodup_sortByKey kvs hkvsnd
  have hgood : ∀ t ∈ ts, ∀ acc seen,
      treeCallbackWith (fun ty => treeRead tc false (scopeR ++ [Seg.key t.1]) ty (treeOf E t.2.1))
        mode acc seen t.1 = .ok (setEntry acc t.1 t.2.2) [] := by
    intro t ht acc seen
    simp only [ts, List.mem_map] at ht
    obtain ⟨e, he, rfl⟩ := ht
    have he' : e ∈ kvs := (mem_sortByKey kvs e).1 he
    simp only [kvs, List.mem_map] at he'
    obtain ⟨it, hit, rfl⟩ := he'
    simp only
    rw [valFor_mem g items hnd it hit]
    exact hread it hit acc seen
  have := readEntries_all E hnn tc hkey htr scopeR mode ts hgood hnd' [] [] (by simp)
  rw [hts1] at this
  rw [this]
  simp only [List.nil_append, hkeys]
  congr 1
  congr 1
  -- the values, in sorted key order
  have h1 : ts.map (fun t => (t.1, t.2.2)) = (sortByKey kvs).map (fun e => (e.1, valFor g items e.1)) := by
    simp [ts, List.map_map, Function.comp_def]
  rw [h1, ← sortByKey_mapVal (valFor g items) kvs]
  congr 1
  simp only [kvs, List.map_map, Function.comp_def]
  apply List.map_congr_left
  intro it hit
  simp [valFor_mem g items hnd it hit]



theorem idxOf?_of_nodup (l : List Bytes) (hnd : l.Nodup) (i : Nat) (s : Bytes) (h : l[i]? = some s) :
    l.idxOf? s = some i := by
  induction l generalizing i with
  | nil => simp at h
  | cons x xs ih =>
    simp only [List.nodup_cons] at hnd
    cases i with
    | zero => simp at h; subst h; simp [List.idxOf?, List.findIdx?_cons]
    | succ j =>
      simp only [List.getElem?_cons_succ] at h
      have hne : (x == s) = false := by
        apply beq_eq_false_iff_ne.mpr
        intro heq; subst heq
        exact hnd.1 (List.mem_of_getElem? h)
      have := ih hnd.2 j h
      simp only [List.idxOf?] at this ⊢
      simp [List.findIdx?_cons, hne, this]


theorem setFields_spec : ∀ (fields : List Field) (fs : List (Bytes × Value)) (triples : List (Bytes × Ty × Value)),
    setFields fields fs = some triples →
    (triples.map (·.1)).Sublist (fields.map (·.name)) ∧
    (∀ t ∈ triples, ∃ fld ∈ fields, fld.name = t.1 ∧ fld.ty = t.2.1 ∧ Value.lookup fs t.1 = some t.2.2) ∧
    (∀ fld ∈ fields, fld.optOrDefault = false → fld.name ∈ triples.map (·.1))
  | [], fs, triples, h => by
    simp [setFields] at h; subst h; simp
  | fld :: rest, fs, triples, h => by
    simp only [setFields] at h
    cases hl : Value.lookup fs fld.name with
    | none =>
      simp only [hl] at h
      cases ho : fld.optOrDefault with
      | false => simp [ho] at h
      | true =>
        simp only [ho, ↓reduceIte] at h
        obtain ⟨h1, h2, h3⟩ := setFields_spec rest fs triples h
        refine ⟨?_, ?_, ?_⟩
        · simpa using h1.cons fld.name
        · intro t ht
          obtain ⟨g, hg, hh⟩ := h2 t ht
          exact ⟨g, by simp [hg], hh⟩
        · intro g hg hopt
          rcases List.mem_cons.1 hg with rfl | hg
          · simp [ho] at hopt
          · exact h3 g hg hopt
    | some v =>
      simp only [hl, Option.map_eq_some_iff] at h
      obtain ⟨tr, htr, rfl⟩ := h
      obtain ⟨h1, h2, h3⟩ := setFields_spec rest fs tr htr
      refine ⟨?_, ?_, ?_⟩
      · simpa using h1.cons_cons fld.name
      · intro t ht
        rcases List.mem_cons.1 ht with rfl | ht
        · exact ⟨fld, by simp, rfl, rfl, hl⟩
        · obtain ⟨g, hg, hh⟩ := h2 t ht
          exact ⟨g, by simp [hg], hh⟩
      · intro g hg hopt
        rcases List.mem_cons.1 hg with rfl | hg
        · simp
        · simp only [List.map_cons, List.mem_cons]
          exact Or.inr (h3 g hg hopt)

theorem findField_of_nodup (fields : List Field) (hnd : (fields.map (·.name)).Nodup) (fld : Field)
    (h : fld ∈ fields) : findField fields fld.name = some fld := by
  unfold findField
  induction fields with
  | nil => cases h
  | cons x xs ih =>
    simp only [List.map_cons, List.nodup_cons] at hnd
    rcases List.mem_cons.1 h with rfl | h'
    · simp [List.find?]
    · have hne : (x.name == fld.name) = false := by
        apply beq_eq_false_iff_ne.mpr
        intro heq
        exact hnd.1 (by rw [heq]; exact List.mem_map_of_mem h')
      simp only [List.find?, hne]
      exact ih hnd.2 h'

theorem fillRequired_id (env : Env) (fields : List Field) (acc : List (Bytes × Value))
    (h : ∀ fld ∈ fields, fld.optOrDefault = false → acc.any (·.1 == fld.name) = true) :
    fillRequired env fields acc = acc := by
  unfold fillRequired
  induction fields with
  | nil => rfl
  | cons x xs ih =>
    simp only [List.foldl_cons]
    have : (x.optOrDefault || acc.any (·.1 == x.name)) = true := by
      cases ho : x.optOrDefault with
      | true => simp
      | false => simp [h x (by simp) ho]
    simp only [this, ↓reduceIte]
    exact ih (fun fld hf => h fld (by simp [hf]))

theorem remainingRequired_nil (fields : List Field) (seen : List Bytes)
    (h : ∀ fld ∈ fields, fld.optOrDefault = false → fld.name ∈ seen) :
    remainingRequired fields seen = [] := by
  unfold remainingRequired
  simp only [List.filter_eq_nil_iff, List.mem_map, List.mem_filter]
  rintro r ⟨fld, ⟨hf, ho⟩, rfl⟩
  have := h fld hf (by simpa using ho)
  simp [this]

theorem lookup_of_nodup {β : Type} (l : List (Bytes × β)) (hnd : (l.map (·.1)).Nodup) (e : Bytes × β) (he : e ∈ l) :
    l.lookup e.1 = some e.2 := by
  induction l with
  | nil => cases he
  | cons x xs ih =>
    simp only [List.map_cons, List.nodup_cons] at hnd
    rcases List.mem_cons.1 he with rfl | he'
    · simp [List.lookup]
    · have hne : (e.1 == x.1) = false := by
        apply beq_eq_false_iff_ne.mpr
        intro heq
        exact hnd.1 (by rw [← heq]; exact List.mem_map_of_mem he')
      obtain ⟨a, b⟩ := x
      simp only [List.lookup, hne]
      exact ih hnd.2 he'

theorem setMembers_length (members : List (Bytes × Ty)) (ms : List (Bytes × Value)) :
    (setMembers members ms).length = countSet ms members := by
  unfold setMembers countSet
  induction members with
  | nil => rfl
  | cons m rest ih =>
    simp only [List.filterMap_cons, List.filter_cons]
    cases hl : Value.lookup ms m.1 <;> simp [ih]

theorem setMembers_mem (members : List (Bytes × Ty)) (ms : List (Bytes × Value)) (t : Bytes × Ty × Value)
    (h : t ∈ setMembers members ms) : (t.1, t.2.1) ∈ members ∧ Value.lookup ms t.1 = some t.2.2 := by
  unfold setMembers at h
  simp only [List.mem_filterMap, Option.map_eq_some_iff] at h
  obtain ⟨m, hm, v, hv, rfl⟩ := h
  exact ⟨hm, hv⟩


theorem RTCtx.htr (X : RTCtx) (ign : Nat) (sc : List Seg) : (X.tc ign).tracker.check sc = .no :=
  tracker_check_empty ign sc

theorem RTCtx.hkey (X : RTCtx) (ign : Nat) (k : Bytes) : (X.tc ign).sem.key (X.enc.key k) = some k :=
  X.L.key_rt k

theorem excl_false (X : RTCtx) (scope : List Bytes) :
    (fun k => X.cfg.excl.matchesB (scope ++ [k])) = (fun _ => false) := by
  funext k; exact matchesB_empty _

theorem enc_noexcl_keyed (X : RTCtx) (f : Nat) (scope : List Bytes) (t : Ty) :
    (fun k v => if X.cfg.excl.matchesB (scope ++ [k]) = true then encodeNoop X.cfg.env t v
      else encode X.cfg f (scope ++ [k]) t v) = (fun k v => encode X.cfg f (scope ++ [k]) t v) := by
  funext k v
  have : X.cfg.excl.matchesB (scope ++ [k]) = false := matchesB_empty _
  simp [this]

theorem enc_noexcl_typed (X : RTCtx) (f : Nat) (scope : List Bytes) :
    (fun k t v => if X.cfg.excl.matchesB (scope ++ [k]) = true then encodeNoop X.env t v
      else encode X.cfg f (scope ++ [k]) t v) = (fun k t v => encode X.cfg f (scope ++ [k]) t v) := by
  funext k t v
  have : X.cfg.excl.matchesB (scope ++ [k]) = false := matchesB_empty _
  simp [this]

theorem roundtrip_tree (X : RTCtx) (ign : Nat) : ∀ (f : Nat) (scopeW : List Bytes) (scopeR : List Seg)
    (top : Bool) (ty : Ty) (v : Value) (doc : Doc), ValOK v →
    encode X.cfg f scopeW ty v = .ok doc →
    treeRead (X.tc ign) top scopeR ty (treeOf X.enc doc) = .ok (norm X.env f ty v) []
  | 0, _, _, _, _, _, _, _, h => by simp [encode] at h
  | f + 1, scopeW, scopeR, top, ty, v, doc, hv, h => by
    have ih := roundtrip_tree X ign f
    cases ty with
    | prim p =>
      simp only [encode] at h
      simp only [treeRead, norm]
      exact prim_roundtrip X p v doc hv h
    | arr t =>
      cases v <;> simp only [encode, reduceCtorEq] at h
      rename_i vs
      cases hl : encodeList (encode X.cfg f (scopeW ++ [Gen.wildCard]) t) vs with
      | error e => simp [hl, bind, Except.bind] at h
      | ok ds =>
        simp only [hl, bind, Except.bind, pure, Except.pure, Except.ok.injEq] at h
        subst h
        obtain ⟨hds, hall⟩ := encodeList_all _ vs ds hl
        simp only [treeOf, treeRead, norm]
        have hvs := valOKList_mem vs (by simpa [ValOK] using hv)
        let ts : List (Doc × Value) := vs.map (fun v => (okDoc (encode X.cfg f (scopeW ++ [Gen.wildCard]) t v), norm X.env f t v))
        have h1 : ts.map (·.1) = ds := by rw [hds]; simp [ts, List.map_map, Function.comp_def]
        have h2 : ts.map (·.2) = vs.map (norm X.env f t) := by simp [ts, List.map_map, Function.comp_def]
        have := readItems_all X.enc (X.tc ign) scopeR t ts 0 (by
          intro t' ht' i
          simp only [ts, List.mem_map] at ht'
          obtain ⟨v', hv', rfl⟩ := ht'
          exact ih _ _ false t v' _ (hvs v' hv') (hall v' hv'))
        rw [h1] at this
        rw [this, h2]
        simp [bindT]
    | map t =>
      cases v <;> simp only [encode, reduceCtorEq] at h
      rename_i es
      rw [excl_false X scopeW, enc_noexcl_keyed X f scopeW t] at h
      cases hl : encodeKeyed (fun _ => false) (fun k v => encode X.cfg f (scopeW ++ [k]) t v) es with
      | error e => simp [hl, bind, Except.bind] at h
      | ok kvs =>
        simp only [hl, bind, Except.bind, pure, Except.pure, Except.ok.injEq] at h
        subst h
        obtain ⟨hkvs, hall⟩ := encodeKeyed_all _ es kvs hl
        simp only [ValOK] at hv
        have hvs := valOKKvs_mem es hv.2
        simp only [EncCfg.finish, RTCtx.cfg, ↓reduceIte, treeOf, treeRead, norm]
        let items : List (Bytes × Ty × Value) := es.map (fun e => (e.1, t, e.2))
        have hnd : (items.map (·.1)).Nodup := by
          have := hv.1; unfold KeysNodup at this
          simpa [items, List.map_map, Function.comp_def] using this
        have := keyed_roundtrip X.enc X.L.leaf_ne_null (X.tc ign) (X.hkey ign) (X.htr ign) scopeR (.mapOf t) items
          (fun it => okDoc (encode X.cfg f (scopeW ++ [it.1]) it.2.1 it.2.2))
          (fun it => norm X.env f it.2.1 it.2.2) hnd (by
            intro it hit acc seen
            simp only [items, List.mem_map] at hit
            obtain ⟨e, he, rfl⟩ := hit
            simp only [treeCallbackWith]
            rw [ih _ _ false t e.2 _ (hvs e he) (hall e he)]
            simp [bindT])
        have hk : items.map (fun it => (it.1, okDoc (encode X.cfg f (scopeW ++ [it.1]) it.2.1 it.2.2))) = kvs := by
          rw [hkvs]; simp [items, List.map_map, Function.comp_def, RTCtx.cfg]
        rw [hk] at this
        rw [this]
        simp [bindT, items, List.map_map, Function.comp_def]
    | ref n =>
      have henv : X.cfg.env = X.env := rfl
      have htenv : (X.tc ign).env = X.env := rfl
      simp only [encode, henv] at h
      simp only [treeRead, norm, htenv]
      cases hfind : X.env.find n with
      | none => simp [hfind] at h
      | some decl =>
        simp only [hfind] at h ⊢
        cases decl with
        | typeref p => exact prim_roundtrip X p v doc hv h
        | enum syms =>
          cases v <;> simp only [reduceCtorEq] at h
          rename_i k
          split at h
          · next hk =>
            generalize hs : syms[(k - 1).toNat]? = o at h
            cases o with
            | none => simp at h
            | some s =>
              simp only [Except.ok.injEq] at h
              subst h
              have hstr : (X.tc ign).sem.str (treeOf X.enc (.str s)) = .ok s [] := by
                simpa [RTCtx.tc, treeOf] using X.L.str_rt s
              simp only [hstr, bindT]
              rw [idxOf?_of_nodup syms (X.S.enumNodup n syms hfind) _ s hs]
              dsimp only
              congr 2
              omega
          · simp at h
        | fixed size =>
          cases v <;> simp only [reduceCtorEq] at h
          rename_i b
          split at h
          · next hlen =>
            simp only [Except.ok.injEq] at h
            subst h
            have hb : (X.tc ign).sem.prim .bytes (treeOf X.enc (.bytes b)) = .ok (.bytes b) [] := by
              have := X.L.prim_rt .bytes (.bytes b) (.bytes b) (by simp [ValOK]) rfl
              simpa [RTCtx.tc, treeOf, normPrim] using this
            simp only [hb, bindT, hlen, ↓reduceIte]
          · simp at h
        | record incs own =>
          cases v <;> simp only [reduceCtorEq] at h
          rename_i fs
          generalize hfields : allFields X.env (includeFuel X.env) n = fields at h ⊢
          cases hsf : setFields fields fs with
          | none => simp [hsf] at h
          | some triples =>
            simp only [hsf] at h ⊢
            rw [excl_false X scopeW, enc_noexcl_typed X f scopeW] at h
            cases hl : encodeTyped (fun _ => false) (fun k t v => encode X.cfg f (scopeW ++ [k]) t v) triples with
            | error e => simp [hl, bind, Except.bind] at h
            | ok kvs =>
              simp only [hl, bind, Except.bind, pure, Except.pure, Except.ok.injEq] at h
              subst h
              obtain ⟨hkvs, hall⟩ := encodeTyped_all _ triples kvs hl
              obtain ⟨hsub, hmem, hreq⟩ := setFields_spec fields fs triples hsf
              have hfnd : (fields.map (·.name)).Nodup := by
                rw [← hfields]; exact X.S.fieldsNodup n incs own hfind
              have hnd : (triples.map (·.1)).Nodup := hsub.nodup hfnd
              simp only [ValOK] at hv
              simp only [EncCfg.finish, RTCtx.cfg, ↓reduceIte, treeOf]
              have := keyed_roundtrip X.enc X.L.leaf_ne_null (X.tc ign) (X.hkey ign) (X.htr ign) scopeR (.record fields) triples
                (fun it => okDoc (encode X.cfg f (scopeW ++ [it.1]) it.2.1 it.2.2))
                (fun it => norm X.env f it.2.1 it.2.2) hnd (by
                  intro it hit acc seen
                  obtain ⟨fld, hfld, hname, hty, hlk⟩ := hmem it hit
                  simp only [treeCallbackWith]
                  rw [← hname, findField_of_nodup fields hfnd fld hfld]
                  simp only [hty, hname]
                  rw [ih _ _ false it.2.1 it.2.2 _ (lookup_valOK fs hv _ _ hlk) (hall it hit)]
                  simp [bindT])
              have hk : triples.map (fun it => (it.1, okDoc (encode X.cfg f (scopeW ++ [it.1]) it.2.1 it.2.2))) = kvs := by
                rw [hkvs]
              rw [hk] at this
              simp only [this, bindT]
              -- the epilogue: nothing is missing, nothing to fill
              have hseen : ∀ fld ∈ fields, fld.optOrDefault = false → fld.name ∈ (sortByKey kvs).map (·.1) := by
                intro fld hf ho
                have h1 := hreq fld hf ho
                have h2 := ((keys_sortByKey_perm kvs).map (·.1)).mem_iff (a := fld.name)
                rw [h2, hkvs]
                simpa [List.map_map, Function.comp_def] using h1
              have hrem := remainingRequired_nil fields _ hseen
              have hfill : fillRequired X.env fields
                  (sortByKey (triples.map (fun it => (it.1, norm X.env f it.2.1 it.2.2)))) =
                  sortByKey (triples.map (fun it => (it.1, norm X.env f it.2.1 it.2.2))) := by
                apply fillRequired_id
                intro fld hf ho
                have h1 := hreq fld hf ho
                simp only [List.mem_map] at h1
                obtain ⟨t, ht, hteq⟩ := h1
                simp only [List.any_eq_true, beq_iff_eq]
                refine ⟨(t.1, norm X.env f t.2.1 t.2.2), ?_, hteq⟩
                rw [mem_sortByKey]
                exact List.mem_map.2 ⟨t, ht, rfl⟩
              simp only [finishRecord, finishPanics, missingAfter, hrem, hfill]
              simp
        | union hasNull members =>
          cases v <;> simp only [reduceCtorEq] at h
          rename_i ms
          split at h
          · simp at h
          · next hle =>
            split at h
            · simp at h
            · next hzero =>
              rw [excl_false X scopeW, enc_noexcl_typed X f scopeW] at h
              cases hl : encodeTyped (fun _ => false) (fun k t v => encode X.cfg f (scopeW ++ [k]) t v)
                  (setMembers members ms) with
              | error e => simp [hl, bind, Except.bind] at h
              | ok kvs =>
                simp only [hl, bind, Except.bind, pure, Except.pure, Except.ok.injEq] at h
                subst h
                obtain ⟨hkvs, hall⟩ := encodeTyped_all _ _ kvs hl
                have hlen := setMembers_length members ms
                simp only [ValOK] at hv
                simp only [EncCfg.finish, RTCtx.cfg, ↓reduceIte, treeOf]
                cases hsm : setMembers members ms with
                | nil =>
                  rw [hsm] at hkvs hlen
                  simp only [List.map_nil] at hkvs
                  subst hkvs
                  have hn : hasNull = true := by
                    have : countSet ms members = 0 := by simpa using hlen.symm
                    simpa [this] using hzero
                  simp [sortByKey, treeOfKvs, treeReadEntries, bindT, hn]
                | cons t rest =>
                  rw [hsm] at hkvs hlen hall
                  have hrest : rest = [] := by
                    cases rest with
                    | nil => rfl
                    | cons _ _ => simp only [List.length_cons] at hlen; omega
                  subst hrest
                  simp only [List.map_cons, List.map_nil] at hkvs
                  subst hkvs
                  obtain ⟨hm, hlk⟩ := setMembers_mem members ms t (by rw [hsm]; simp)
                  have hlook : members.lookup t.1 = some t.2.1 :=
                    lookup_of_nodup members (X.S.membersNodup n hasNull members hfind) (t.1, t.2.1) hm
                  simp only [sortByKey, insertByKey, treeOfKvs]
                  rw [treeReadEntries_cons _ _ _ _ _ _ _ _ (treeOf_ne_null X.enc X.L.leaf_ne_null _), X.hkey ign]
                  simp only [X.htr ign, treeCallbackWith, List.isEmpty_nil, Bool.not_true, Bool.false_eq_true,
                    ↓reduceIte, hlook]
                  rw [ih _ _ false t.2.1 t.2.2 _ (lookup_valOK ms hv _ _ hlk) (hall t (by simp))]
                  simp [bindT, treeReadEntries, setEntry, sortByKey, insertByKey]
end Restli.Codec
