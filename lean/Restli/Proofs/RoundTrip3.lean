import Restli.Proofs.RoundTrip2
/-! Byte level: the cursor reader applied to what the ROR2 writer emitted for a value returns the
(normalised) value — composition of the typed tree round trip, the cursor/tree bridge and the
fact that the writer's output is the rendering of a well-formed raw-token tree. -/
namespace Restli.Codec
open Json (JVal)

/-! ### `ValidateRor2Input` accepts every rendering -/

theorem go_clean (n : Nat) (t rest : Bytes) (h : ∀ c ∈ t, c ≠ 40 ∧ c ≠ 41) :
    validateRor2.go n (t ++ rest) = validateRor2.go n rest := by
  induction t with
  | nil => rfl
  | cons c cs ih =>
    have hc := h c (by simp)
    have h40 : (c == 40) = false := beq_eq_false_iff_ne.mpr hc.1
    have h41 : (c == 41) = false := beq_eq_false_iff_ne.mpr hc.2
    simp only [List.cons_append, validateRor2.go, h40, h41, Bool.false_eq_true, ↓reduceIte]
    exact ih (fun c hc => h c (by simp [hc]))

theorem go_open (n : Nat) (r : Bytes) : validateRor2.go n (40 :: r) = validateRor2.go (n + 1) r := by
  simp [validateRor2.go]
theorem go_close (n : Nat) (r : Bytes) : validateRor2.go (n + 1) (41 :: r) = validateRor2.go n r := by
  simp [validateRor2.go]
theorem go_other (n : Nat) (c : UInt8) (r : Bytes) (h1 : c ≠ 40) (h2 : c ≠ 41) :
    validateRor2.go n (c :: r) = validateRor2.go n r := by
  have h40 : (c == 40) = false := beq_eq_false_iff_ne.mpr h1
  have h41 : (c == 41) = false := beq_eq_false_iff_ne.mpr h2
  simp [validateRor2.go, h40, h41]

mutual
theorem go_raw : (t : JVal) → RawWF t → ∀ n rest, validateRor2.go n (renderRaw t ++ rest) = validateRor2.go n rest
  | .str tok, h, n, rest => by
    simp only [RawWF, tokClean] at h
    simp only [renderRaw]
    exact go_clean n tok rest (fun c hc => ⟨(h.2 c hc).1, (h.2 c hc).2.1⟩)
  | .obj kvs, h, n, rest => by
    simp only [RawWF] at h
    simp only [renderRaw, List.cons_append, List.append_assoc, List.nil_append]
    rw [go_open, go_rawKvs kvs h (n + 1) (41 :: rest), go_close]
  | .arr xs, h, n, rest => by
    simp only [RawWF] at h
    simp only [renderRaw, listPrefix_eq, List.cons_append, List.append_assoc, List.nil_append]
    rw [go_other _ 76 _ (by decide) (by decide), go_other _ 105 _ (by decide) (by decide),
      go_other _ 115 _ (by decide) (by decide), go_other _ 116 _ (by decide) (by decide), go_open,
      go_rawItems xs h (n + 1) (41 :: rest), go_close]
  | .null, h, _, _ => by simp [RawWF] at h
  | .bool _, h, _, _ => by simp [RawWF] at h
  | .num _, h, _, _ => by simp [RawWF] at h
theorem go_rawKvs : (kvs : List (Bytes × JVal)) → RawWFKvs kvs → ∀ n rest,
    validateRor2.go n (renderRawKvs kvs ++ rest) = validateRor2.go n rest
  | [], _, n, rest => by simp [renderRawKvs]
  | [(k, v)], h, n, rest => by
    simp only [RawWFKvs, keyClean] at h
    simp only [renderRawKvs, List.append_assoc, List.cons_append]
    rw [go_clean n k _ (fun c hc => ⟨(h.1.2 c hc).1, (h.1.2 c hc).2.1⟩), go_other _ 58 _ (by decide) (by decide)]
    exact go_raw v h.2.1 n rest
  | (k, v) :: kv2 :: more, h, n, rest => by
    simp only [RawWFKvs, keyClean] at h
    simp only [renderRawKvs, List.append_assoc, List.cons_append]
    rw [go_clean n k _ (fun c hc => ⟨(h.1.2 c hc).1, (h.1.2 c hc).2.1⟩), go_other _ 58 _ (by decide) (by decide),
      go_raw v h.2.1 n _, go_other _ 44 _ (by decide) (by decide)]
    exact go_rawKvs (kv2 :: more) (by simpa [RawWFKvs, keyClean] using h.2.2) n rest
theorem go_rawItems : (xs : List JVal) → RawWFItems xs → ∀ n rest,
    validateRor2.go n (renderRawItems xs ++ rest) = validateRor2.go n rest
  | [], _, n, rest => by simp [renderRawItems]
  | [v], h, n, rest => by
    simp only [RawWFItems] at h
    simp only [renderRawItems]
    exact go_raw v h.1 n rest
  | v :: v2 :: more, h, n, rest => by
    simp only [RawWFItems] at h
    simp only [renderRawItems, List.append_assoc, List.cons_append]
    rw [go_raw v h.1 n _, go_other _ 44 _ (by decide) (by decide)]
    exact go_rawItems (v2 :: more) (by simpa [RawWFItems] using h.2) n rest
end

theorem validate_raw (t : JVal) (h : RawWF t) : validateRor2 (renderRaw t) = true := by
  unfold validateRor2
  have := go_raw t h 0 []
  simp only [List.append_nil] at this
  rw [this]; simp [validateRor2.go]

/-! ### the reader's fuel suffices for every rendering -/

mutual
theorem needT_le : (t : JVal) → RawWF t → needT t ≤ 3 * (renderRaw t).length
  | .str tok, h => by
    simp only [RawWF, tokClean] at h
    have : 1 ≤ tok.length := by
      cases tok with
      | nil => exact absurd rfl h.1
      | cons _ _ => simp
    simp only [needT, renderRaw]; omega
  | .obj kvs, h => by
    simp only [RawWF] at h
    have := needKvs_le kvs h
    simp only [needT, renderRaw, List.length_cons, List.length_append, List.length_nil]; omega
  | .arr xs, h => by
    simp only [RawWF] at h
    have := needItems_le xs h
    simp only [needT, renderRaw, listPrefix_eq, List.length_cons, List.length_append, List.length_nil]; omega
  | .null, h => by simp [RawWF] at h
  | .bool _, h => by simp [RawWF] at h
  | .num _, h => by simp [RawWF] at h
theorem needKvs_le : (kvs : List (Bytes × JVal)) → RawWFKvs kvs → needKvs kvs ≤ 3 * (renderRawKvs kvs).length + 1
  | [], _ => by simp [needKvs, renderRawKvs]
  | [(k, v)], h => by
    simp only [RawWFKvs] at h
    have := needT_le v h.2.1
    simp only [needKvs, renderRawKvs, List.length_cons, List.length_append]; omega
  | (k, v) :: kv2 :: more, h => by
    simp only [RawWFKvs] at h
    have h1 := needT_le v h.2.1
    have h2 := needKvs_le (kv2 :: more) (by simpa [RawWFKvs] using h.2.2)
    simp only [needKvs, renderRawKvs, List.length_cons, List.length_append] at h2 ⊢; omega
theorem needItems_le : (xs : List JVal) → RawWFItems xs → needItems xs ≤ 3 * (renderRawItems xs).length + 4
  | [], _ => by simp [needItems, renderRawItems]
  | [v], h => by
    simp only [RawWFItems] at h
    have := needT_le v h.1
    simp only [needItems, renderRawItems]; omega
  | v :: v2 :: more, h => by
    simp only [RawWFItems] at h
    have h1 := needT_le v h.1
    have h2 := needItems_le (v2 :: more) (by simpa [RawWFItems] using h.2)
    simp only [needItems, renderRawItems, List.length_cons, List.length_append] at h2 ⊢; omega
end

/-! ### the ROR2 instance of the generic tree round trip -/

def rawLeaf (esc : Bytes → Bytes) : Doc → JVal
  | .int v => .str (Strconv.formatInt v)
  | .f64 b => .str (ror2Float esc b)
  | .bool b => .str (if b then trueB else falseB)
  | .str b => .str (ror2Str esc b)
  | .bytes b => .str (ror2Str esc b)
  | _ => .str []

/-- ROR2: every leaf is a raw token, keys are escaped like strings -/
def rawEnc (esc : Bytes → Bytes) (plus : Bool) : TreeEnc :=
  { sem := ror2Sem plus, key := ror2Str esc, leaf := rawLeaf esc }

mutual
theorem rawOf_eq_treeOf (esc : Bytes → Bytes) (plus : Bool) : (d : Doc) → rawOf esc d = treeOf (rawEnc esc plus) d
  | .int _ => by simp [rawOf, treeOf, rawEnc, rawLeaf]
  | .f64 _ => by simp [rawOf, treeOf, rawEnc, rawLeaf]
  | .bool _ => by simp [rawOf, treeOf, rawEnc, rawLeaf]
  | .str _ => by simp [rawOf, treeOf, rawEnc, rawLeaf]
  | .bytes _ => by simp [rawOf, treeOf, rawEnc, rawLeaf]
  | .obj kvs => by simp [rawOf, treeOf, rawOfKvs_eq esc plus kvs]
  | .arr xs => by simp [rawOf, treeOf, rawOfItems_eq esc plus xs]
theorem rawOfKvs_eq (esc : Bytes → Bytes) (plus : Bool) : (kvs : List (Bytes × Doc)) →
    rawOfKvs esc kvs = treeOfKvs (rawEnc esc plus) kvs
  | [] => by simp [rawOfKvs, treeOfKvs]
  | (k, v) :: rest => by
    simp only [rawOfKvs, treeOfKvs, rawOf_eq_treeOf esc plus v, rawOfKvs_eq esc plus rest]
    simp [rawEnc]
theorem rawOfItems_eq (esc : Bytes → Bytes) (plus : Bool) : (xs : List Doc) →
    rawOfItems esc xs = treeOfItems (rawEnc esc plus) xs
  | [] => by simp [rawOfItems, treeOfItems]
  | v :: rest => by simp [rawOfItems, treeOfItems, rawOf_eq_treeOf esc plus v, rawOfItems_eq esc plus rest]
end

theorem rawLaws (esc : Bytes → Bytes) (plus : Bool) (E : EscLaws esc plus) (F : FloatLaws) :
    TreeLaws (rawEnc esc plus) where
  key_rt := fun k => decodeKey_ror2Str esc plus E k
  leaf_ne_null := by intro d; cases d <;> simp [rawEnc, rawLeaf]
  prim_rt := by
    intro p v doc hv h
    cases p <;> cases v <;> simp only [encPrim, Except.ok.injEq, reduceCtorEq] at h <;> subst h <;>
      simp only [rawEnc, rawLeaf, ror2Sem, normPrim, liftTok]
    · simp only [ValOK] at hv; rw [tokPrim_i32 plus _ hv.1 hv.2]
    · simp only [ValOK] at hv; rw [tokPrim_i64 plus _ hv.1 hv.2]
    · simp only [ValOK] at hv; rw [tokPrim_f32 esc plus E F _ hv]
    · simp only [ValOK] at hv; rw [tokPrim_f64 esc plus E F _ hv]
    · rw [tokPrim_bool]
    · rw [tokPrim_str esc plus E]
    · rw [tokPrim_bytes esc plus E]
  str_rt := by
    intro s
    simp [rawEnc, rawLeaf, ror2Sem, tokString_ror2Str esc plus E s]

/-- the round-trip context of a ROR2 flavour -/
def ror2Ctx (env : Env) (esc : Bytes → Bytes) (plus : Bool) (E : EscLaws esc plus) (F : FloatLaws)
    (S : SchemaOK env) : RTCtx :=
  { env := env, enc := rawEnc esc plus, L := rawLaws esc plus E F, S := S }

/-! ### composition -/

/-- the cursor reader that matches the writer configuration -/
def ror2Rc (env : Env) (plus : Bool) (ign : Nat) : RCfg :=
  { env := env, tracker := { excl := .empty, ignore := ign }, plus := plus, query := false }

/-- **ROR2 round trip at byte level** for every value whose encoding is an object (records, maps,
unions — at any nesting depth inside): `Unmarshal(Marshal(v)) = norm v`, all input consumed,
nothing reported missing. -/
theorem ror2_roundtrip_obj (env : Env) (esc : Bytes → Bytes) (plus : Bool) (E : EscLaws esc plus) (F : FloatLaws)
    (S : SchemaOK env) (ign f : Nat) (ty : Ty) (v : Value) (kvs : List (Bytes × Doc))
    (hv : ValOK v) (henc : encode (ror2Ctx env esc plus E F S).cfg f [] ty v = .ok (.obj kvs)) :
    unmarshalRor2 (ror2Rc env plus ign) ty (renderRor2 esc (.obj kvs)) =
      .ok (norm env f ty v) { rest := [], start := false, missing := [] } := by
  have hwf : RawWF (rawOf esc (.obj kvs)) := rawOf_wf esc plus E F _
  have htree := roundtrip_tree (ror2Ctx env esc plus E F S) ign f [] [] true ty v _ hv henc
  have hte : treeOf (ror2Ctx env esc plus E F S).enc (.obj kvs) = rawOf esc (.obj kvs) :=
    (rawOf_eq_treeOf esc plus _).symm
  rw [hte] at htree
  rw [renderRor2_eq_renderRaw]
  unfold unmarshalRor2
  rw [validate_raw _ hwf]
  simp only [Bool.not_true, Bool.false_eq_true, ↓reduceIte]
  have hfuel := needT_le _ hwf
  simp only [rawOf] at hwf htree hfuel ⊢
  simp only [RawWF] at hwf
  have hb := bridge_top_obj (ror2Rc env plus ign) rfl (rawOfKvs esc kvs) hwf
    (3 * (renderRaw (.obj (rawOfKvs esc kvs))).length + 8) (by omega) ty []
  simp only [List.append_nil] at hb
  rw [hb]
  have : tcOf (ror2Rc env plus ign) = (ror2Ctx env esc plus E F S).tc ign := rfl
  rw [this, htree]
  simp [liftT, ror2Ctx]

/-! ### a decidable check of the schema hypotheses -/

def schemaOKb (env : Env) : Bool :=
  env.all (fun e => match e.2 with
    | .enum syms => decide syms.Nodup
    | .record _ _ => decide ((allFields env (includeFuel env) e.1).map (·.name)).Nodup
    | .union _ ms => decide (ms.map (·.1)).Nodup
    | _ => true)

theorem schemaOK_of_check (env : Env) (h : schemaOKb env = true) : SchemaOK env := by
  unfold schemaOKb at h
  simp only [List.all_eq_true] at h
  have hm : ∀ n d, env.find n = some d → (n, d) ∈ env := fun n d hf => Escape.lookup_mem env n d hf
  refine ⟨?_, ?_, ?_⟩
  · intro n syms hf
    have := h _ (hm n _ hf)
    simpa using this
  · intro n incs own hf
    have := h _ (hm n _ hf)
    simpa using this
  · intro n hn ms hf
    have := h _ (hm n _ hf)
    simpa using this

end Restli.Codec
