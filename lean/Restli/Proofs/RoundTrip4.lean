import Restli.Proofs.RoundTrip3
import Restli.Proofs.Ror2BridgeTop
/-! ROR2 round trip at byte level for values of EVERY type (bare primitives, enums, fixed, arrays
as well as objects) written on their own — an entity key, a header value, the value of a query
parameter — and read from position 0 under any reader scope. -/
namespace Restli.Codec
open Json (JVal)

/-- the cursor reader matching the writer configuration, as a whole-input reader (`query = false`)
or as the per-parameter reader of a query string (`query = true`) -/
def ror2RcQ (env : Env) (plus : Bool) (ign : Nat) (query : Bool) : RCfg :=
  { env := env, tracker := { excl := .empty, ignore := ign }, plus := plus, query := query }

theorem ror2_roundtrip_any (env : Env) (esc : Bytes → Bytes) (plus : Bool) (E : EscLaws esc plus) (F : FloatLaws)
    (S : SchemaOK env) (ign f : Nat) (query : Bool) (scopeW : List Bytes) (scopeR : List Seg)
    (ty : Ty) (v : Value) (doc : Doc) (fuel : Nat) (hfuel : 3 * (renderRor2 esc doc).length ≤ fuel)
    (hv : ValOK v) (henc : encode (ror2Ctx env esc plus E F S).cfg f scopeW ty v = .ok doc) :
    readTy (ror2RcQ env plus ign query) fuel scopeR ty
        { rest := renderRor2 esc doc, start := true, missing := [] } =
      .ok (norm env f ty v) { rest := [], start := false, missing := [] } := by
  have hwf : RawWF (rawOf esc doc) := rawOf_wf esc plus E F _
  have htree := roundtrip_tree (ror2Ctx env esc plus E F S) ign f scopeW scopeR (!query) ty v _ hv henc
  have hte : treeOf (ror2Ctx env esc plus E F S).enc doc = rawOf esc doc := (rawOf_eq_treeOf esc plus _).symm
  rw [hte] at htree
  rw [renderRor2_eq_renderRaw] at hfuel ⊢
  have hneed := needT_le _ hwf
  have hb := bridge_top (ror2RcQ env plus ign query) (rawOf esc doc) hwf fuel (by omega) scopeR ty
  rw [hb]
  have : tcOf (ror2RcQ env plus ign query) = (ror2Ctx env esc plus E F S).tc ign := rfl
  rw [this]
  simp only [ror2RcQ] at htree ⊢
  rw [htree]
  simp [liftT, ror2Ctx]

end Restli.Codec
