import Restli.Proofs.RoundTrip3
import Restli.Model.RenderJson
/-! The JSON instance of the generic tree round trip: the JSON reader (`treeRead` with `jsonSem`)
applied to the document tree the JSON writers denote returns the normalised value. The step from
the emitted *text* to that tree is not a theorem here: on every run the independent strict parser
(Lean `Json.parse` and Go `encoding/json`) must read the emitted text as exactly this tree (C03). -/
namespace Restli.Codec
open Json (JVal)

/-- the typed token a JSON writer emits for a leaf -/
def jsonTreeLeaf : Doc → JVal
  | .int v => .num (Strconv.formatInt v)
  | .f64 b =>
    let d := Strconv.decodeBits Strconv.f64 b
    if d.cls == 2 then .str nanB
    else if d.cls == 1 then .str (if d.neg then 45 :: infinityB else infinityB)
    else .num (Strconv.formatFloat64 b)
  | .bool b => .bool b
  | .str b => .str b
  | .bytes b => .str (latin1 b)
  | _ => .str []

def jsonEnc : TreeEnc := { sem := jsonSem, key := id, leaf := jsonTreeLeaf }

/-- what the JSON float32 path needs of the float32/float64 conversions (the reader parses a
float64 and narrows it): widening, canonicalising NaN and narrowing gives the canonical float32 -/
structure ConvLaws : Prop where
  narrow_widen : ∀ b, b < 2 ^ 32 →
    Strconv.convert Strconv.f64 Strconv.f32 (normF Strconv.f64 (Strconv.convert Strconv.f32 Strconv.f64 b)) =
      normF Strconv.f32 b
  widen_lt : ∀ b, b < 2 ^ 32 → Strconv.convert Strconv.f32 Strconv.f64 b < 2 ^ 64

/-! ### bytes: one code point per byte, read back -/

/-- the two-byte encodings of U+0080…U+00FF, fact by fact (decided over the 128 cases) -/
theorem encodeRune_high : ∀ n, n < 256 → 128 ≤ n →
    Utf8.encodeRune n = [UInt8.ofNat (0xC0 + n / 64), UInt8.ofNat (0x80 + n % 64)] ∧
      0xC2 ≤ (UInt8.ofNat (0xC0 + n / 64)).toNat ∧ (UInt8.ofNat (0xC0 + n / 64)).toNat ≤ 0xDF ∧
      Utf8.isCont 0x80 0xBF (UInt8.ofNat (0x80 + n % 64)) = true ∧
      ((UInt8.ofNat (0xC0 + n / 64)).toNat - 0xC0) * 64 + ((UInt8.ofNat (0x80 + n % 64)).toNat - 0x80) = n := by
  decide +kernel

theorem encodeRune_low : ∀ n, n < 128 → Utf8.encodeRune n = [UInt8.ofNat n] ∧ (UInt8.ofNat n).toNat = n := by
  decide +kernel

theorem decodeRune_latin1 (c : UInt8) (rest : Bytes) :
    Utf8.decodeRune (Utf8.encodeRune c.toNat ++ rest) = (c.toNat, (Utf8.encodeRune c.toNat).length) := by
  have hc : c.toNat < 256 := c.toNat_lt
  by_cases hlo : c.toNat < 128
  · obtain ⟨he, hn⟩ := encodeRune_low c.toNat hlo
    rw [he]
    simp only [List.cons_append, List.nil_append, Utf8.decodeRune, hn, hlo, ↓reduceIte, List.length_cons,
      List.length_nil]
  · obtain ⟨he, h1, h2, h3, h4⟩ := encodeRune_high c.toNat hc (by omega)
    rw [he]
    generalize UInt8.ofNat (0xC0 + c.toNat / 64) = b0 at h1 h2 h4 ⊢
    generalize UInt8.ofNat (0x80 + c.toNat % 64) = b1 at h3 h4 ⊢
    have hx : ¬ b0.toNat < 0x80 := by omega
    have hr : (0xC2 ≤ b0.toNat && b0.toNat ≤ 0xDF) = true := by simp [h1, h2]
    simp only [List.cons_append, List.nil_append, Utf8.decodeRune, hx, ↓reduceIte, hr, h3, h4,
      List.length_cons, List.length_nil]

theorem encodeRune_len_pos (c : UInt8) : 1 ≤ (Utf8.encodeRune c.toNat).length := by
  have hc : c.toNat < 256 := c.toNat_lt
  by_cases hlo : c.toNat < 128
  · rw [(encodeRune_low c.toNat hlo).1]; simp
  · obtain ⟨he, _⟩ := encodeRune_high c.toNat hc (by omega)
    rw [he]; simp

theorem runes_step (f : Nat) (b : Bytes) (hb : b ≠ []) :
    Utf8.runes (f + 1) b = (Utf8.decodeRune b).1 :: Utf8.runes f (b.drop (max (Utf8.decodeRune b).2 1)) := by
  cases b with
  | nil => exact absurd rfl hb
  | cons x xs => simp only [Utf8.runes]

theorem runes_latin1 : ∀ (b : Bytes) (fuel : Nat), b.length ≤ fuel →
    Utf8.runes fuel (latin1 b) = b.map (·.toNat) := by
  intro b
  induction b with
  | nil => intro fuel _; cases fuel <;> simp [latin1, Utf8.runes]
  | cons c cs ih =>
    intro fuel hf
    cases fuel with
    | zero => simp at hf
    | succ f =>
      have hl : latin1 (c :: cs) = Utf8.encodeRune c.toNat ++ latin1 cs := by simp [latin1]
      have hne : Utf8.encodeRune c.toNat ++ latin1 cs ≠ [] := by
        have := encodeRune_len_pos c
        intro h
        have : (Utf8.encodeRune c.toNat ++ latin1 cs).length = 0 := by rw [h]; rfl
        simp only [List.length_append] at this
        omega
      rw [hl, runes_step f _ hne, decodeRune_latin1 c (latin1 cs)]
      have hw : max (Utf8.encodeRune c.toNat).length 1 = (Utf8.encodeRune c.toNat).length := by
        have := encodeRune_len_pos c; omega
      simp only [hw, List.drop_left, List.map_cons]
      rw [ih f (by simp at hf; omega)]

theorem runesOf_latin1_le (b : Bytes) : b.length ≤ (latin1 b).length := by
  induction b with
  | nil => simp [latin1]
  | cons c cs ih =>
    have hl : latin1 (c :: cs) = Utf8.encodeRune c.toNat ++ latin1 cs := by simp [latin1]
    rw [hl]
    have := encodeRune_len_pos c
    simp only [List.length_append, List.length_cons]
    omega

theorem jsonPrim_bytes (b : Bytes) : jsonPrim .bytes (.str (latin1 b)) = .ok (.bytes b) [] := by
  have hr : Utf8.runesOf (latin1 b) = b.map (·.toNat) := by
    unfold Utf8.runesOf
    exact runes_latin1 b _ (runesOf_latin1_le b)
  simp only [jsonPrim, hr]
  have hall : (b.map (·.toNat)).all (· ≤ 0xFF) = true := by
    simp only [List.all_map, List.all_eq_true]
    intro c _
    have := c.toNat_lt
    simp only [Function.comp, decide_eq_true_eq]
    omega
  simp only [hall, ↓reduceIte, List.map_map]
  congr 2
  have : ∀ c : UInt8, UInt8.ofNat c.toNat = c := by intro c; simp
  simp [Function.comp_def, this]

theorem jsonPrim_f64_leaf (b : Nat) :
    jsonPrim .f64 (jsonTreeLeaf (.f64 b)) =
      (match Strconv.parseFloat Strconv.f64 (floatText b) with
       | .ok x => .ok (.f64 x) [] | .unmodelled => .unmodelled | _ => .err .syntax) := by
  simp only [jsonTreeLeaf, floatText]
  by_cases h2 : ((Strconv.decodeBits Strconv.f64 b).cls == 2) = true
  · simp only [h2, ↓reduceIte, jsonPrim]; rfl
  · simp only [h2, Bool.false_eq_true, ↓reduceIte]
    by_cases h1 : ((Strconv.decodeBits Strconv.f64 b).cls == 1) = true
    · simp only [h1, ↓reduceIte, jsonPrim]; rfl
    · simp only [h1, Bool.false_eq_true, ↓reduceIte, jsonPrim]; rfl

theorem jsonPrim_f32_leaf (b : Nat) :
    jsonPrim .f32 (jsonTreeLeaf (.f64 b)) =
      (match Strconv.parseFloat Strconv.f64 (floatText b) with
       | .ok x => .ok (.f32 (Strconv.convert Strconv.f64 Strconv.f32 x)) [] | .unmodelled => .unmodelled
       | _ => .err .syntax) := by
  simp only [jsonTreeLeaf, floatText]
  by_cases h2 : ((Strconv.decodeBits Strconv.f64 b).cls == 2) = true
  · simp only [h2, ↓reduceIte, jsonPrim]; rfl
  · simp only [h2, Bool.false_eq_true, ↓reduceIte]
    by_cases h1 : ((Strconv.decodeBits Strconv.f64 b).cls == 1) = true
    · simp only [h1, ↓reduceIte, jsonPrim]; rfl
    · simp only [h1, Bool.false_eq_true, ↓reduceIte, jsonPrim]; rfl

theorem jsonLaws (F : FloatLaws) (C : ConvLaws) : TreeLaws jsonEnc where
  key_rt := fun k => rfl
  leaf_ne_null := by
    intro d
    cases d <;> simp only [jsonEnc, jsonTreeLeaf, ne_eq, reduceCtorEq, not_false_eq_true]
    repeat' split
    all_goals simp
  prim_rt := by
    intro p v doc hv h
    cases p <;> cases v <;> simp only [encPrim, Except.ok.injEq, reduceCtorEq] at h <;> subst h <;>
      simp only [jsonEnc, jsonSem, normPrim]
    · simp only [ValOK] at hv
      simp [jsonTreeLeaf, jsonPrim, Strconv.parseInt_formatInt 32 _ (by simpa using hv.1) (by simpa using hv.2)]
    · simp only [ValOK] at hv
      simp [jsonTreeLeaf, jsonPrim, Strconv.parseInt_formatInt 64 _ (by simpa using hv.1) (by simpa using hv.2)]
    · -- float32: written widened, parsed as float64, narrowed
      simp only [ValOK] at hv
      rename_i b
      simp only [jsonPrim_f32_leaf, F.rt64 _ (C.widen_lt b hv), C.narrow_widen b hv]
    · simp only [ValOK] at hv
      rename_i b
      simp only [jsonPrim_f64_leaf, F.rt64 b hv]
    · simp [jsonTreeLeaf, jsonPrim]
    · simp [jsonTreeLeaf, jsonPrim]
    · simp only [jsonTreeLeaf]; exact jsonPrim_bytes _
  str_rt := by intro s; simp [jsonEnc, jsonSem, jsonTreeLeaf]

/-- the round-trip context of the JSON writers / reader -/
def jsonCtx (env : Env) (F : FloatLaws) (C : ConvLaws) (S : SchemaOK env) : RTCtx :=
  { env := env, enc := jsonEnc, L := jsonLaws F C, S := S }

/-- **JSON round trip at the level of the document tree**: for every schema, type, value and
nesting depth, the generated JSON unmarshaler applied to the tree the JSON writers denote for
`MarshalRestLi(v)` returns `norm v`, reports nothing missing. -/
theorem json_roundtrip_tree (env : Env) (F : FloatLaws) (C : ConvLaws) (S : SchemaOK env) (ign f : Nat)
    (scopeW : List Bytes) (scopeR : List Seg) (top : Bool) (ty : Ty) (v : Value) (doc : Doc)
    (hv : ValOK v) (henc : encode (jsonCtx env F C S).cfg f scopeW ty v = .ok doc) :
    treeRead { env := env, tracker := { excl := .empty, ignore := ign } } top scopeR ty (treeOf jsonEnc doc) =
      .ok (norm env f ty v) [] :=
  roundtrip_tree (jsonCtx env F C S) ign f scopeW scopeR top ty v doc hv henc

end Restli.Codec
