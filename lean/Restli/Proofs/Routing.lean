import Restli.Model.Routing
import Restli.Spec.Routing
/-! Helper lemmas for C05 (routing). Property statements live in `Props/C05.lean`. -/
namespace Restli.Routing
open Spec

/-! ## the constants the specification pins down -/

/-- what the property text demands of the regenerated constants: the header and parameter names,
the thirteen method names, and the statuses of the not-routed branches (404 for an unknown
sub-resource, 400 for the rest). -/
structure Tied (C : Consts) : Prop where
  methodHeader : C.methodHeader = "X-RestLi-Method"
  mapping : mappingEntries C = Spec.methodTable
  paramFinder : C.paramFinder = "q"
  paramAction : C.paramAction = "action"
  paramIds : C.paramIds = "ids"
  stUnknownSub : C.stUnknownSub = 404
  stInvalidSegment : C.stInvalidSegment = 400
  stInvalidQuery : C.stInvalidQuery = 400
  stPostNeedsHeader : C.stPostNeedsHeader = 400
  stNoEntity : C.stNoEntity = 400
  stEntityForbidden : C.stEntityForbidden = 400
  stEntityOnSimple : C.stEntityOnSimple = 400
  stNoFinder : C.stNoFinder = 400
  stNoAction : C.stNoAction = 400
  stNoMethod : C.stNoMethod = 400

theorem tied_v2 : Tied constsV2 := by
  constructor <;> decide

theorem tied_root : Tied constsRoot := by
  constructor <;> decide

/-! ## Go maps as association lists -/

theorem lookupLast_eq_lookup {α} (k : String) : (l : List (String × α)) →
    ((l.filter (fun kv => kv.1 == k)).length ≤ 1) → lookupLast k l = (l.find? (fun kv => kv.1 == k)).map (·.2)
  | [], _ => rfl
  | (k', v) :: rest, h => by
    simp only [lookupLast, List.find?]
    by_cases hk : (k' == k) = true
    · -- the head matches: nothing later may
      have hrest : (rest.filter (fun kv => kv.1 == k)) = [] := by
        simp only [List.filter, hk] at h
        have : (List.filter (fun kv => kv.1 == k) rest).length = 0 := by
          simp only [List.length_cons] at h; omega
        exact List.eq_nil_of_length_eq_zero this
      have hnone : lookupLast k rest = none := by
        have h1 : (rest.filter (fun kv => kv.1 == k)).length ≤ 1 := by simp [hrest]
        rw [lookupLast_eq_lookup k rest h1]
        have : rest.find? (fun kv => kv.1 == k) = none := by
          rw [List.find?_eq_none]
          intro x hx hxk
          have : x ∈ rest.filter (fun kv => kv.1 == k) := List.mem_filter.mpr ⟨hx, hxk⟩
          rw [hrest] at this; cases this
        simp [this]
      simp [hnone, hk]
    · have hk' : (k' == k) = false := by simpa using hk
      have h1 : (rest.filter (fun kv => kv.1 == k)).length ≤ 1 := by
        simpa [List.filter, hk'] using h
      rw [lookupLast_eq_lookup k rest h1]
      simp only [hk']
      cases rest.find? (fun kv => kv.1 == k) <;> simp

/-- a table with distinct keys: last binding = first binding -/
theorem lookupLast_eq_lookup_table {α} (k : String) (l : List (String × α))
    (h : (l.map (·.1)).Nodup) : lookupLast k l = l.lookup k := by
  induction l with
  | nil => rfl
  | cons kv rest ih =>
    obtain ⟨k', v⟩ := kv
    simp only [List.map_cons, List.nodup_cons] at h
    simp only [lookupLast, ih h.2, List.lookup]
    by_cases hk : (k == k') = true
    · have : k = k' := by simpa using hk
      subst this
      have : rest.lookup k = none := by
        rw [List.lookup_eq_none_iff]
        intro p hp
        simp only [bne_iff_ne, ne_eq]
        intro hpk
        apply h.1
        exact List.mem_map.mpr ⟨p, hp, hpk.symm⟩
      simp [this]
    · have hk' : (k == k') = false := by simpa using hk
      have hk2 : (k' == k) = false := by
        simp only [beq_eq_false_iff_ne, ne_eq] at hk' ⊢
        exact fun h => hk' h.symm
      simp only [hk', hk2]
      cases rest.lookup k <;> simp
/-! ## `MethodNameMapping` and the walk -/

theorem lookup_mem_snd {α β} [BEq α] (k : α) (v : β) : (l : List (α × β)) → l.lookup k = some v → v ∈ l.map (·.2)
  | [], h => by simp [List.lookup] at h
  | (k', v') :: rest, h => by
    simp only [List.lookup] at h
    split at h
    · simp only [Option.some.injEq] at h; simp [h]
    · simp only [List.map_cons, List.mem_cons]; exact Or.inr (lookup_mem_snd k v rest h)

theorem nameMapping_eq (C : Consts) (hC : Tied C) (s : String) :
    nameMapping C s = (methodNamed s).getD .unknown := by
  unfold nameMapping methodNamed
  rw [hC.mapping, lookupLast_eq_lookup_table _ _ (by decide)]

theorem methodNamed_ne_unknown (s : String) : methodNamed s ≠ some .unknown := by
  unfold methodNamed
  intro h
  have := lookup_mem_snd _ _ _ h
  revert this
  decide

theorem methodNamed_empty : methodNamed "" = none := by decide

/-- what the walk of the model returns, in terms of the specification's `locateAt` -/
def locatedOf (rp : List Seg) (ks : List String) : Option Target → Located
  | some t => .found t.node (rp ++ t.rpath) (ks ++ t.keys) t.hasKey
  | none => .err 404

theorem locatedOf_under (rp : List Seg) (ks : List String) (s : Seg) (k : String) (o : Option Target) :
    locatedOf rp ks (o.map (Target.under s (some k))) = locatedOf (rp ++ [s]) (ks ++ [k]) o := by
  cases o <;> simp [locatedOf, Target.under]

theorem locatedOf_under_none (rp : List Seg) (ks : List String) (s : Seg) (o : Option Target) :
    locatedOf rp ks (o.map (Target.under s none)) = locatedOf (rp ++ [s]) ks o := by
  cases o <;> simp [locatedOf, Target.under]

theorem walk_eq_aux (C : Consts) (hC : Tied C) (V : String → Bool) :
    ∀ (len : Nat) (rest : List String), rest.length ≤ len →
      ∀ (n : Node) (rp : List Seg) (ks : List String) (x : String),
      (∀ s ∈ rest, V s = true) →
      walk C V n rp ks (x :: rest) = locatedOf rp ks (locateAt n rest) := by
  intro len
  induction len with
  | zero =>
    intro rest hlen n rp ks x _
    have : rest = [] := List.eq_nil_of_length_eq_zero (by omega)
    subst this
    cases hc : n.isCollection <;> simp [walk, locateAt, locatedOf, hc]
  | succ len ih =>
    intro rest hlen n rp ks x hv
    match rest, hlen, hv with
    | [], _, _ => cases hc : n.isCollection <;> simp [walk, locateAt, locatedOf, hc]
    | [a], _, hv =>
      have hva : V a = true := hv a (List.mem_cons_self ..)
      cases hc : n.isCollection
      · simp only [walk, locateAt, hc, Bool.false_eq_true, if_false]
        cases hf : findSub a n.subs with
        | none => simp [locatedOf, hC.stUnknownSub]
        | some sub =>
          cases hs : sub.isCollection <;> simp [locatedOf, Target.under, hs]
      · simp [walk, locateAt, locatedOf, hc, hva]
    | a :: s :: rest2, hlen, hv =>
      cases hc : n.isCollection
      · -- simple resource: `a` names a sub-resource
        simp only [walk, locateAt, hc, Bool.false_eq_true, if_false]
        cases hf : findSub a n.subs with
        | none => simp [locatedOf, hC.stUnknownSub]
        | some sub =>
          simp only [Option.bind_some]
          rw [locatedOf_under_none]
          exact ih (s :: rest2) (by simp at hlen ⊢; omega) sub _ _ a
            (fun t ht => hv t (List.mem_cons_of_mem _ ht))
      · -- collection: `a` is the key
        have hva : V a = true := hv a (List.mem_cons_self ..)
        simp only [walk, locateAt, hc, if_true, hva, Bool.not_true, Bool.false_eq_true, if_false]
        cases hf : findSub s n.subs with
        | none => simp [locatedOf, hC.stUnknownSub]
        | some sub =>
          simp only [Option.bind_some]
          rw [locatedOf_under]
          exact ih rest2 (by simp at hlen; omega) sub _ _ s
            (fun t ht => hv t (List.mem_cons_of_mem _ (List.mem_cons_of_mem _ ht)))
/-! ## trees that `Register*` can build -/

mutual
/-- no handler for `Method_Unknown` (the exported `Register*` functions cannot create one) and no
finder or action with an empty name (a restspec cannot declare one) -/
def nodeOk : Node → Bool
  | .mk _ _ ms fs as subs =>
    !ms.contains .unknown && !fs.contains "" && (as.lookup "").isNone && nodesOk subs
def nodesOk : List Node → Bool
  | [] => true
  | n :: rest => nodeOk n && nodesOk rest
end

theorem nodeOk_methods (n : Node) (h : nodeOk n = true) : n.methods.contains .unknown = false := by
  cases n; simp_all [nodeOk, Node.methods]
theorem nodeOk_finders (n : Node) (h : nodeOk n = true) : n.finders.contains "" = false := by
  cases n; simp_all [nodeOk, Node.finders]
theorem nodeOk_actions (n : Node) (h : nodeOk n = true) : n.actions.lookup "" = none := by
  cases n; simp_all [nodeOk, Node.actions]
theorem nodeOk_subs (n : Node) (h : nodeOk n = true) : nodesOk n.subs = true := by
  cases n; simp_all [nodeOk, Node.subs]

theorem findSub_ok (s : String) : (l : List Node) → nodesOk l = true → ∀ n, findSub s l = some n → nodeOk n = true
  | [], _, n, h => by simp [findSub] at h
  | m :: rest, hl, n, h => by
    simp only [nodesOk, Bool.and_eq_true] at hl
    simp only [findSub] at h
    split at h
    · simp only [Option.some.injEq] at h; subst h; exact hl.1
    · exact findSub_ok s rest hl.2 n h

/-- induction along the path a target was located by -/
theorem locateAt_ind (P : Node → List String → Target → Prop)
    (here : ∀ n, P n [] ⟨n, [n.seg], [], false⟩)
    (hereKey : ∀ n x, n.isCollection = true → P n [x] ⟨n, [n.seg], [x], true⟩)
    (belowColl : ∀ n x s rest sub t, n.isCollection = true → findSub s n.subs = some sub →
      locateAt sub rest = some t → P sub rest t → P n (x :: s :: rest) (t.under n.seg (some x)))
    (belowSimple : ∀ n x rest sub t, n.isCollection = false → findSub x n.subs = some sub →
      locateAt sub rest = some t → P sub rest t → P n (x :: rest) (t.under n.seg none)) :
    ∀ (len : Nat) (rest : List String), rest.length ≤ len → ∀ n t, locateAt n rest = some t → P n rest t := by
  intro len
  induction len with
  | zero =>
    intro rest hlen n t h
    have : rest = [] := List.eq_nil_of_length_eq_zero (by omega)
    subst this
    simp only [locateAt, Option.some.injEq] at h
    subst h; exact here n
  | succ len ih =>
    intro rest hlen n t h
    match rest, hlen, h with
    | [], _, h =>
      simp only [locateAt, Option.some.injEq] at h
      subst h; exact here n
    | [a], _, h =>
      cases hc : n.isCollection
      · simp only [locateAt, hc, Bool.false_eq_true, if_false] at h
        cases hf : findSub a n.subs with
        | none => simp [hf] at h
        | some sub =>
          simp only [hf, Option.bind_some, Option.map_some, Option.some.injEq] at h
          subst h
          exact belowSimple n a [] sub _ hc hf (by simp [locateAt]) (here sub)
      · simp only [locateAt, hc, if_true, Option.some.injEq] at h
        subst h; exact hereKey n a hc
    | a :: s :: rest2, hlen, h =>
      cases hc : n.isCollection
      · simp only [locateAt, hc, Bool.false_eq_true, if_false] at h
        cases hf : findSub a n.subs with
        | none => simp [hf] at h
        | some sub =>
          simp only [hf, Option.bind_some] at h
          cases hl : locateAt sub (s :: rest2) with
          | none => simp [hl] at h
          | some t' =>
            simp only [hl, Option.map_some, Option.some.injEq] at h
            subst h
            exact belowSimple n a (s :: rest2) sub t' hc hf hl
              (ih (s :: rest2) (by simp at hlen ⊢; omega) sub t' hl)
      · simp only [locateAt, hc, if_true] at h
        cases hf : findSub s n.subs with
        | none => simp [hf] at h
        | some sub =>
          simp only [hf, Option.bind_some] at h
          cases hl : locateAt sub rest2 with
          | none => simp [hl] at h
          | some t' =>
            simp only [hl, Option.map_some, Option.some.injEq] at h
            subst h
            exact belowColl n a s rest2 sub t' hc hf hl (ih rest2 (by simp at hlen; omega) sub t' hl)

theorem locateAt_simple_nokey (n : Node) (rest : List String) (t : Target) (h : locateAt n rest = some t) :
    t.node.isCollection = false → t.hasKey = false :=
  locateAt_ind (fun _ _ t => t.node.isCollection = false → t.hasKey = false)
    (fun _ _ => rfl) (fun n x hc h => by simp [hc] at h)
    (fun _ _ _ _ _ _ _ _ _ ih => by simpa [Target.under] using ih)
    (fun _ _ _ _ _ _ _ _ ih => by simpa [Target.under] using ih)
    rest.length rest (Nat.le_refl _) n t h

theorem locateAt_keys_mem (n : Node) (rest : List String) (t : Target) (h : locateAt n rest = some t) :
    ∀ k ∈ t.keys, k ∈ rest :=
  locateAt_ind (fun _ rest t => ∀ k ∈ t.keys, k ∈ rest)
    (fun _ k hk => by simp at hk) (fun n x _ k hk => by simpa using hk)
    (fun _ x s rest _ t _ _ _ ih k hk => by
      simp only [Target.under, Option.toList, List.cons_append, List.nil_append, List.mem_cons] at hk
      rcases hk with rfl | hk
      · simp
      · exact List.mem_cons_of_mem _ (List.mem_cons_of_mem _ (ih k hk)))
    (fun _ x rest _ t _ _ _ ih k hk => by
      simp only [Target.under, Option.toList, List.nil_append] at hk
      exact List.mem_cons_of_mem _ (ih k hk))
    rest.length rest (Nat.le_refl _) n t h

theorem locateAt_node_ok (n : Node) (rest : List String) (t : Target) (h : locateAt n rest = some t) :
    nodeOk n = true → nodeOk t.node = true :=
  locateAt_ind (fun n _ t => nodeOk n = true → nodeOk t.node = true)
    (fun _ h => h) (fun _ _ _ h => h)
    (fun n _ s _ sub _ _ hf _ ih hn => by
      simpa [Target.under] using ih (findSub_ok s n.subs (nodeOk_subs n hn) sub hf))
    (fun n x _ sub _ _ hf _ ih hn => by
      simpa [Target.under] using ih (findSub_ok x n.subs (nodeOk_subs n hn) sub hf))
    rest.length rest (Nat.le_refl _) n t h

/-- what the walk returns when the path names a resource: the resource, unless one of the keys on the
way is malformed -/
theorem walk_some (C : Consts) (V : String → Bool) (n : Node) (rest : List String) (t : Target)
    (h : locateAt n rest = some t) :
    ∀ (rp : List Seg) (ks : List String) (x : String),
      walk C V n rp ks (x :: rest) =
        if t.keys.all V then .found t.node (rp ++ t.rpath) (ks ++ t.keys) t.hasKey else .err C.stInvalidSegment :=
  locateAt_ind
    (fun n rest t => ∀ (rp : List Seg) (ks : List String) (x : String),
      walk C V n rp ks (x :: rest) =
        if t.keys.all V then .found t.node (rp ++ t.rpath) (ks ++ t.keys) t.hasKey else .err C.stInvalidSegment)
    (fun n rp ks x => by cases hc : n.isCollection <;> simp [walk, hc])
    (fun n k hc rp ks x => by
      cases hv : V k <;> simp [walk, hc, hv])
    (fun n k s rest sub t hc hf _ ih rp ks x => by
      cases hv : V k
      · simp [walk, hc, hv, Target.under]
      · simp only [walk, hc, if_true, hv, Bool.not_true, Bool.false_eq_true, if_false, hf, ih]
        simp [Target.under, hv])
    (fun n a rest sub t hc hf _ ih rp ks x => by
      cases rest with
      | nil =>
        rw [walk.eq_3]
        simp only [hc, Bool.false_eq_true, if_false, hf, ih]
        simp [Target.under]
      | cons b rest' =>
        rw [walk.eq_4]
        simp only [hc, Bool.false_eq_true, if_false, hf, ih]
        simp [Target.under])
    rest.length rest (Nat.le_refl _) n t h

/-! ## `receive` after the walk, against the specification's table -/

/-- the decision a `Resolved` stands for -/
def Resolved.decision (C : Consts) : Resolved → Decision
  | .ok f _ => .routed f
  | .errResp st => .reject st

/-- `routed f` or `reject 400` -/
def admitOr400 : Option Facts → Decision
  | some f => .routed f
  | none => .reject 400

/-- the last two rows of the specification's table, on the request's features -/
def specTail (t : Target) (verb : Verb) (hdr q act : Option String) (ids : Bool) : Decision :=
  match methodFor t.node.isCollection t.hasKey verb hdr q.isSome ids act.isSome with
  | none => .reject 400
  | some m => admitOr400 (admittedWith t m q act)

/-- the guard for finding "entity presence is not checked for actions": if the request names a
registered action, the presence of an entity key matches the action's level -/
def actionLevelOk (t : Target) (act : Option String) : Prop :=
  ∀ name e, act = some name → t.node.actions.lookup name = some e → e = t.hasKey

@[simp] theorem decision_ok (C : Consts) (f : Facts) (k : Bool) : (Resolved.ok f k).decision C = .routed f := rfl
@[simp] theorem decision_errResp (C : Consts) (st : Nat) : (Resolved.errResp st).decision C = .reject st := rfl
@[simp] theorem admitOr400_some (f : Facts) : admitOr400 (some f) = .routed f := rfl
@[simp] theorem admitOr400_none : admitOr400 none = .reject 400 := rfl

theorem getD_ne_empty (q : Option String) (hq : q ≠ some "") : (q.getD "" != "") = q.isSome := by
  cases q with
  | none => rfl
  | some s =>
    have : s ≠ "" := fun h => hq (by rw [h])
    simp [this]

/-- collection resource, method `m` settled: entity validation + handler lookup = `admittedWith` -/
theorem tail_coll (C : Consts) (hC : Tied C) (t : Target) (m : Method) (q act : Option String)
    (hcoll : t.node.isCollection = true) (hok : nodeOk t.node = true)
    (hm : m ≠ .unknown)
    (hlevel : m = .action → actionLevelOk t act) :
    (finish C t.node t.rpath t.keys t.hasKey (q.getD "") (act.getD "") (checkEntity C m t.hasKey)).decision C =
      admitOr400 (admittedWith t m q act) := by
  have hf := nodeOk_finders _ hok
  have ha := nodeOk_actions _ hok
  have hu := nodeOk_methods _ hok
  cases m <;> cases hk : t.hasKey <;>
    simp [finish, checkEntity, needsEntity, forbidsEntity, lookupHandler, admittedWith, takesKey,
      hcoll, hk, hC.stNoEntity, hC.stEntityForbidden, hC.stNoFinder, hC.stNoAction,
      hC.stNoMethod, apply_ite (Resolved.decision C), apply_ite admitOr400] at hm ⊢
  · -- action, no key
    cases act with
    | none => simp [ha]
    | some name =>
      cases hl : List.lookup name t.node.actions with
      | none => simp [hl]
      | some e =>
        have := hlevel rfl name e rfl hl
        simp [hl, this, hk]
  · -- action, with key
    cases act with
    | none => simp [ha]
    | some name =>
      cases hl : List.lookup name t.node.actions with
      | none => simp [hl]
      | some e =>
        have := hlevel rfl name e rfl hl
        simp [hl, this, hk]
  · -- finder, no key
    have hf' : ¬ ("" ∈ t.node.finders) := by simpa using hf
    cases q with
    | none => simp [hf']
    | some name => simp [apply_ite admitOr400]
  · cases q <;> rfl


theorem lookupHandler_plain (C : Consts) (hC : Tied C) (t : Target) (k : Bool) (m : Method) (f a : String)
    (hf : m ≠ .finder) (ha : m ≠ .action) :
    (lookupHandler C t.node t.rpath t.keys k m f a).decision C =
      if t.node.methods.contains m then .routed ⟨m, t.rpath, t.keys, none, none⟩ else .reject 400 := by
  simp [lookupHandler, hf, ha, apply_ite (Resolved.decision C), hC.stNoMethod]

/-- `receive` after the walk = the last two rows of the specification's table, on every request the
text determines and outside the action-level finding -/
theorem resolveWith_eq (C : Consts) (hC : Tied C) (t : Target) (verb : Verb) (hdr q act : Option String)
    (ids : Bool) (hok : nodeOk t.node = true)
    (hsimple : t.node.isCollection = false → t.hasKey = false)
    (hh : ∀ h, hdr = some h → methodNamed h ≠ none)
    (hq : q ≠ some "") (ha : act ≠ some "")
    (h2 : t.node.isCollection = false → verb = .other → hdr = none)
    (h3 : t.node.isCollection = true → hdr = none → (verb = .PUT ∨ verb = .DELETE) → t.hasKey = true → ids = false)
    (hlevel : methodFor t.node.isCollection t.hasKey verb hdr q.isSome ids act.isSome = some .action →
      actionLevelOk t act) :
    (resolveWith C t.node t.rpath t.keys t.hasKey verb ((hdr.bind methodNamed).getD .unknown)
        (q.getD "") (act.getD "") ids).decision C = specTail t verb hdr q act ids := by
  have hu := nodeOk_methods _ hok
  have hu' : ¬ (Method.unknown ∈ t.node.methods) := by simpa using hu
  unfold resolveWith specTail
  cases hc : t.node.isCollection
  · -- simple resource
    have hk := hsimple hc
    simp only [hk, Bool.false_eq_true, if_false]
    cases verb
    · -- GET
      simp [simpleMethod, methodFor, finish, lookupHandler_plain C hC, admittedWith, hc, hk,
        apply_ite admitOr400]
    · -- POST
      rw [hc] at hlevel
      cases act with
      | none =>
        simp [simpleMethod, methodFor, finish, lookupHandler_plain C hC, admittedWith, hc, hk,
          apply_ite admitOr400]
      | some name =>
        have hne : name ≠ "" := fun h => ha (by rw [h])
        have hlv := hlevel (by simp [methodFor])
        simp only [simpleMethod, methodFor, Option.getD_some, bne_iff_ne, ne_eq, hne, not_false_eq_true,
          if_true, Option.isSome_some, finish, lookupHandler, reduceCtorEq, if_false, admittedWith]
        cases hl : List.lookup name t.node.actions with
        | none => simp [hC.stNoAction]
        | some e =>
          have := hlv name e rfl hl
          simp [this, hk]
    · -- PUT
      simp [simpleMethod, methodFor, finish, lookupHandler_plain C hC, admittedWith, hc, hk,
        apply_ite admitOr400]
    · -- DELETE
      simp [simpleMethod, methodFor, finish, lookupHandler_plain C hC, admittedWith, hc, hk,
        apply_ite admitOr400]
    · -- other verbs: only without a header
      have := h2 hc rfl
      subst this
      simp [simpleMethod, methodFor, finish, lookupHandler_plain C hC, hu']
  · -- collection-like resource
    simp only [if_true]
    rw [hc] at hlevel
    cases hdr with
    | some h =>
      cases hm : methodNamed h with
      | none => exact absurd hm (hh h rfl)
      | some m =>
        have hmu : m ≠ .unknown := fun e => methodNamed_ne_unknown h (e ▸ hm)
        simp only [Option.bind_some, hm, Option.getD_some, hmu, if_false, methodFor, if_true]
        exact tail_coll C hC t m q act hc hok hmu (fun e => hlevel (by simp [methodFor, hm, e]))
    | none =>
      simp only [Option.bind_none, Option.getD_none, if_true]
      cases verb
      · -- GET
        simp only [inferMethod, getD_ne_empty q hq, methodFor, if_true]
        cases hk : t.hasKey <;> cases hqs : q.isSome <;> cases ids <;>
          simp only [Bool.false_eq_true, if_false, if_true] <;>
          (rw [← hk]; exact tail_coll C hC t _ q act hc hok (by decide) (fun e => by cases e))
      · -- POST requires the header
        simp [inferMethod, methodFor, finish, hC.stPostNeedsHeader]
      · -- PUT
        cases hk : t.hasKey <;> cases hi : ids
        · simp [inferMethod, methodFor, finish, checkEntity, needsEntity, hC.stNoEntity]
        · simp only [inferMethod, methodFor, if_true, Bool.false_eq_true, if_false]
          rw [← hk]; exact tail_coll C hC t _ q act hc hok (by decide) (fun e => by cases e)
        · simp only [inferMethod, methodFor, if_true, Bool.false_eq_true, if_false]
          rw [← hk]; exact tail_coll C hC t _ q act hc hok (by decide) (fun e => by cases e)
        · exact absurd (h3 hc rfl (Or.inl rfl) hk) (by simp [hi])
      · -- DELETE
        cases hk : t.hasKey <;> cases hi : ids
        · simp [inferMethod, methodFor, finish, checkEntity, needsEntity, hC.stNoEntity]
        · simp only [inferMethod, methodFor, if_true, Bool.false_eq_true, if_false]
          rw [← hk]; exact tail_coll C hC t _ q act hc hok (by decide) (fun e => by cases e)
        · simp only [inferMethod, methodFor, if_true, Bool.false_eq_true, if_false]
          rw [← hk]; exact tail_coll C hC t _ q act hc hok (by decide) (fun e => by cases e)
        · exact absurd (h3 hc rfl (Or.inr rfl) hk) (by simp [hi])
      · -- other verbs name no method
        simp [inferMethod, methodFor, finish, checkEntity, needsEntity, forbidsEntity,
          lookupHandler_plain C hC, hu']

/-! ## the guard for the one remaining finding, as a decidable predicate -/

/-- (finding "entity presence unchecked for actions") if the request asks for a registered action,
the presence of an entity key matches the level the action was registered at -/
def actionLevelMatches (roots : List Node) (req : Req) : Bool :=
  match locate roots req.path with
  | none => true
  | some t =>
    if methodOf t req == some .action then
      match param "action" req with
      | some name =>
        match t.node.actions.lookup name with
        | some e => e == t.hasKey
        | none => true
      | none => true
    else true

theorem route_eq_resolve (C : Consts) (V : String → Bool) (roots : List Node) (req : Req)
    (s : String) (rest : List String) (sub : Node) (hp : req.path = s :: rest) (hf : findSub s roots = some sub)
    (n : Node) (rp : List Seg) (ks : List String) (hk : Bool)
    (hw : walk C V sub [] [] (s :: rest) = .found n rp ks hk) :
    route C V roots req = (resolve C V n rp ks hk req).decision C := by
  simp only [route, routeX, hp, hf, hw]
  cases resolve C V n rp ks hk req <;> rfl

theorem param_eq_lookupLast (req : Req) (name : String)
    (h : (req.query.filter (fun kv => kv.1 == name)).length ≤ 1) :
    lookupLast name req.query = param name req := by
  rw [lookupLast_eq_lookup name req.query h]; rfl

theorem dup_le_one (req : Req) (h : duplicateReserved req = false) (name : String)
    (hn : name = "q" ∨ name = "ids" ∨ name = "action") :
    (req.query.filter (fun kv => kv.1 == name)).length ≤ 1 := by
  simp only [duplicateReserved, List.any_cons, List.any_nil, Bool.or_false, Bool.or_eq_false_iff,
    decide_eq_false_iff_not, Nat.not_lt] at h
  rcases hn with rfl | rfl | rfl
  · exact h.1
  · exact h.2.1
  · exact h.2.2

/-- the model's decision is the specification's, on every request the text determines and outside
the action-level finding -/
theorem route_eq_decide (C : Consts) (hC : Tied C) (V : String → Bool) (roots : List Node) (req : Req)
    (hroots : nodesOk roots = true)
    (hact : actionLevelMatches roots req = true)
    (hs1 : unknownHeaderValue req = false) (hs2 : emptyReservedValue req = false)
    (hs3 : duplicateReserved req = false) (hs5 : malformedAndUnknown V roots req = false)
    (hs4 : ∀ t, locate roots req.path = some t → otherVerbWithHeaderOnSimple t req = false ∧ keyAndIds t req = false) :
    route C V roots req = Spec.decide V roots req := by
  cases hp : req.path with
  | nil => simp [route, routeX, Spec.decide, locate, hp, Consts.stRootNotFound]
  | cons s rest =>
    cases hf : findSub s roots with
    | none => simp [route, routeX, Spec.decide, locate, hp, hf, Consts.stRootNotFound]
    | some sub =>
      cases hl : locateAt sub rest with
      | none =>
        -- an unknown sub-resource; by `hs5` no segment is malformed
        have hloc : locate roots req.path = none := by simp [locate, hp, hf, hl]
        have hall : req.path.all V = true := by
          simpa [malformedAndUnknown, hloc] using hs5
        have hvall : ∀ x ∈ rest, V x = true := by
          intro x hx
          exact List.all_eq_true.mp hall x (by rw [hp]; exact List.mem_cons_of_mem _ hx)
        have hw := walk_eq_aux C hC V rest.length rest (Nat.le_refl _) sub [] [] s hvall
        simp only [hl, locatedOf] at hw
        simp [route, routeX, Spec.decide, locate, hp, hf, hw, hl]
      | some t =>
        have hw := walk_some C V sub rest t hl [] [] s
        have hloc : locate roots req.path = some t := by simp [locate, hp, hf, hl]
        by_cases hkeys : t.keys.all V = true
        · simp only [hkeys, if_true, List.nil_append] at hw
          rw [route_eq_resolve C V roots req s rest sub hp hf _ _ _ _ hw]
          have hok : nodeOk t.node = true := locateAt_node_ok sub rest t hl (findSub_ok s roots hroots sub hf)
          have hsimple := locateAt_simple_nokey sub rest t hl
          by_cases hqv : (req.query.all fun kv => V kv.2) = true
          · -- the specification side
            have hdec : Spec.decide V roots req = specTail t req.verb (methodHeader req) (param "q" req) (param "action" req)
                (param "ids" req).isSome := by
              simp only [Spec.decide, hloc, hkeys, hqv, Bool.not_true, Bool.or_self, Bool.false_eq_true, if_false,
                specTail, methodOf, admitted]
              cases methodFor t.node.isCollection t.hasKey req.verb (methodHeader req) (param "q" req).isSome
                (param "ids" req).isSome (param "action" req).isSome with
              | none => rfl
              | some m => cases admittedWith t m (param "q" req) (param "action" req) <;> rfl
            rw [hdec]
            -- the model side
            have hm0 : nameMapping C ((req.headers.lookup C.methodHeader).getD "") =
                ((methodHeader req).bind methodNamed).getD .unknown := by
              rw [nameMapping_eq C hC, hC.methodHeader]
              unfold methodHeader
              cases List.lookup "X-RestLi-Method" req.headers with
              | none => simp [methodNamed_empty]
              | some h => simp
            simp only [resolve, hqv, Bool.not_true, Bool.false_eq_true, if_false, hm0, hC.paramFinder,
              hC.paramAction, hC.paramIds,
              param_eq_lookupLast req "q" (dup_le_one req hs3 "q" (Or.inl rfl)),
              param_eq_lookupLast req "action" (dup_le_one req hs3 "action" (Or.inr (Or.inr rfl))),
              param_eq_lookupLast req "ids" (dup_le_one req hs3 "ids" (Or.inr (Or.inl rfl)))]
            have hs4' := hs4 t hloc
            apply resolveWith_eq C hC t req.verb (methodHeader req) (param "q" req) (param "action" req)
              (param "ids" req).isSome hok hsimple
            · intro h hh
              simp only [unknownHeaderValue, hh] at hs1
              intro hn; simp [hn] at hs1
            · intro h; simp [emptyReservedValue, h] at hs2
            · intro h; simp [emptyReservedValue, h] at hs2
            · intro hc hv
              have := hs4'.1
              simp only [otherVerbWithHeaderOnSimple, hc, hv, Bool.not_false, beq_self_eq_true, Bool.true_and,
                Option.isSome_eq_false_iff, Option.isNone_iff_eq_none] at this
              exact this
            · intro hc hh hv hk
              have := hs4'.2
              simp only [keyAndIds, hc, hh, Option.isNone_none, Bool.true_and, hk, Bool.and_true] at this
              rcases hv with hv | hv <;> simpa [hv] using this
            · intro hm name e hname hlook
              have hm' : methodOf t req = some .action := by
                simp only [methodOf, hname, Option.isSome_some] at hm ⊢; exact hm
              simp only [actionLevelMatches, hloc, hm', beq_self_eq_true, if_true, hname, hlook] at hact
              simpa using hact
          · -- a malformed query value: 400 on both sides
            have hqv' : (req.query.all fun kv => V kv.2) = false := by simpa using hqv
            simp [resolve, hqv', Spec.decide, hloc, hkeys, hC.stInvalidQuery]
        · -- a malformed key on the way: 400 on both sides
          have hkeys' : t.keys.all V = false := by simpa using hkeys
          simp only [hkeys', Bool.false_eq_true, if_false] at hw
          have hloc' : locate roots (s :: rest) = some t := hp ▸ hloc
          simp [route, routeX, hp, hf, hw, Spec.decide, hloc', hkeys', hC.stInvalidSegment]

/-! ## filters and the resource call: the shape of the event list -/

/-- an event without its payload -/
inductive Tag where
  | pre (i : Nat) | inv | post (i : Nat)
deriving DecidableEq, Repr

def Event.tag : Event → Tag
  | .pre i _ _ => .pre i
  | .invoke _ _ => .inv
  | .post i _ => .post i

/-- the facts an event shows to a filter's `PreRequest` or to the resource method -/
def Event.facts? : Event → Option Facts
  | .pre _ f _ => some f
  | .invoke f _ => some f
  | .post _ _ => none

theorem runPre_shape (f : Facts) : ∀ (fs : List FilterKind) (i : Nat) (seen : List Nat),
    ∃ k, k ≤ fs.length ∧ (runPre f fs i seen).1.map Event.tag = (List.range' i k).map Tag.pre ∧
      ((runPre f fs i seen).2.2 = none → k = fs.length) ∧
      (∀ e ∈ (runPre f fs i seen).1, e.facts? = some f)
  | [], i, seen => ⟨0, by simp [runPre]⟩
  | k :: rest, i, seen => by
    cases k with
    | failPre => exact ⟨1, by simp [runPre, Event.tag, Event.facts?, List.range']⟩
    | failPreER st => exact ⟨1, by simp [runPre, Event.tag, Event.facts?, List.range']⟩
    | ctx =>
      obtain ⟨k', hk, ht, hn, hf⟩ := runPre_shape f rest (i + 1) (seen ++ [i])
      refine ⟨k' + 1, by simp; omega, ?_, ?_, ?_⟩
      · simp only [runPre, List.map_cons, Event.tag, ht, List.range'_succ]
      · intro h; simp only [runPre] at h; simp [hn h]
      · intro e he
        simp only [runPre, List.mem_cons] at he
        rcases he with rfl | he
        · rfl
        · exact hf e he
    | pass =>
      obtain ⟨k', hk, ht, hn, hf⟩ := runPre_shape f rest (i + 1) seen
      refine ⟨k' + 1, by simp; omega, ?_, ?_, ?_⟩
      · simp only [runPre, List.map_cons, Event.tag, ht, List.range'_succ]
      · intro h; simp only [runPre] at h; simp [hn h]
      · intro e he
        simp only [runPre, List.mem_cons] at he
        rcases he with rfl | he
        · rfl
        · exact hf e he
    | failPost =>
      obtain ⟨k', hk, ht, hn, hf⟩ := runPre_shape f rest (i + 1) seen
      refine ⟨k' + 1, by simp; omega, ?_, ?_, ?_⟩
      · simp only [runPre, List.map_cons, Event.tag, ht, List.range'_succ]
      · intro h; simp only [runPre] at h; simp [hn h]
      · intro e he
        simp only [runPre, List.mem_cons] at he
        rcases he with rfl | he
        · rfl
        · exact hf e he

theorem runPostRev_shape (seen : List Nat) : ∀ (l : List (Nat × FilterKind)),
    ∃ m, m ≤ l.length ∧ (runPostRev seen l).1.map Event.tag = (l.take m).map (fun p => Tag.post p.1) ∧
      ((runPostRev seen l).2 = none → m = l.length)
  | [] => ⟨0, by simp [runPostRev]⟩
  | (i, k) :: rest => by
    by_cases hk : k = .failPost
    · exact ⟨1, by simp [runPostRev, hk, Event.tag]⟩
    · obtain ⟨m, hm, ht, hn⟩ := runPostRev_shape seen rest
      refine ⟨m + 1, by simp; omega, ?_, ?_⟩
      · simp [runPostRev, hk, Event.tag, ht]
      · intro h; simp only [runPostRev, hk, if_false] at h; simp [hn h]

theorem indexed_fst {α} : ∀ (l : List α) (i : Nat), (indexed l i).map Prod.fst = List.range' i l.length
  | [], _ => rfl
  | _ :: rest, i => by simp [indexed, indexed_fst rest (i + 1), List.range'_succ]

theorem runPost_shape (fs : List FilterKind) (seen : List Nat) :
    ∃ m, m ≤ fs.length ∧ (runPost fs seen).1.map Event.tag = ((List.range fs.length).reverse.take m).map Tag.post ∧
      ((runPost fs seen).2 = none → m = fs.length) := by
  obtain ⟨m, hm, ht, hn⟩ := runPostRev_shape seen (indexed fs 0).reverse
  have hlen : (indexed fs 0).reverse.length = fs.length := by
    have := congrArg List.length (indexed_fst fs 0)
    simpa using this
  refine ⟨m, by omega, ?_, fun h => by rw [hn h, hlen]⟩
  simp only [runPost, ht]
  have : ((indexed fs 0).reverse.take m).map (fun p => Tag.post p.1) =
      ((((indexed fs 0).map Prod.fst).reverse).take m).map Tag.post := by
    rw [← List.map_reverse, ← List.map_take, List.map_map]; rfl
  rw [this, indexed_fst, List.range_eq_range']


def refusesBefore : FilterKind → Bool
  | .failPre | .failPreER _ => true
  | _ => false

theorem runPre_none (f : Facts) : ∀ (fs : List FilterKind) (i : Nat) (seen : List Nat),
    fs.any refusesBefore = false → (runPre f fs i seen).2.2 = none
  | [], _, _, _ => rfl
  | k :: rest, i, seen, h => by
    simp only [List.any_cons, Bool.or_eq_false_iff] at h
    cases k <;> simp_all [runPre, refusesBefore, runPre_none f rest]

theorem runPostRev_none (seen : List Nat) : ∀ (l : List (Nat × FilterKind)),
    l.any (fun p => p.2 == .failPost) = false → (runPostRev seen l).2 = none
  | [], _ => rfl
  | (i, k) :: rest, h => by
    simp only [List.any_cons, Bool.or_eq_false_iff, beq_eq_false_iff_ne, ne_eq] at h
    simp [runPostRev, h.1, runPostRev_none seen rest h.2]

theorem indexed_snd {α} : ∀ (l : List α) (i : Nat), (indexed l i).map Prod.snd = l
  | [], _ => rfl
  | _ :: rest, i => by simp [indexed, indexed_snd rest (i + 1)]

theorem runPost_none (fs : List FilterKind) (seen : List Nat) (h : fs.any (· == .failPost) = false) :
    (runPost fs seen).2 = none := by
  apply runPostRev_none
  rw [List.any_reverse]
  have : (indexed fs 0).any (fun p => p.2 == .failPost) = ((indexed fs 0).map Prod.snd).any (· == .failPost) := by
    rw [List.any_map]; rfl
  rw [this, indexed_snd]; exact h

/-- the resource method is reached once the filters let the request through: the closure's decoding
succeeds, which for an action includes that the number of entity keys is the one its level needs
(finding: `receive` does not check entity presence for actions, the generated path decoder does) -/
def reaches (f : Facts) (ownKey hasEntity : Bool) (req : Req) : Bool :=
  !(f.method = .action && ownKey != hasEntity) && req.decodes.contains f.method

/-- the events of a routed request, whatever fails on the way -/
theorem serveSegs_routed_shape (C : Consts) (V : String → Bool) (h : Handler) (req : Req)
    (f : Facts) (ownKey hasEntity : Bool) (hr : routeX C V h.roots req = .routed f ownKey hasEntity) :
    ∃ (k m : Nat) (mid : List Event), k ≤ h.filters.length ∧ m ≤ h.filters.length ∧
      (serveSegs C V h req).events.map Event.tag =
        (List.range k).map Tag.pre ++ mid.map Event.tag ++ ((List.range h.filters.length).reverse.take m).map Tag.post ∧
      (mid = [] ∨ ∃ s, mid = [.invoke f s]) ∧
      (mid ≠ [] → k = h.filters.length ∧ reaches f ownKey hasEntity req = true) ∧
      (m ≠ 0 → mid ≠ [] ∧ req.implOk = true) ∧
      (∀ e ∈ (serveSegs C V h req).events, e.facts? = none ∨ e.facts? = some f) ∧
      (h.filters.any refusesBefore = false → k = h.filters.length ∧
        (reaches f ownKey hasEntity req = true → mid ≠ [] ∧
          (req.implOk = true → h.filters.any (· == .failPost) = false → m = h.filters.length))) := by
  obtain ⟨k, hk, hkt, hkn, hkf⟩ := runPre_shape f h.filters 0 []
  simp only [serveSegs, hr]
  rcases hpre : runPre f h.filters 0 [] with ⟨pre, seen, r⟩
  rw [hpre] at hkt hkn hkf
  simp only at hkt hkn hkf
  have hkt' : pre.map Event.tag = (List.range k).map Tag.pre := by rw [hkt, List.range_eq_range']
  have hnone : h.filters.any refusesBefore = false → r = none := by
    intro hh; have := runPre_none f h.filters 0 [] hh; rw [hpre] at this; exact this
  cases r with
  | some e =>
    refine ⟨k, 0, [], hk, Nat.zero_le _, ?_, Or.inl rfl, by simp, by simp, ?_, ?_⟩
    · cases e <;> simp [respond, hkt']
    · intro ev hev
      have : ev ∈ pre := by cases e <;> simpa [respond] using hev
      exact Or.inr (hkf ev this)
    · intro hh; exact absurd (hnone hh) (by simp)
  | none =>
    have hkn' : k = h.filters.length := hkn rfl
    simp only
    by_cases hpanic : (f.method = .action && ownKey != hasEntity) = true
    · -- the generated path decoder refuses the number of keys
      refine ⟨k, 0, [], hk, Nat.zero_le _, ?_, Or.inl rfl, by simp, by simp, ?_, ?_⟩
      · simp [runHandler, hpanic, respond, hkt']
      · intro ev hev
        have : ev ∈ pre := by simpa [runHandler, hpanic, respond] using hev
        exact Or.inr (hkf ev this)
      · intro _; exact ⟨hkn', by simp [reaches, hpanic]⟩
    · have hpanic' : (f.method = .action && ownKey != hasEntity) = false := by simpa using hpanic
      by_cases hdec : req.decodes.contains f.method = true
      · have hmem : f.method ∈ req.decodes := by simpa using hdec
        have hreach : reaches f ownKey hasEntity req = true := by simp [reaches, hpanic', hmem]
        by_cases himpl : req.implOk = true
        · -- the implementation ran and succeeded: post filters
          obtain ⟨m, hm, hmt, hmn⟩ := runPost_shape h.filters seen
          rcases hpost : runPost h.filters seen with ⟨post, pr⟩
          rw [hpost] at hmt hmn
          simp only at hmt hmn
          have hev : ∀ pr', (respond C (pre ++ [Event.invoke f seen] ++ post) pr' (C.stSuccess f.method)).events =
              pre ++ [Event.invoke f seen] ++ post := by
            intro pr'; cases pr' with
            | none => rfl
            | some e => cases e <;> rfl
          refine ⟨k, m, [.invoke f seen], hk, hm, ?_, Or.inr ⟨seen, rfl⟩, fun _ => ⟨hkn', hreach⟩,
            fun _ => ⟨by simp, himpl⟩, ?_, ?_⟩
          · simp only [runHandler, hpanic', hdec, himpl, Bool.false_eq_true, if_false, Bool.not_true]
            cases pr with
            | none => simp [respond, hkt', hmt, Event.tag]
            | some e => cases e <;> simp [respond, hkt', hmt, Event.tag]
          · intro ev hev'
            simp only [runHandler, hpanic', hdec, himpl, Bool.false_eq_true, if_false, Bool.not_true] at hev'
            have hmem : ev ∈ pre ++ [Event.invoke f seen] ++ post := by
              cases pr with
              | none => simpa [respond] using hev'
              | some e => cases e <;> simpa [respond] using hev'
            simp only [List.mem_append, List.mem_singleton] at hmem
            rcases hmem with (hp | rfl) | hp
            · exact Or.inr (hkf ev hp)
            · exact Or.inr rfl
            · -- a post event carries no facts
              have : ev.tag ∈ post.map Event.tag := List.mem_map_of_mem hp
              rw [hmt] at this
              obtain ⟨i, _, hi⟩ := List.mem_map.mp this
              cases ev <;> simp_all [Event.tag, Event.facts?]
          · intro _
            refine ⟨hkn', fun _ => ⟨by simp, fun _ hnp => ?_⟩⟩
            have := runPost_none h.filters seen hnp
            rw [hpost] at this
            exact hmn this
        · -- the implementation failed
          have himpl' : req.implOk = false := by simpa using himpl
          refine ⟨k, 0, [.invoke f seen], hk, Nat.zero_le _, ?_, Or.inr ⟨seen, rfl⟩, fun _ => ⟨hkn', hreach⟩,
            by simp, ?_, ?_⟩
          · simp [runHandler, hpanic', hmem, himpl', respond, hkt', Event.tag]
          · intro ev hev
            have : ev ∈ pre ++ [Event.invoke f seen] := by
              simpa [runHandler, hpanic', hmem, himpl', respond] using hev
            simp only [List.mem_append, List.mem_singleton] at this
            rcases this with hp | rfl
            · exact Or.inr (hkf ev hp)
            · exact Or.inr rfl
          · intro _; exact ⟨hkn', fun _ => ⟨by simp, fun hi => by simp [himpl'] at hi⟩⟩
      · -- keys, parameters or body do not decode
        have hdec' : req.decodes.contains f.method = false := by simpa using hdec
        have hnmem : ¬ f.method ∈ req.decodes := by simpa using hdec' 
        refine ⟨k, 0, [], hk, Nat.zero_le _, ?_, Or.inl rfl, by simp, by simp, ?_, ?_⟩
        · simp [runHandler, hpanic', hnmem, respond, hkt']
        · intro ev hev
          have : ev ∈ pre := by simpa [runHandler, hpanic', hnmem, respond] using hev
          exact Or.inr (hkf ev this)
        · intro _; exact ⟨hkn', by simp [reaches, hnmem]⟩

/-! ## the string level -/

theorem splitSlash_ne_nil : ∀ cs, splitSlash cs ≠ []
  | [] => by simp [splitSlash]
  | c :: cs => by
    simp only [splitSlash]
    split
    · simp
    · split <;> simp

def noSlash (s : String) : Bool := !s.toList.contains '/'

theorem splitSlash_noSlash : ∀ (cs : List Char), cs.contains '/' = false → splitSlash cs = [cs]
  | [], _ => rfl
  | c :: cs, h => by
    simp only [List.contains_cons, Bool.or_eq_false_iff, beq_eq_false_iff_ne, ne_eq] at h
    have hc : c ≠ '/' := fun e => h.1 e.symm
    simp [splitSlash, splitSlash_noSlash cs h.2, hc]

theorem splitSlash_append (a : List Char) (ha : a.contains '/' = false) (rest : List Char) :
    splitSlash (a ++ '/' :: rest) = a :: splitSlash rest := by
  induction a with
  | nil =>
    simp only [List.nil_append, splitSlash]
    cases hs : splitSlash rest with
    | nil => exact absurd hs (splitSlash_ne_nil rest)
    | cons seg more => simp
  | cons c cs ih =>
    simp only [List.contains_cons, Bool.or_eq_false_iff, beq_eq_false_iff_ne, ne_eq] at ha
    have hc : c ≠ '/' := fun e => ha.1 e.symm
    simp [splitSlash, ih ha.2, hc]

/-- splitting the joined path gives the segments back -/
theorem splitSlash_joinSlash : ∀ (segs : List String), segs ≠ [] → segs.all noSlash = true →
    (splitSlash (joinSlash segs)).map String.ofList = segs
  | [], h, _ => absurd rfl h
  | [s], _, h => by
    simp only [List.all_cons, List.all_nil, Bool.and_true, noSlash, Bool.not_eq_eq_eq_not, Bool.not_true] at h
    simp [joinSlash, splitSlash_noSlash _ h]
  | s :: s2 :: rest, _, h => by
    simp only [List.all_cons, Bool.and_eq_true] at h
    have hs : s.toList.contains '/' = false := by simpa [noSlash] using h.1
    have ih := splitSlash_joinSlash (s2 :: rest) (by simp) (by simp [List.all_cons, h.2])
    simp only [joinSlash, splitSlash_append _ hs, List.map_cons, ih]
    simp

/-! ## not-routed requests -/

theorem route_routed_iff (C : Consts) (V : String → Bool) (roots : List Node) (req : Req) (f : Facts) :
    route C V roots req = .routed f ↔ ∃ o e, routeX C V roots req = .routed f o e := by
  unfold route
  cases routeX C V roots req <;> simp

theorem serveSegs_unrouted (C : Consts) (V : String → Bool) (h : Handler) (req : Req) (st : Nat)
    (hr : route C V h.roots req = .reject st) :
    (serveSegs C V h req).events = [] ∧ (serveSegs C V h req).status = st := by
  unfold route at hr
  unfold serveSegs
  cases hx : routeX C V h.roots req <;> rw [hx] at hr <;> simp_all [respond]

/-! ## `Handler()` -/

mutual
theorem cloneNode_eq : (n : Node) → cloneNode n = n
  | .mk _ _ _ _ _ subs => by simp [cloneNode, cloneNodes_eq subs]
theorem cloneNodes_eq : (l : List Node) → cloneNode.cloneNodes l = l
  | [] => by simp [cloneNode.cloneNodes]
  | n :: rest => by simp [cloneNode.cloneNodes, cloneNode_eq n, cloneNodes_eq rest]
end

theorem handler_roots (s : Server) : s.handler.roots = s.roots := by
  simp [Server.handler, cloneNodes_eq]

theorem register_pfx (s : Server) (segs : List Seg) (r : Reg) : (s.register segs r).1.pfx = s.pfx := by
  simp [Server.register]

theorem register_filters (s : Server) (segs : List Seg) (r : Reg) : (s.register segs r).1.filters = s.filters := by
  simp [Server.register]

/-- all registrations of a list, in order -/
def registerAll (s : Server) : List (List Seg × Reg) → Server
  | [] => s
  | (segs, r) :: rest => registerAll (s.register segs r).1 rest

theorem registerAll_pfx (s : Server) : ∀ regs, (registerAll s regs).pfx = s.pfx := by
  intro regs
  induction regs generalizing s with
  | nil => rfl
  | cons x rest ih => obtain ⟨segs, r⟩ := x; simp [registerAll, ih, register_pfx]

/-! ## mounting -/

theorem slash_toList : ("/" : String).toList = ['/'] := by decide

theorem stripPrefix_append : ∀ (p rest : List Char), stripPrefix p (p ++ rest) = some rest
  | [], _ => rfl
  | c :: p, rest => by simp [stripPrefix, stripPrefix_append p rest]

/-- a handler whose prefix is `pfx`, asked for `pfx` + the segments joined by `/` -/
theorem serveHTTP_under_prefix (C : Consts) (V : String → Bool) (h : Handler) (req : Req) (urlPath : String)
    (hne : req.path ≠ []) (hns : req.path.all noSlash = true) :
    serveHTTP C V h ⟨String.ofList (h.pfx.toList ++ joinSlash req.path), urlPath, req⟩ = serveSegs C V h req := by
  simp only [serveHTTP, String.toList_ofList, stripPrefix_append, splitSlash_joinSlash _ hne hns]

theorem serveHTTP_bare (C : Consts) (V : String → Bool) (h : Handler) (req : Req) (urlPath : String)
    (hp : h.pfx = "/") (hne : req.path ≠ []) (hns : req.path.all noSlash = true) :
    serveHTTP C V h ⟨String.ofList ('/' :: joinSlash req.path), urlPath, req⟩ = serveSegs C V h req := by
  have := serveHTTP_under_prefix C V h req urlPath hne hns
  rw [hp, slash_toList] at this
  exact this

theorem registerAll_filters (s : Server) : ∀ regs, (registerAll s regs).filters = s.filters := by
  intro regs
  induction regs generalizing s with
  | nil => rfl
  | cons x rest ih => obtain ⟨segs, r⟩ := x; simp [registerAll, ih, register_filters]

theorem registerAll_root (s s' : Server) (h : s.root = s'.root) : ∀ regs, (registerAll s regs).root = (registerAll s' regs).root := by
  intro regs
  induction regs generalizing s s' with
  | nil => exact h
  | cons x rest ih =>
    obtain ⟨segs, r⟩ := x
    simp only [registerAll]
    apply ih
    simp [Server.register, h]

/-- a prefixed server and a plain one, given the same filters and registrations, differ in the
stored prefix only -/
theorem prefixed_handler (C : Consts) (p : String) (fs : List FilterKind) (regs : List (List Seg × Reg)) :
    (registerAll (newPrefixedServer C p fs) regs).handler =
      { (registerAll (newServer C fs) regs).handler with pfx := (newPrefixedServer C p fs).pfx } := by
  have hr := registerAll_root (newPrefixedServer C p fs) (newServer C fs) rfl regs
  simp only [Server.handler, Server.roots, registerAll_pfx, registerAll_filters, hr]
  simp [newServer, newPrefixedServer]

theorem normalise_slash : normalisePrefix "/" = "/" := by decide

/-! ### ServeMux -/

def MuxResult.outcome : MuxResult → Option Outcome
  | .redirect => some ⟨301, [], []⟩
  | .notFound => some ⟨404, [], []⟩
  | .handled o => some o
  | .unmodelled => none

theorem any_name_eq (r : String) : ∀ (roots : List Node),
    (roots.any fun n => n.name == r) = (findSub r roots).isSome
  | [] => rfl
  | n :: rest => by
    simp only [List.any_cons, findSub, any_name_eq r rest]
    by_cases h : (n.name == r) = true
    · simp [h]
    · have h' : (n.name == r) = false := by simpa using h
      simp [h']

theorem splitSlash_slash : (splitSlash ['/']).map String.ofList = ["", ""] := by decide

/-- through a ServeMux filled by `AddToMux` (exact and subtree pattern per root resource), every
request whose path has no empty or dot segment is answered as by the bare handler -/
theorem mux_all (C : Consts) (V : String → Bool) (s : Server) (req : Req)
    (hp : s.pfx = "/") (ht : C.muxPatterns = [false, true]) (hne : req.path ≠ [])
    (hns : req.path.all noSlash = true) (hseg : ∀ x ∈ req.path, x ≠ "" ∧ x ≠ "." ∧ x ≠ "..") :
    ((addToMux C s).serve C V ⟨String.ofList ('/' :: joinSlash req.path), String.ofList ('/' :: joinSlash req.path), req⟩).outcome =
      some (serveSegs C V s.handler req) := by
  obtain ⟨r, rest, hpath⟩ : ∃ r rest, req.path = r :: rest := by
    cases hq : req.path with
    | nil => exact absurd hq hne
    | cons r rest => exact ⟨r, rest, rfl⟩
  have hbare := serveHTTP_bare C V s.handler req (String.ofList ('/' :: joinSlash req.path))
    (by simp [Server.handler, hp]) hne hns
  have hsplit := splitSlash_joinSlash req.path hne hns
  have hdots : (req.path.any fun x => x == "." || x == "..") = false := by
    rw [List.any_eq_false]
    intro x hx
    have := hseg x hx
    simp [this.2.1, this.2.2]
  have hempty : (req.path.dropLast.any fun x => x == "") = false := by
    rw [List.any_eq_false]
    intro x hx
    have := hseg x (List.dropLast_subset _ hx)
    simp [this.1]
  simp only [Mux.serve, String.toList_ofList, stripPrefix, if_true, hsplit, hdots, hempty, Bool.false_eq_true,
    if_false, addToMux, hp, slash_toList, splitSlash_slash, ht]
  simp only [List.filter, bne_self_eq_false, List.nil_append, List.any_flatMap, List.map_cons, List.map_nil,
    List.any_cons, List.any_nil, Bool.or_false, Bool.not_false, Bool.true_and, Bool.not_true, Bool.false_and,
    Bool.false_or, Bool.or_self, hbare]
  -- exact pattern: the path is the root itself; subtree pattern: the path starts with the root
  have hexact : ∀ n : Node, ([n.name] == req.path) = (n.name == r && rest.isEmpty) := by
    intro n; rw [hpath]; cases rest <;> simp
  have hsub : ∀ n : Node, isPrefixSegs [n.name] req.path = (n.name == r) := by
    intro n; rw [hpath]; simp [isPrefixSegs]
  simp only [hexact, hsub]
  cases hf : findSub r s.roots with
  | some n =>
    have hany : (s.roots.any fun n => n.name == r) = true := by rw [any_name_eq, hf]; rfl
    by_cases hre : rest.isEmpty = true
    · simp [hre, hany, MuxResult.outcome]
    · have hre' : rest.isEmpty = false := by simpa using hre
      simp [hre', hany, MuxResult.outcome]
  | none =>
    have hany : (s.roots.any fun n => n.name == r) = false := by rw [any_name_eq, hf]; rfl
    have hany2 : ∀ b : Bool, (s.roots.any fun n => n.name == r && b) = false := by
      intro b
      rw [List.any_eq_false] at hany ⊢
      intro x hx; simp [hany x hx]
    simp only [hany, hany2, Bool.false_eq_true, if_false, MuxResult.outcome]
    simp [serveSegs, routeX, hpath, handler_roots, hf, Consts.stRootNotFound]

/-! ## the specification's decision, unfolded -/

theorem decide_routed_iff (V : String → Bool) (roots : List Node) (req : Req) (f : Facts) :
    Spec.decide V roots req = .routed f ↔ Routable V roots req f := by
  unfold Spec.decide Routable
  cases hl : locate roots req.path with
  | none => simp
  | some t =>
    by_cases hk : t.keys.all V = true
    · by_cases hq : (req.query.all fun kv => V kv.2) = true
      · simp only [hk, hq, Bool.not_true, Bool.or_self, Bool.false_eq_true, if_false]
        cases hm : methodOf t req with
        | none =>
          simp only []
          constructor
          · intro h; cases h
          · rintro ⟨t', m, ht, _, _, hm', _⟩
            cases ht; rw [hm] at hm'; cases hm'
        | some m =>
          cases ha : admitted t m req with
          | none =>
            simp only [ha]
            constructor
            · intro h; cases h
            · rintro ⟨t', m', ht, _, _, hm', ha'⟩
              cases ht; rw [hm] at hm'; cases hm'; rw [ha] at ha'; cases ha'
          | some f' =>
            simp only [ha]
            constructor
            · intro h
              cases h
              exact ⟨t, m, rfl, hk, trivial, hm, ha⟩
            · rintro ⟨t', m', ht, _, _, hm', ha'⟩
              cases ht; rw [hm] at hm'; cases hm'; rw [ha] at ha'; cases ha'; rfl
      · have hq' : (req.query.all fun kv => V kv.2) = false := by simpa using hq
        simp only [hk, hq', Bool.not_true, Bool.not_false, Bool.or_true, if_true]
        constructor
        · intro h; cases h
        · rintro ⟨t', m, ht, _, hq'', _, _⟩
          exact absurd hq'' (by simp)
    · have hk' : t.keys.all V = false := by simpa using hk
      simp only [hk', Bool.not_false, Bool.true_or, if_true]
      constructor
      · intro h; cases h
      · rintro ⟨t', m, ht, hk'', _, _, _⟩
        cases ht; exact absurd (hk''.symm.trans hk') (by decide)

/-! ## statuses of the not-routed branches -/

theorem resolveWith_reject (C : Consts) (hC : Tied C) (n : Node) (rp : List Seg) (ks : List String) (hasEntity : Bool)
    (verb : Verb) (m0 : Method) (finder action : String) (ids : Bool) (st : Nat)
    (h : (resolveWith C n rp ks hasEntity verb m0 finder action ids).decision C = .reject st) : st = 400 := by
  have key : ∀ m, (lookupHandler C n rp ks hasEntity m finder action).decision C = .reject st → st = 400 := by
    intro m hm
    unfold lookupHandler at hm
    split at hm
    · split at hm
      · simp at hm
      · simp only [decision_errResp, Decision.reject.injEq] at hm; rw [← hm, hC.stNoFinder]
    · split at hm
      · split at hm
        · simp at hm
        · simp only [decision_errResp, Decision.reject.injEq] at hm; rw [← hm, hC.stNoAction]
      · split at hm
        · simp at hm
        · simp only [decision_errResp, Decision.reject.injEq] at hm; rw [← hm, hC.stNoMethod]
  have chk : ∀ m, (finish C n rp ks hasEntity finder action (checkEntity C m hasEntity)).decision C = .reject st → st = 400 := by
    intro m hm
    unfold checkEntity at hm
    split at hm
    · simp only [finish, decision_errResp, Decision.reject.injEq] at hm; rw [← hm, hC.stNoEntity]
    · split at hm
      · simp only [finish, decision_errResp, Decision.reject.injEq] at hm; rw [← hm, hC.stEntityForbidden]
      · exact key m hm
  unfold resolveWith at h
  cases hc : n.isCollection
  · cases hasEntity
    · simp only [hc, Bool.false_eq_true, if_false, finish] at h
      exact key _ h
    · simp only [hc, Bool.false_eq_true, if_false, if_true, finish, decision_errResp, Decision.reject.injEq] at h
      rw [← h, hC.stEntityOnSimple]
  · simp only [hc, if_true] at h
    split at h
    · split at h
      · exact chk _ h
      · simp only [finish, decision_errResp, Decision.reject.injEq] at h; rw [← h, hC.stPostNeedsHeader]
    · exact chk _ h

/-- the walk ends on a resource or fails with one of its two statuses -/
theorem walk_err_status (C : Consts) (V : String → Bool) :
    ∀ (len : Nat) (rest : List String), rest.length ≤ len →
      ∀ (n : Node) (rp : List Seg) (ks : List String) (x : String) (st : Nat),
      walk C V n rp ks (x :: rest) = .err st → st = C.stInvalidSegment ∨ st = C.stUnknownSub := by
  intro len
  induction len with
  | zero =>
    intro rest hlen n rp ks x st h
    have : rest = [] := List.eq_nil_of_length_eq_zero (by omega)
    subst this
    cases hc : n.isCollection <;> simp [walk, hc] at h
  | succ len ih =>
    intro rest hlen n rp ks x st h
    match rest, hlen, h with
    | [], _, h => cases hc : n.isCollection <;> simp [walk, hc] at h
    | [a], _, h =>
      rw [walk.eq_3] at h
      cases hc : n.isCollection
      · simp only [hc, Bool.false_eq_true, if_false] at h
        cases hf : findSub a n.subs with
        | none => simp only [hf, Located.err.injEq] at h; exact Or.inr h.symm
        | some sub =>
          simp only [hf] at h
          exact ih [] (by simp) sub _ _ a st h
      · simp only [hc, if_true] at h
        split at h
        · simp only [Located.err.injEq] at h; exact Or.inl h.symm
        · cases h
    | a :: s :: rest2, hlen, h =>
      rw [walk.eq_4] at h
      cases hc : n.isCollection
      · simp only [hc, Bool.false_eq_true, if_false] at h
        cases hf : findSub a n.subs with
        | none => simp only [hf, Located.err.injEq] at h; exact Or.inr h.symm
        | some sub =>
          simp only [hf] at h
          exact ih (s :: rest2) (by simp at hlen ⊢; omega) sub _ _ a st h
      · simp only [hc, if_true] at h
        split at h
        · simp only [Located.err.injEq] at h; exact Or.inl h.symm
        · cases hf : findSub s n.subs with
          | none => simp only [hf, Located.err.injEq] at h; exact Or.inr h.symm
          | some sub =>
            simp only [hf] at h
            exact ih rest2 (by simp at hlen; omega) sub _ _ s st h

/-- every refusal is a 404 or a 400 -/
theorem reject_4xx (C : Consts) (hC : Tied C) (V : String → Bool) (roots : List Node) (req : Req) (st : Nat)
    (h : route C V roots req = .reject st) : st = 404 ∨ st = 400 := by
  cases hp : req.path with
  | nil => simp [route, routeX, hp, Consts.stRootNotFound] at h; exact Or.inl h.symm
  | cons s rest =>
    cases hf : findSub s roots with
    | none => simp [route, routeX, hp, hf, Consts.stRootNotFound] at h; exact Or.inl h.symm
    | some sub =>
      cases hw : walk C V sub [] [] (s :: rest) with
      | err st' =>
        simp [route, routeX, hp, hf, hw] at h
        subst h
        rcases walk_err_status C V rest.length rest (Nat.le_refl _) sub [] [] s st' hw with h1 | h1
        · rw [h1, hC.stInvalidSegment]; exact Or.inr rfl
        · rw [h1, hC.stUnknownSub]; exact Or.inl rfl
      | found n rp ks hk =>
        rw [route_eq_resolve C V roots req s rest sub hp hf _ _ _ _ hw] at h
        by_cases hqv : (req.query.all fun kv => V kv.2) = true
        · simp only [resolve, hqv, Bool.not_true, Bool.false_eq_true, if_false] at h
          exact Or.inr (resolveWith_reject C hC _ _ _ _ _ _ _ _ _ st h)
        · have hqv' : (req.query.all fun kv => V kv.2) = false := by simpa using hqv
          simp [resolve, hqv'] at h
          rw [← h, hC.stInvalidQuery]; exact Or.inr rfl

/-- a refusal is a 404 exactly when the path names no registered resource, and a 400 otherwise
(on requests that do not combine a malformed segment with an unknown resource) -/
theorem reject_status (C : Consts) (hC : Tied C) (V : String → Bool) (roots : List Node) (req : Req) (st : Nat)
    (hs5 : malformedAndUnknown V roots req = false)
    (h : route C V roots req = .reject st) :
    st = if (locate roots req.path).isNone then 404 else 400 := by
  cases hp : req.path with
  | nil =>
    simp [route, routeX, hp, Consts.stRootNotFound] at h
    simp [locate, h]
  | cons s rest =>
    cases hf : findSub s roots with
    | none =>
      simp [route, routeX, hp, hf, Consts.stRootNotFound] at h
      simp [locate, hf, h]
    | some sub =>
      cases hl : locateAt sub rest with
      | none =>
        have hloc : locate roots req.path = none := by simp [locate, hp, hf, hl]
        have hall : req.path.all V = true := by simpa [malformedAndUnknown, hloc] using hs5
        have hvall : ∀ x ∈ rest, V x = true := by
          intro x hx
          exact List.all_eq_true.mp hall x (by rw [hp]; exact List.mem_cons_of_mem _ hx)
        have hw := walk_eq_aux C hC V rest.length rest (Nat.le_refl _) sub [] [] s hvall
        simp only [hl, locatedOf] at hw
        simp [route, routeX, hp, hf, hw] at h
        simp [locate, hf, hl, h]
      | some t =>
        have hw := walk_some C V sub rest t hl [] [] s
        by_cases hkeys : t.keys.all V = true
        · simp only [hkeys, if_true, List.nil_append] at hw
          rw [route_eq_resolve C V roots req s rest sub hp hf _ _ _ _ hw] at h
          by_cases hqv : (req.query.all fun kv => V kv.2) = true
          · simp only [resolve, hqv, Bool.not_true, Bool.false_eq_true, if_false] at h
            have := resolveWith_reject C hC _ _ _ _ _ _ _ _ _ st h
            simp [locate, hf, hl, this]
          · have hqv' : (req.query.all fun kv => V kv.2) = false := by simpa using hqv
            simp [resolve, hqv'] at h
            simp [locate, hf, hl, ← h, hC.stInvalidQuery]
        · have hkeys' : t.keys.all V = false := by simpa using hkeys
          simp only [hkeys', Bool.false_eq_true, if_false] at hw
          simp [route, routeX, hp, hf, hw] at h
          simp [locate, hf, hl, ← h, hC.stInvalidSegment]

/-! ## counting resource calls -/

theorem count_inv_pre (l : List Nat) : (l.map Tag.pre).count Tag.inv = 0 := by
  induction l with
  | nil => rfl
  | cons a rest ih => simp [ih]

theorem count_inv_post (l : List Nat) : (l.map Tag.post).count Tag.inv = 0 := by
  induction l with
  | nil => rfl
  | cons a rest ih => simp [ih]

end Restli.Routing
