import Restli.Model.Routing
import Restli.Spec.Routing
/-! Helper lemmas for C05 (routing). Property statements live in `Props/C05.lean`. -/
namespace Restli.Routing
open Spec

/-! ## the constants the specification pins down -/

/-- what the property text demands of the regenerated constants: the header and parameter names,
the thirteen method names, and the statuses of the not-routed branches (404 for an unknown
sub-resource, 400 for the rest). The status of an invalid key segment is deliberately absent: the
code answers 404 there (finding F20), and the theorems that need 400 carry a guard instead. -/
structure Tied (C : Consts) : Prop where
  methodHeader : C.methodHeader = "X-RestLi-Method"
  mapping : mappingEntries C = Spec.methodTable
  paramFinder : C.paramFinder = "q"
  paramAction : C.paramAction = "action"
  paramIds : C.paramIds = "ids"
  stUnknownSub : C.stUnknownSub = 404
  stPostNeedsHeader : C.stPostNeedsHeader = 400
  stNoEntity : C.stNoEntity = 400
  stEntityForbidden : C.stEntityForbidden = 400
  stNoFinder : C.stNoFinder = 400
  stNoAction : C.stNoAction = 400
  stNoMethod : C.stNoMethod = 400

theorem tied_v2 : Tied constsV2 := by
  constructor <;> decide

theorem tied_root : Tied constsRoot := by
  constructor <;> decide

/-! ## Go maps as association lists -/

theorem lookupLast_eq_lookup {α} (k : String) : (l : List (String × α)) →
    ((l.filter (fun kv => kv.1 == k)).length ≤ 1) → lookupLast k l = (l.find? (fun kv => kv.1 == k)).map (·.2)
  | [], _ => rfl
  | (k', v) :: rest, h => by
    simp only [lookupLast, List.find?]
    by_cases hk : (k' == k) = true
    · -- the head matches: nothing later may
      have hrest : (rest.filter (fun kv => kv.1 == k)) = [] := by
        simp only [List.filter, hk] at h
        have : (List.filter (fun kv => kv.1 == k) rest).length = 0 := by
          simp only [List.length_cons] at h; omega
        exact List.eq_nil_of_length_eq_zero this
      have hnone : lookupLast k rest = none := by
        have h1 : (rest.filter (fun kv => kv.1 == k)).length ≤ 1 := by simp [hrest]
        rw [lookupLast_eq_lookup k rest h1]
        have : rest.find? (fun kv => kv.1 == k) = none := by
          rw [List.find?_eq_none]
          intro x hx hxk
          have : x ∈ rest.filter (fun kv => kv.1 == k) := List.mem_filter.mpr ⟨hx, hxk⟩
          rw [hrest] at this; cases this
        simp [this]
      simp [hnone, hk]
    · have hk' : (k' == k) = false := by simpa using hk
      have h1 : (rest.filter (fun kv => kv.1 == k)).length ≤ 1 := by
        simpa [List.filter, hk'] using h
      rw [lookupLast_eq_lookup k rest h1]
      simp only [hk']
      cases rest.find? (fun kv => kv.1 == k) <;> simp

/-- a table with distinct keys: last binding = first binding -/
theorem lookupLast_eq_lookup_table {α} (k : String) (l : List (String × α))
    (h : (l.map (·.1)).Nodup) : lookupLast k l = l.lookup k := by
  induction l with
  | nil => rfl
  | cons kv rest ih =>
    obtain ⟨k', v⟩ := kv
    simp only [List.map_cons, List.nodup_cons] at h
    simp only [lookupLast, ih h.2, List.lookup]
    by_cases hk : (k == k') = true
    · have : k = k' := by simpa using hk
      subst this
      have : rest.lookup k = none := by
        rw [List.lookup_eq_none_iff]
        intro p hp
        simp only [bne_iff_ne, ne_eq]
        intro hpk
        apply h.1
        exact List.mem_map.mpr ⟨p, hp, hpk.symm⟩
      simp [this]
    · have hk' : (k == k') = false := by simpa using hk
      have hk2 : (k' == k) = false := by
        simp only [beq_eq_false_iff_ne, ne_eq] at hk' ⊢
        exact fun h => hk' h.symm
      simp only [hk', hk2]
      cases rest.lookup k <;> simp
/-! ## `MethodNameMapping` and the walk -/

theorem lookup_mem_snd {α β} [BEq α] (k : α) (v : β) : (l : List (α × β)) → l.lookup k = some v → v ∈ l.map (·.2)
  | [], h => by simp [List.lookup] at h
  | (k', v') :: rest, h => by
    simp only [List.lookup] at h
    split at h
    · simp only [Option.some.injEq] at h; simp [h]
    · simp only [List.map_cons, List.mem_cons]; exact Or.inr (lookup_mem_snd k v rest h)

theorem nameMapping_eq (C : Consts) (hC : Tied C) (s : String) :
    nameMapping C s = (methodNamed s).getD .unknown := by
  unfold nameMapping methodNamed
  rw [hC.mapping, lookupLast_eq_lookup_table _ _ (by decide)]

theorem methodNamed_ne_unknown (s : String) : methodNamed s ≠ some .unknown := by
  unfold methodNamed
  intro h
  have := lookup_mem_snd _ _ _ h
  revert this
  decide

theorem methodNamed_empty : methodNamed "" = none := by decide

/-- what the walk of the model returns, in terms of the specification's `locateAt` -/
def locatedOf (rp : List Seg) (ks : List String) : Option Target → Located
  | some t => .found t.node (rp ++ t.rpath) (ks ++ t.keys) t.hasKey
  | none => .err 404

theorem locatedOf_under (rp : List Seg) (ks : List String) (s : Seg) (k : String) (o : Option Target) :
    locatedOf rp ks (o.map (Target.under s (some k))) = locatedOf (rp ++ [s]) (ks ++ [k]) o := by
  cases o <;> simp [locatedOf, Target.under]

theorem locatedOf_under_none (rp : List Seg) (ks : List String) (s : Seg) (o : Option Target) :
    locatedOf rp ks (o.map (Target.under s none)) = locatedOf (rp ++ [s]) ks o := by
  cases o <;> simp [locatedOf, Target.under]

theorem walk_eq_aux (C : Consts) (hC : Tied C) (V : String → Bool) :
    ∀ (len : Nat) (rest : List String), rest.length ≤ len →
      ∀ (n : Node) (rp : List Seg) (ks : List String) (x : String),
      (∀ s ∈ rest, V s = true) →
      walk C V n rp ks (x :: rest) = locatedOf rp ks (locateAt n rest) := by
  intro len
  induction len with
  | zero =>
    intro rest hlen n rp ks x _
    have : rest = [] := List.eq_nil_of_length_eq_zero (by omega)
    subst this
    cases hc : n.isCollection <;> simp [walk, locateAt, locatedOf, hc]
  | succ len ih =>
    intro rest hlen n rp ks x hv
    match rest, hlen, hv with
    | [], _, _ => cases hc : n.isCollection <;> simp [walk, locateAt, locatedOf, hc]
    | [a], _, hv =>
      have hva : V a = true := hv a (List.mem_cons_self ..)
      cases hc : n.isCollection
      · simp only [walk, locateAt, hc, Bool.false_eq_true, if_false]
        cases hf : findSub a n.subs with
        | none => simp [locatedOf, hC.stUnknownSub]
        | some sub =>
          cases hs : sub.isCollection <;> simp [locatedOf, Target.under, walk, hs]
      · simp [walk, locateAt, locatedOf, hc, hva]
    | a :: s :: rest2, hlen, hv =>
      cases hc : n.isCollection
      · -- simple resource: `a` names a sub-resource
        simp only [walk, locateAt, hc, Bool.false_eq_true, if_false]
        cases hf : findSub a n.subs with
        | none => simp [locatedOf, hC.stUnknownSub]
        | some sub =>
          simp only [Option.bind_some]
          rw [locatedOf_under_none]
          exact ih (s :: rest2) (by simp at hlen ⊢; omega) sub _ _ a
            (fun t ht => hv t (List.mem_cons_of_mem _ ht))
      · -- collection: `a` is the key
        have hva : V a = true := hv a (List.mem_cons_self ..)
        simp only [walk, locateAt, hc, if_true, hva, Bool.not_true, Bool.false_eq_true, if_false]
        cases hf : findSub s n.subs with
        | none => simp [locatedOf, hC.stUnknownSub]
        | some sub =>
          simp only [Option.bind_some]
          rw [locatedOf_under]
          exact ih rest2 (by simp at hlen; omega) sub _ _ s
            (fun t ht => hv t (List.mem_cons_of_mem _ (List.mem_cons_of_mem _ ht)))
/-! ## trees that `Register*` can build -/

mutual
/-- no handler for `Method_Unknown` (the exported `Register*` functions cannot create one) and no
finder or action with an empty name (a restspec cannot declare one) -/
def nodeOk : Node → Bool
  | .mk _ _ ms fs as subs =>
    !ms.contains .unknown && !fs.contains "" && (as.lookup "").isNone && nodesOk subs
def nodesOk : List Node → Bool
  | [] => true
  | n :: rest => nodeOk n && nodesOk rest
end

theorem nodeOk_methods (n : Node) (h : nodeOk n = true) : n.methods.contains .unknown = false := by
  cases n; simp_all [nodeOk, Node.methods]
theorem nodeOk_finders (n : Node) (h : nodeOk n = true) : n.finders.contains "" = false := by
  cases n; simp_all [nodeOk, Node.finders]
theorem nodeOk_actions (n : Node) (h : nodeOk n = true) : n.actions.lookup "" = none := by
  cases n; simp_all [nodeOk, Node.actions]
theorem nodeOk_subs (n : Node) (h : nodeOk n = true) : nodesOk n.subs = true := by
  cases n; simp_all [nodeOk, Node.subs]

theorem findSub_ok (s : String) : (l : List Node) → nodesOk l = true → ∀ n, findSub s l = some n → nodeOk n = true
  | [], _, n, h => by simp [findSub] at h
  | m :: rest, hl, n, h => by
    simp only [nodesOk, Bool.and_eq_true] at hl
    simp only [findSub] at h
    split at h
    · simp only [Option.some.injEq] at h; subst h; exact hl.1
    · exact findSub_ok s rest hl.2 n h

/-- induction along the path a target was located by -/
theorem locateAt_ind (P : Node → List String → Target → Prop)
    (here : ∀ n, P n [] ⟨n, [n.seg], [], false⟩)
    (hereKey : ∀ n x, n.isCollection = true → P n [x] ⟨n, [n.seg], [x], true⟩)
    (belowColl : ∀ n x s rest sub t, n.isCollection = true → findSub s n.subs = some sub →
      locateAt sub rest = some t → P sub rest t → P n (x :: s :: rest) (t.under n.seg (some x)))
    (belowSimple : ∀ n x rest sub t, n.isCollection = false → findSub x n.subs = some sub →
      locateAt sub rest = some t → P sub rest t → P n (x :: rest) (t.under n.seg none)) :
    ∀ (len : Nat) (rest : List String), rest.length ≤ len → ∀ n t, locateAt n rest = some t → P n rest t := by
  intro len
  induction len with
  | zero =>
    intro rest hlen n t h
    have : rest = [] := List.eq_nil_of_length_eq_zero (by omega)
    subst this
    simp only [locateAt, Option.some.injEq] at h
    subst h; exact here n
  | succ len ih =>
    intro rest hlen n t h
    match rest, hlen, h with
    | [], _, h =>
      simp only [locateAt, Option.some.injEq] at h
      subst h; exact here n
    | [a], _, h =>
      cases hc : n.isCollection
      · simp only [locateAt, hc, Bool.false_eq_true, if_false] at h
        cases hf : findSub a n.subs with
        | none => simp [hf] at h
        | some sub =>
          simp only [hf, Option.bind_some, Option.map_some, Option.some.injEq] at h
          subst h
          exact belowSimple n a [] sub _ hc hf (by simp [locateAt]) (here sub)
      · simp only [locateAt, hc, if_true, Option.some.injEq] at h
        subst h; exact hereKey n a hc
    | a :: s :: rest2, hlen, h =>
      cases hc : n.isCollection
      · simp only [locateAt, hc, Bool.false_eq_true, if_false] at h
        cases hf : findSub a n.subs with
        | none => simp [hf] at h
        | some sub =>
          simp only [hf, Option.bind_some] at h
          cases hl : locateAt sub (s :: rest2) with
          | none => simp [hl] at h
          | some t' =>
            simp only [hl, Option.map_some, Option.some.injEq] at h
            subst h
            exact belowSimple n a (s :: rest2) sub t' hc hf hl
              (ih (s :: rest2) (by simp at hlen ⊢; omega) sub t' hl)
      · simp only [locateAt, hc, if_true] at h
        cases hf : findSub s n.subs with
        | none => simp [hf] at h
        | some sub =>
          simp only [hf, Option.bind_some] at h
          cases hl : locateAt sub rest2 with
          | none => simp [hl] at h
          | some t' =>
            simp only [hl, Option.map_some, Option.some.injEq] at h
            subst h
            exact belowColl n a s rest2 sub t' hc hf hl (ih rest2 (by simp at hlen; omega) sub t' hl)

theorem locateAt_simple_nokey (n : Node) (rest : List String) (t : Target) (h : locateAt n rest = some t) :
    t.node.isCollection = false → t.hasKey = false :=
  locateAt_ind (fun _ _ t => t.node.isCollection = false → t.hasKey = false)
    (fun _ _ => rfl) (fun n x hc h => by simp [hc] at h)
    (fun _ _ _ _ _ _ _ _ _ ih => by simpa [Target.under] using ih)
    (fun _ _ _ _ _ _ _ _ ih => by simpa [Target.under] using ih)
    rest.length rest (Nat.le_refl _) n t h

theorem locateAt_keys_mem (n : Node) (rest : List String) (t : Target) (h : locateAt n rest = some t) :
    ∀ k ∈ t.keys, k ∈ rest :=
  locateAt_ind (fun _ rest t => ∀ k ∈ t.keys, k ∈ rest)
    (fun _ k hk => by simp at hk) (fun n x _ k hk => by simpa using hk)
    (fun _ x s rest _ t _ _ _ ih k hk => by
      simp only [Target.under, Option.toList, List.cons_append, List.nil_append, List.mem_cons] at hk
      rcases hk with rfl | hk
      · simp
      · exact List.mem_cons_of_mem _ (List.mem_cons_of_mem _ (ih k hk)))
    (fun _ x rest _ t _ _ _ ih k hk => by
      simp only [Target.under, Option.toList, List.nil_append] at hk
      exact List.mem_cons_of_mem _ (ih k hk))
    rest.length rest (Nat.le_refl _) n t h

theorem locateAt_node_ok (n : Node) (rest : List String) (t : Target) (h : locateAt n rest = some t) :
    nodeOk n = true → nodeOk t.node = true :=
  locateAt_ind (fun n _ t => nodeOk n = true → nodeOk t.node = true)
    (fun _ h => h) (fun _ _ _ h => h)
    (fun n _ s _ sub _ _ hf _ ih hn => by
      simpa [Target.under] using ih (findSub_ok s n.subs (nodeOk_subs n hn) sub hf))
    (fun n x _ sub _ _ hf _ ih hn => by
      simpa [Target.under] using ih (findSub_ok x n.subs (nodeOk_subs n hn) sub hf))
    rest.length rest (Nat.le_refl _) n t h

/-! ## `receive` after the walk, against the specification's table -/

/-- the decision a `Resolved` stands for -/
def Resolved.decision (C : Consts) : Resolved → Decision
  | .ok f _ => .routed f
  | .errResp st => .reject st
  | .rawErr => .reject C.stPlainError

/-- `routed f` or `reject 400` -/
def admitOr400 : Option Facts → Decision
  | some f => .routed f
  | none => .reject 400

/-- the last two rows of the specification's table, on the request's features -/
def specTail (t : Target) (verb : Verb) (hdr q act : Option String) (ids : Bool) : Decision :=
  match methodFor t.node.isCollection t.hasKey verb hdr q.isSome ids act.isSome with
  | none => .reject 400
  | some m => admitOr400 (admittedWith t m q act)

/-- the guard for finding "entity presence is not checked for actions": if the request names a
registered action, the presence of an entity key matches the action's level -/
def actionLevelOk (t : Target) (act : Option String) : Prop :=
  ∀ name e, act = some name → t.node.actions.lookup name = some e → e = t.hasKey

@[simp] theorem decision_ok (C : Consts) (f : Facts) (k : Bool) : (Resolved.ok f k).decision C = .routed f := rfl
@[simp] theorem decision_errResp (C : Consts) (st : Nat) : (Resolved.errResp st).decision C = .reject st := rfl
@[simp] theorem decision_rawErr (C : Consts) : Resolved.rawErr.decision C = .reject C.stPlainError := rfl
@[simp] theorem admitOr400_some (f : Facts) : admitOr400 (some f) = .routed f := rfl
@[simp] theorem admitOr400_none : admitOr400 none = .reject 400 := rfl

theorem getD_ne_empty (q : Option String) (hq : q ≠ some "") : (q.getD "" != "") = q.isSome := by
  cases q with
  | none => rfl
  | some s =>
    have : s ≠ "" := fun h => hq (by rw [h])
    simp [this]

/-- collection resource, method `m` settled: entity validation + handler lookup = `admittedWith` -/
theorem tail_coll (C : Consts) (hC : Tied C) (t : Target) (m : Method) (q act : Option String)
    (hcoll : t.node.isCollection = true) (hok : nodeOk t.node = true)
    (hm : m ≠ .unknown)
    (hlevel : m = .action → actionLevelOk t act) :
    (finish C t.node t.rpath t.keys t.hasKey (q.getD "") (act.getD "") (checkEntity C m t.hasKey)).decision C =
      admitOr400 (admittedWith t m q act) := by
  have hf := nodeOk_finders _ hok
  have ha := nodeOk_actions _ hok
  have hu := nodeOk_methods _ hok
  cases m <;> cases hk : t.hasKey <;>
    simp [finish, checkEntity, needsEntity, forbidsEntity, lookupHandler, admittedWith, takesKey,
      hcoll, hk, hC.stNoEntity, hC.stEntityForbidden, hC.stNoFinder, hC.stNoAction,
      hC.stNoMethod, apply_ite (Resolved.decision C), apply_ite admitOr400] at hm ⊢
  · -- action, no key
    cases act with
    | none => simp [ha]
    | some name =>
      cases hl : List.lookup name t.node.actions with
      | none => simp [hl]
      | some e =>
        have := hlevel rfl name e rfl hl
        simp [hl, this, hk]
  · -- action, with key
    cases act with
    | none => simp [ha]
    | some name =>
      cases hl : List.lookup name t.node.actions with
      | none => simp [hl]
      | some e =>
        have := hlevel rfl name e rfl hl
        simp [hl, this, hk]
  · -- finder, no key
    have hf' : ¬ ("" ∈ t.node.finders) := by simpa using hf
    cases q with
    | none => simp [hf']
    | some name => simp [apply_ite admitOr400]
  · cases q <;> rfl


theorem lookupHandler_plain (C : Consts) (hC : Tied C) (t : Target) (k : Bool) (m : Method) (f a : String)
    (hf : m ≠ .finder) (ha : m ≠ .action) :
    (lookupHandler C t.node t.rpath t.keys k m f a).decision C =
      if t.node.methods.contains m then .routed ⟨m, t.rpath, t.keys, none, none⟩ else .reject 400 := by
  simp [lookupHandler, hf, ha, apply_ite (Resolved.decision C), hC.stNoMethod]

/-- `receive` after the walk = the last two rows of the specification's table, on every request the
text determines and outside the action-level finding -/
theorem resolveWith_eq (C : Consts) (hC : Tied C) (t : Target) (verb : Verb) (hdr q act : Option String)
    (ids : Bool) (hok : nodeOk t.node = true)
    (hsimple : t.node.isCollection = false → t.hasKey = false)
    (hh : ∀ h, hdr = some h → methodNamed h ≠ none)
    (hq : q ≠ some "") (ha : act ≠ some "")
    (h2 : t.node.isCollection = false → verb = .other → hdr = none)
    (h3 : t.node.isCollection = true → hdr = none → (verb = .PUT ∨ verb = .DELETE) → t.hasKey = true → ids = false)
    (hlevel : methodFor t.node.isCollection t.hasKey verb hdr q.isSome ids act.isSome = some .action →
      actionLevelOk t act) :
    (resolveWith C t.node t.rpath t.keys t.hasKey verb ((hdr.bind methodNamed).getD .unknown)
        (q.getD "") (act.getD "") ids).decision C = specTail t verb hdr q act ids := by
  have hu := nodeOk_methods _ hok
  have hu' : ¬ (Method.unknown ∈ t.node.methods) := by simpa using hu
  unfold resolveWith specTail
  cases hc : t.node.isCollection
  · -- simple resource
    have hk := hsimple hc
    simp only [hk, Bool.false_eq_true, if_false]
    cases verb
    · -- GET
      simp [simpleMethod, methodFor, finish, lookupHandler_plain C hC, admittedWith, hc, hk,
        apply_ite admitOr400]
    · -- POST
      rw [hc] at hlevel
      cases act with
      | none =>
        simp [simpleMethod, methodFor, finish, lookupHandler_plain C hC, admittedWith, hc, hk,
          apply_ite admitOr400]
      | some name =>
        have hne : name ≠ "" := fun h => ha (by rw [h])
        have hlv := hlevel (by simp [methodFor])
        simp only [simpleMethod, methodFor, Option.getD_some, bne_iff_ne, ne_eq, hne, not_false_eq_true,
          if_true, Option.isSome_some, finish, lookupHandler, reduceCtorEq, if_false, admittedWith]
        cases hl : List.lookup name t.node.actions with
        | none => simp [hC.stNoAction]
        | some e =>
          have := hlv name e rfl hl
          simp [this, hk]
    · -- PUT
      simp [simpleMethod, methodFor, finish, lookupHandler_plain C hC, admittedWith, hc, hk,
        apply_ite admitOr400]
    · -- DELETE
      simp [simpleMethod, methodFor, finish, lookupHandler_plain C hC, admittedWith, hc, hk,
        apply_ite admitOr400]
    · -- other verbs: only without a header
      have := h2 hc rfl
      subst this
      simp [simpleMethod, methodFor, finish, lookupHandler_plain C hC, hu']
  · -- collection-like resource
    simp only [if_true]
    rw [hc] at hlevel
    cases hdr with
    | some h =>
      cases hm : methodNamed h with
      | none => exact absurd hm (hh h rfl)
      | some m =>
        have hmu : m ≠ .unknown := fun e => methodNamed_ne_unknown h (e ▸ hm)
        simp only [Option.bind_some, hm, Option.getD_some, hmu, if_false, methodFor, if_true]
        exact tail_coll C hC t m q act hc hok hmu (fun e => hlevel (by simp [methodFor, hm, e]))
    | none =>
      simp only [Option.bind_none, Option.getD_none, if_true]
      cases verb
      · -- GET
        simp only [inferMethod, getD_ne_empty q hq, methodFor, if_true]
        cases hk : t.hasKey <;> cases hqs : q.isSome <;> cases ids <;>
          simp only [Bool.false_eq_true, if_false, if_true] <;>
          (rw [← hk]; exact tail_coll C hC t _ q act hc hok (by decide) (fun e => by cases e))
      · -- POST requires the header
        simp [inferMethod, methodFor, finish, hC.stPostNeedsHeader]
      · -- PUT
        cases hk : t.hasKey <;> cases hi : ids
        · simp [inferMethod, methodFor, finish, checkEntity, needsEntity, hC.stNoEntity]
        · simp only [inferMethod, methodFor, if_true, Bool.false_eq_true, if_false]
          rw [← hk]; exact tail_coll C hC t _ q act hc hok (by decide) (fun e => by cases e)
        · simp only [inferMethod, methodFor, if_true, Bool.false_eq_true, if_false]
          rw [← hk]; exact tail_coll C hC t _ q act hc hok (by decide) (fun e => by cases e)
        · exact absurd (h3 hc rfl (Or.inl rfl) hk) (by simp [hi])
      · -- DELETE
        cases hk : t.hasKey <;> cases hi : ids
        · simp [inferMethod, methodFor, finish, checkEntity, needsEntity, hC.stNoEntity]
        · simp only [inferMethod, methodFor, if_true, Bool.false_eq_true, if_false]
          rw [← hk]; exact tail_coll C hC t _ q act hc hok (by decide) (fun e => by cases e)
        · simp only [inferMethod, methodFor, if_true, Bool.false_eq_true, if_false]
          rw [← hk]; exact tail_coll C hC t _ q act hc hok (by decide) (fun e => by cases e)
        · exact absurd (h3 hc rfl (Or.inr rfl) hk) (by simp [hi])
      · -- other verbs name no method
        simp [inferMethod, methodFor, finish, checkEntity, needsEntity, forbidsEntity,
          lookupHandler_plain C hC, hu']

end Restli.Routing
