import Restli.Model.SharedCells
/-! Helper lemmas for property C17 (interleavings over shared cells). No property statements here. -/
namespace Restli.SharedCells

universe u v
variable {S : Type u} {L : Type v}

theorem run_cons (sys : Sys S L) (i : Nat) (rest : Schedule) :
    run sys (i :: rest) = run (stepSys sys i) rest := rfl

theorem advance_succ (s : S) (t : Thread S L) (k : Nat) :
    advance s t (k + 1) = advance (stepThread s t).1 (stepThread s t).2 k := rfl

theorem stepThread_nil {s : S} {t : Thread S L} (h : t.todo = []) : stepThread s t = (s, t) := by
  unfold stepThread; rw [h]

theorem stepThread_todo_length (s : S) (t : Thread S L) :
    (stepThread s t).2.todo.length = t.todo.length - 1 := by
  unfold stepThread; split <;> simp_all

theorem stepThread_todo_sub (s : S) (t : Thread S L) :
    ∀ a ∈ (stepThread s t).2.todo, a ∈ t.todo := by
  unfold stepThread; split
  · intro a h; exact h
  · rename_i a rest h; intro b hb; rw [h]; exact List.mem_cons_of_mem _ hb

theorem advance_stutter {s : S} {t : Thread S L} (h : t.todo = []) : ∀ k, advance s t k = (s, t)
  | 0 => rfl
  | k + 1 => by rw [advance_succ, stepThread_nil h]; exact advance_stutter h k

theorem advance_add (s : S) (t : Thread S L) (a b : Nat) :
    advance s t (a + b) = advance (advance s t a).1 (advance s t a).2 b := by
  induction a generalizing s t with
  | zero => simp [advance]
  | succ a ih => rw [Nat.succ_add, advance_succ, advance_succ, ih]

theorem advance_todo_length (s : S) (t : Thread S L) (k : Nat) :
    (advance s t k).2.todo.length = t.todo.length - k := by
  induction k generalizing s t with
  | zero => simp [advance]
  | succ k ih => rw [advance_succ, ih, stepThread_todo_length]; omega

/-- more steps than actions change nothing: the outcome is the serial outcome -/
theorem advance_ge {s : S} {t : Thread S L} {k : Nat} (h : t.todo.length ≤ k) :
    advance s t k = runAlone s t := by
  obtain ⟨d, rfl⟩ := Nat.exists_eq_add_of_le h
  rw [advance_add]
  apply advance_stutter
  have := advance_todo_length s t t.todo.length
  simpa [List.length_eq_zero_iff] using this

/-- the premise of the commutation theorem, per thread -/
def ThreadRO (s0 : S) (I : L → Prop) (t : Thread S L) : Prop :=
  I t.loc ∧ ∀ a ∈ t.todo, ReadOnlyAt s0 I a

theorem stepThread_ro {s0 : S} {I : L → Prop} {t : Thread S L} (h : ThreadRO s0 I t) :
    (stepThread s0 t).1 = s0 ∧ ThreadRO s0 I (stepThread s0 t).2 := by
  refine ⟨?_, ?_, fun a ha => h.2 a (stepThread_todo_sub s0 t a ha)⟩
  · unfold stepThread; split
    · rfl
    · rename_i a rest hq; exact (h.2 a (by rw [hq]; exact List.mem_cons_self) t.loc h.1).1
  · unfold stepThread; split
    · exact h.1
    · rename_i a rest hq; exact (h.2 a (by rw [hq]; exact List.mem_cons_self) t.loc h.1).2

theorem advance_ro {s0 : S} {I : L → Prop} {t : Thread S L} (h : ThreadRO s0 I t) (k : Nat) :
    (advance s0 t k).1 = s0 ∧ ThreadRO s0 I (advance s0 t k).2 := by
  induction k generalizing t with
  | zero => exact ⟨rfl, h⟩
  | succ k ih =>
    rw [advance_succ, (stepThread_ro h).1]
    exact ih (stepThread_ro h).2

theorem count_cons_self_nat (j : Nat) (rest : List Nat) : (j :: rest).count j = rest.count j + 1 := by
  simp

theorem count_cons_ne_nat {i j : Nat} (h : i ≠ j) (rest : List Nat) : (j :: rest).count i = rest.count i := by
  rw [List.count_cons]; simp [Ne.symm h]

/-- core of the commutation theorem -/
theorem run_ro (s0 : S) (I : L → Prop) : ∀ (sched : Schedule) (ts : List (Thread S L)),
    (∀ t ∈ ts, ThreadRO s0 I t) →
    (run ⟨s0, ts⟩ sched).shared = s0 ∧
    ∀ i t, ts[i]? = some t →
      (run ⟨s0, ts⟩ sched).threads[i]? = some (advance s0 t (sched.count i)).2 := by
  intro sched
  induction sched with
  | nil => intro ts _; exact ⟨rfl, fun i t h => by simpa [run, advance] using h⟩
  | cons j rest ih =>
    intro ts h
    rw [run_cons]
    cases hj : ts[j]? with
    | none =>
      have hs : stepSys (⟨s0, ts⟩ : Sys S L) j = ⟨s0, ts⟩ := by simp [stepSys, hj]
      rw [hs]
      refine ⟨(ih ts h).1, fun i t hi => ?_⟩
      have hne : i ≠ j := by intro e; subst e; rw [hj] at hi; cases hi
      rw [count_cons_ne_nat hne]
      exact (ih ts h).2 i t hi
    | some tj =>
      have hmem : tj ∈ ts := List.mem_of_getElem? hj
      have hro := stepThread_ro (h tj hmem)
      have hs : stepSys (⟨s0, ts⟩ : Sys S L) j = ⟨s0, ts.set j (stepThread s0 tj).2⟩ := by
        simp [stepSys, hj, hro.1]
      rw [hs]
      have h' : ∀ t ∈ ts.set j (stepThread s0 tj).2, ThreadRO s0 I t := by
        intro t ht
        rcases List.mem_or_eq_of_mem_set ht with ht | ht
        · exact h t ht
        · rw [ht]; exact hro.2
      have hjl : j < ts.length := by
        rcases List.getElem?_eq_some_iff.mp hj with ⟨hl, _⟩; exact hl
      refine ⟨(ih _ h').1, fun i t hi => ?_⟩
      by_cases e : i = j
      · subst e
        rw [hj] at hi; cases hi
        rw [count_cons_self_nat, advance_succ, hro.1]
        exact (ih _ h').2 i _ (by simp [hjl])
      · rw [count_cons_ne_nat e]
        exact (ih _ h').2 i t (by rw [List.getElem?_set_ne (Ne.symm e)]; exact hi)

/-! ### one writer, many readers that do not look at what it writes -/

/-- every action of `t` leaves the shared state alone and computes the same local state on any two
shared states related by `R` -/
def ThreadBlind (R : S → S → Prop) (t : Thread S L) : Prop :=
  ∀ a ∈ t.todo, (∀ s l, (a.step s l).1 = s) ∧ ∀ s s' l, R s s' → (a.step s l).2 = (a.step s' l).2

/-- every action of `t` changes the shared state only within its `R`-class -/
def ThreadWithin (R : S → S → Prop) (t : Thread S L) : Prop :=
  ∀ a ∈ t.todo, ∀ s l, R s (a.step s l).1

theorem stepThread_blind {R : S → S → Prop} {t : Thread S L} (h : ThreadBlind R t) (s : S) :
    (stepThread s t).1 = s ∧ ThreadBlind R (stepThread s t).2 ∧
    ∀ s', R s s' → (stepThread s t).2 = (stepThread s' t).2 := by
  refine ⟨?_, fun a ha => h a (stepThread_todo_sub s t a ha), ?_⟩
  · unfold stepThread; split
    · rfl
    · rename_i a rest hq; exact (h a (by rw [hq]; exact List.mem_cons_self)).1 s t.loc
  · intro s' hr; unfold stepThread; split
    · rfl
    · rename_i a rest hq
      have := (h a (by rw [hq]; exact List.mem_cons_self)).2 s s' t.loc hr
      simp [this]

theorem advance_blind {R : S → S → Prop} {t : Thread S L} (h : ThreadBlind R t) {s s' : S}
    (hr : R s s') (k : Nat) :
    (advance s t k).1 = s ∧ (advance s t k).2 = (advance s' t k).2 := by
  induction k generalizing t with
  | zero => exact ⟨rfl, rfl⟩
  | succ k ih =>
    have h1 := stepThread_blind h s
    have h2 := stepThread_blind h s'
    rw [advance_succ, advance_succ, h1.1, h2.1, ← h1.2.2 s' hr]
    exact ih h1.2.1

theorem stepThread_within {R : S → S → Prop} (hrefl : ∀ s, R s s) {t : Thread S L}
    (h : ThreadWithin R t) (s : S) :
    R s (stepThread s t).1 ∧ ThreadWithin R (stepThread s t).2 := by
  refine ⟨?_, fun a ha => h a (stepThread_todo_sub s t a ha)⟩
  unfold stepThread; split
  · exact hrefl s
  · rename_i a rest hq; exact h a (by rw [hq]; exact List.mem_cons_self) s t.loc

/-- core of the single-writer theorem -/
theorem run_single_writer (R : S → S → Prop) (hrefl : ∀ s, R s s) (w : Nat) :
    ∀ (sched : Schedule) (s0 : S) (ts : List (Thread S L)) (tw : Thread S L),
    ts[w]? = some tw → ThreadWithin R tw →
    (∀ i t, i ≠ w → ts[i]? = some t → ThreadBlind R t) →
    (run ⟨s0, ts⟩ sched).shared = (advance s0 tw (sched.count w)).1 ∧
    (run ⟨s0, ts⟩ sched).threads[w]? = some (advance s0 tw (sched.count w)).2 ∧
    ∀ i t, i ≠ w → ts[i]? = some t →
      (run ⟨s0, ts⟩ sched).threads[i]? = some (advance s0 t (sched.count i)).2 := by
  intro sched
  induction sched with
  | nil =>
    intro s0 ts tw hw _ _
    exact ⟨rfl, by simpa [run, advance] using hw, fun i t _ hi => by simpa [run, advance] using hi⟩
  | cons j rest ih =>
    intro s0 ts tw hw hwr hb
    rw [run_cons]
    have hwl : w < ts.length := (List.getElem?_eq_some_iff.mp hw).1
    by_cases ejw : j = w
    · subst ejw
      have hstep := stepThread_within hrefl hwr s0
      have hs : stepSys (⟨s0, ts⟩ : Sys S L) j = ⟨(stepThread s0 tw).1, ts.set j (stepThread s0 tw).2⟩ := by
        simp [stepSys, hw]
      rw [hs, count_cons_self_nat, advance_succ]
      have hb' : ∀ i t, i ≠ j → (ts.set j (stepThread s0 tw).2)[i]? = some t → ThreadBlind R t := by
        intro i t hi ht
        rw [List.getElem?_set_ne (Ne.symm hi)] at ht
        exact hb i t hi ht
      have := ih (stepThread s0 tw).1 (ts.set j (stepThread s0 tw).2) (stepThread s0 tw).2
        (by simp [hwl]) hstep.2 hb'
      refine ⟨this.1, this.2.1, fun i t hi ht => ?_⟩
      rw [count_cons_ne_nat hi]
      have h3 := this.2.2 i t hi (by rw [List.getElem?_set_ne (Ne.symm hi)]; exact ht)
      rw [h3, (advance_blind (hb i t hi ht) hstep.1 _).2]
    · have ewj : w ≠ j := Ne.symm ejw
      rw [count_cons_ne_nat ewj]
      cases hj : ts[j]? with
      | none =>
        have hs : stepSys (⟨s0, ts⟩ : Sys S L) j = ⟨s0, ts⟩ := by simp [stepSys, hj]
        rw [hs]
        have := ih s0 ts tw hw hwr hb
        refine ⟨this.1, this.2.1, fun i t hi ht => ?_⟩
        have hne : i ≠ j := by intro e; subst e; rw [hj] at ht; cases ht
        rw [count_cons_ne_nat hne]
        exact this.2.2 i t hi ht
      | some tj =>
        have hbj := hb j tj ejw hj
        have hstep := stepThread_blind hbj s0
        have hs : stepSys (⟨s0, ts⟩ : Sys S L) j = ⟨s0, ts.set j (stepThread s0 tj).2⟩ := by
          simp [stepSys, hj, hstep.1]
        rw [hs]
        have hjl : j < ts.length := (List.getElem?_eq_some_iff.mp hj).1
        have hb' : ∀ i t, i ≠ w → (ts.set j (stepThread s0 tj).2)[i]? = some t → ThreadBlind R t := by
          intro i t hi ht
          by_cases e : i = j
          · subst e
            rw [List.getElem?_set_self hjl] at ht; cases ht
            exact hstep.2.1
          · rw [List.getElem?_set_ne (Ne.symm e)] at ht
            exact hb i t hi ht
        have := ih s0 (ts.set j (stepThread s0 tj).2) tw
          (by rw [List.getElem?_set_ne ejw]; exact hw) hwr hb'
        refine ⟨this.1, this.2.1, fun i t hi ht => ?_⟩
        by_cases e : i = j
        · subst e
          rw [hj] at ht; cases ht
          rw [count_cons_self_nat, advance_succ, hstep.1]
          exact this.2.2 i _ hi (by simp [hjl])
        · rw [count_cons_ne_nat e]
          exact this.2.2 i t hi (by rw [List.getElem?_set_ne (Ne.symm e)]; exact ht)

/-- core of the many-writers theorem: every thread either writes only inside the region or is blind to it -/
theorem run_region_writers (R : S → S → Prop) (hrefl : ∀ s, R s s)
    (htrans : ∀ a b c, R a b → R b c → R a c) :
    ∀ (sched : Schedule) (s0 : S) (ts : List (Thread S L)),
    (∀ t ∈ ts, ThreadWithin R t ∨ ThreadBlind R t) →
    R s0 (run ⟨s0, ts⟩ sched).shared ∧
    ∀ i t, ts[i]? = some t → ThreadBlind R t →
      (run ⟨s0, ts⟩ sched).threads[i]? = some (advance s0 t (sched.count i)).2 := by
  intro sched
  induction sched with
  | nil => intro s0 ts _; exact ⟨hrefl s0, fun i t hi _ => by simpa [run, advance] using hi⟩
  | cons j rest ih =>
    intro s0 ts hts
    rw [run_cons]
    cases hj : ts[j]? with
    | none =>
      have hs : stepSys (⟨s0, ts⟩ : Sys S L) j = ⟨s0, ts⟩ := by simp [stepSys, hj]
      rw [hs]
      refine ⟨(ih s0 ts hts).1, fun i t hi hb => ?_⟩
      have hne : i ≠ j := by intro e; subst e; rw [hj] at hi; cases hi
      rw [count_cons_ne_nat hne]
      exact (ih s0 ts hts).2 i t hi hb
    | some tj =>
      have hjl : j < ts.length := (List.getElem?_eq_some_iff.mp hj).1
      have htj := hts tj (List.mem_of_getElem? hj)
      have hs : stepSys (⟨s0, ts⟩ : Sys S L) j = ⟨(stepThread s0 tj).1, ts.set j (stepThread s0 tj).2⟩ := by
        simp [stepSys, hj]
      rw [hs]
      -- the step stays inside the region, and the stepped thread keeps its kind
      have hR : R s0 (stepThread s0 tj).1 := by
        rcases htj with hw | hb
        · exact (stepThread_within hrefl hw s0).1
        · rw [(stepThread_blind hb s0).1]; exact hrefl s0
      have hkind : ThreadWithin R (stepThread s0 tj).2 ∨ ThreadBlind R (stepThread s0 tj).2 := by
        rcases htj with hw | hb
        · exact Or.inl (stepThread_within hrefl hw s0).2
        · exact Or.inr (stepThread_blind hb s0).2.1
      have hts' : ∀ t ∈ ts.set j (stepThread s0 tj).2, ThreadWithin R t ∨ ThreadBlind R t := by
        intro t ht
        rcases List.mem_or_eq_of_mem_set ht with ht | ht
        · exact hts t ht
        · rw [ht]; exact hkind
      have IH := ih (stepThread s0 tj).1 (ts.set j (stepThread s0 tj).2) hts'
      refine ⟨htrans _ _ _ hR IH.1, fun i t hi hb => ?_⟩
      by_cases e : i = j
      · subst e
        rw [hj] at hi; cases hi
        have hsb := stepThread_blind hb s0
        rw [count_cons_self_nat, advance_succ]
        exact IH.2 i _ (by simp [hjl]) hsb.2.1
      · rw [count_cons_ne_nat e]
        have h3 := IH.2 i t (by rw [List.getElem?_set_ne (Ne.symm e)]; exact hi) hb
        rw [h3, (advance_blind hb hR _).2]

/-! ### the concrete programs -/

/-- the two shared states differ at most in the random source's position -/
def EqExceptRng (s s' : Shared) : Prop :=
  s.tree = s'.tree ∧ s.registry = s'.registry ∧ s.errs = s'.errs ∧ s.snapshot = s'.snapshot

theorem eqExceptRng_refl (s : Shared) : EqExceptRng s s := ⟨rfl, rfl, rfl, rfl⟩

theorem getErr_eqExceptRng {s s' : Shared} (h : EqExceptRng s s') (l : Local) : getErr s l = getErr s' l := by
  unfold getErr; rw [h.2.2.1]

/-- an action that only reads, and reads nothing of the random source -/
def BlindAct (a : Act) : Prop :=
  (∀ s l, (a.step s l).1 = s) ∧ ∀ s s' l, EqExceptRng s s' → (a.step s l).2 = (a.step s' l).2

theorem guarded_blind {f : Shared → Local → Shared × Local}
    (h1 : ∀ s l, (f s l).1 = s) (h2 : ∀ s s' l, EqExceptRng s s' → (f s l).2 = (f s' l).2) :
    BlindAct (guarded f) := by
  constructor
  · intro s l; simp only [guarded]; split <;> simp [h1]
  · intro s s' l hr; simp only [guarded]; split <;> simp [h2 s s' l hr]

syntax "blind_tac" : tactic
macro_rules
  | `(tactic| blind_tac) => `(tactic|
      (apply guarded_blind
       · intro s l; repeat' split
         all_goals rfl
       · intro s s' l hr
         try rw [getErr_eqExceptRng hr]
         try rw [hr.1]
         repeat' split
         all_goals rfl))

theorem aRoute_blind (C : Consts) (q : Req) : BlindAct (aRoute C q) := by blind_tac
theorem aInvoke_blind (C : Consts) (q : Req) : BlindAct (aInvoke C q) := by blind_tac
theorem aCopyErr_blind : BlindAct aCopyErr := by blind_tac
theorem aReadStatus_blind (C : Consts) : BlindAct (aReadStatus C) := by blind_tac
theorem aTestMessage_blind : BlindAct aTestMessage := by blind_tac
theorem aFillRead_blind (C : Consts) (fixed : Bool) : BlindAct (aFillRead C fixed) := by blind_tac
theorem aFillWrite_fixed_blind : BlindAct (aFillWrite true) := by
  apply guarded_blind
  · intro s l; simp only [if_true]; split <;> rfl
  · intro s s' l hr; simp only [if_true]; split <;> rfl
theorem aMarshalStatus_blind : BlindAct aMarshalStatus := by blind_tac
theorem aMarshalMessage_blind : BlindAct aMarshalMessage := by blind_tac

theorem aLoadAdapter_blind (ty : Nat) : BlindAct (aLoadAdapter ty) := by
  constructor
  · intro s l; rfl
  · intro s s' l hr; simp only [aLoadAdapter]; rw [hr.2.1]

/-- every access of the repaired `ServeHTTP` is a read, and none looks at the random source -/
theorem serveProg_fixed_blind (C : Consts) (q : Req) : ∀ a ∈ serveProg C true q, BlindAct a := by
  intro a ha
  simp only [serveProg, if_true, List.cons_append, List.nil_append, List.mem_cons, List.not_mem_nil, or_false] at ha
  rcases ha with rfl | rfl | rfl | rfl | rfl | rfl | rfl | rfl | rfl
  · exact aRoute_blind C q
  · exact aInvoke_blind C q
  · exact aCopyErr_blind
  · exact aReadStatus_blind C
  · exact aTestMessage_blind
  · exact aFillRead_blind C true
  · exact aFillWrite_fixed_blind
  · exact aMarshalStatus_blind
  · exact aMarshalMessage_blind

theorem loadProg_blind (ty : Nat) : ∀ a ∈ loadProg ty, BlindAct a := by
  intro a ha
  simp only [loadProg, List.mem_cons, List.not_mem_nil, or_false] at ha
  subst ha; exact aLoadAdapter_blind ty

/-- the resolver's accesses change nothing but the random source's position -/
theorem resolveProg_within (locked : Bool) : ∀ a ∈ resolveProg locked, ∀ s l, EqExceptRng s (a.step s l).1 := by
  intro a ha s l
  cases locked <;>
    simp only [resolveProg, List.cons_append, List.nil_append, List.mem_cons,
      List.not_mem_nil, or_false, Bool.false_eq_true, if_false, if_true] at ha
  · rcases ha with rfl | rfl | rfl | rfl
    · exact eqExceptRng_refl s
    · exact eqExceptRng_refl s
    · simp only [aRngWrite]; split <;> exact ⟨rfl, rfl, rfl, rfl⟩
    · simp only [aChoose]; split <;> exact eqExceptRng_refl s
  · rcases ha with rfl | rfl | rfl
    · exact eqExceptRng_refl s
    · exact ⟨rfl, rfl, rfl, rfl⟩
    · simp only [aChoose]; split <;> exact eqExceptRng_refl s

theorem eqExceptRng_trans {a b c : Shared} (h1 : EqExceptRng a b) (h2 : EqExceptRng b c) : EqExceptRng a c :=
  ⟨h1.1.trans h2.1, h1.2.1.trans h2.2.1, h1.2.2.1.trans h2.2.2.1, h1.2.2.2.trans h2.2.2.2⟩

theorem advance_within_rel {t : Thread Shared Local}
    (h : ∀ a ∈ t.todo, ∀ s l, EqExceptRng s (a.step s l).1) (s : Shared) (k : Nat) :
    EqExceptRng s (advance s t k).1 := by
  induction k generalizing s t with
  | zero => exact eqExceptRng_refl s
  | succ k ih =>
    rw [advance_succ]
    have hs := stepThread_within eqExceptRng_refl (R := EqExceptRng) (t := t) h s
    exact eqExceptRng_trans hs.1 (ih hs.2 _)

/-! ### current code under the guard "shared error objects already carry a message" -/

/-- every error object resource code shares between requests has its `Message` set -/
def ErrFilled (s : Shared) : Prop := ∀ e ∈ s.errs, e.message.isSome = true

instance (s : Shared) : Decidable (ErrFilled s) := by unfold ErrFilled; exact inferInstance

/-- invariant of request-local states: a pending fill targets a request-local object -/
def FillLocal (l : Local) : Prop := l.needFill = true → ∃ e, l.err = some (.fresh e)

theorem guarded_ro {s0 : Shared} {f : Shared → Local → Shared × Local}
    (h : ∀ l, FillLocal l → (f s0 l).1 = s0 ∧ FillLocal (f s0 l).2) :
    ReadOnlyAt s0 FillLocal (guarded f) := by
  intro l hl; simp only [guarded]; split
  · exact ⟨rfl, hl⟩
  · exact h l hl


theorem aRoute_ro (C : Consts) (q : Req) (s0 : Shared) : ReadOnlyAt s0 FillLocal (aRoute C q) := by
  apply guarded_ro; intro l hl
  split
  · exact ⟨rfl, hl⟩
  · split
    · exact ⟨rfl, hl⟩
    · exact ⟨rfl, fun _ => ⟨_, rfl⟩⟩

theorem aInvoke_ro (C : Consts) (q : Req) (s0 : Shared) : ReadOnlyAt s0 FillLocal (aInvoke C q) := by
  apply guarded_ro; intro l hl
  split
  · exact ⟨rfl, hl⟩
  · rename_i hnone
    have hnf : l.needFill ≠ true := by
      intro h; obtain ⟨e, he⟩ := hl h; rw [he] at hnone; simp at hnone
    split
    · exact ⟨rfl, hl⟩
    all_goals exact ⟨rfl, fun h => absurd h hnf⟩

theorem aReadStatus_ro (C : Consts) (s0 : Shared) : ReadOnlyAt s0 FillLocal (aReadStatus C) := by
  apply guarded_ro; intro l hl; split <;> exact ⟨rfl, hl⟩

theorem aTestMessage_ro {s0 : Shared} (hf : ErrFilled s0) : ReadOnlyAt s0 FillLocal aTestMessage := by
  apply guarded_ro; intro l hl
  split
  · exact ⟨rfl, hl⟩
  · rename_i e he
    refine ⟨rfl, ?_⟩
    intro hn
    have hn' : e.message.isNone = true := hn
    unfold getErr at he
    split at he
    · cases he
    · exact ⟨_, by assumption⟩
    · have hmem : e ∈ s0.errs := List.mem_of_getElem? he
      have := hf e hmem
      cases hm : e.message <;> simp [hm] at this hn'

theorem aFillRead_ro (C : Consts) (fixed : Bool) (s0 : Shared) : ReadOnlyAt s0 FillLocal (aFillRead C fixed) := by
  apply guarded_ro; intro l hl
  repeat' split
  all_goals exact ⟨rfl, hl⟩

theorem aFillWrite_ro (fixed : Bool) (s0 : Shared) : ReadOnlyAt s0 FillLocal (aFillWrite fixed) := by
  apply guarded_ro; intro l hl
  split
  · rename_i hn _
    obtain ⟨e, he⟩ := hl hn
    cases fixed
    · simp only [Bool.false_eq_true, if_false, setErrMessage, he]
      exact ⟨trivial, fun _ => ⟨_, rfl⟩⟩
    · simp only [if_true, setLocalErrMessage, he]
      exact ⟨trivial, fun _ => ⟨_, rfl⟩⟩
  · exact ⟨rfl, hl⟩

theorem aMarshalStatus_ro (s0 : Shared) : ReadOnlyAt s0 FillLocal aMarshalStatus := by
  apply guarded_ro; intro l hl; split <;> exact ⟨rfl, hl⟩

theorem aMarshalMessage_ro (s0 : Shared) : ReadOnlyAt s0 FillLocal aMarshalMessage := by
  apply guarded_ro; intro l hl; split <;> exact ⟨rfl, hl⟩

/-- under the guard, every access of today's `ServeHTTP` leaves the shared state alone -/
theorem serveProg_current_ro (C : Consts) (q : Req) {s0 : Shared} (hf : ErrFilled s0) :
    ∀ a ∈ serveProg C false q, ReadOnlyAt s0 FillLocal a := by
  intro a ha
  simp only [serveProg, Bool.false_eq_true, if_false, List.cons_append, List.nil_append, List.append_nil,
    List.mem_cons, List.not_mem_nil, or_false] at ha
  rcases ha with rfl | rfl | rfl | rfl | rfl | rfl | rfl | rfl
  · exact aRoute_ro C q s0
  · exact aInvoke_ro C q s0
  · exact aReadStatus_ro C s0
  · exact aTestMessage_ro hf
  · exact aFillRead_ro C false s0
  · exact aFillWrite_ro false s0
  · exact aMarshalStatus_ro s0
  · exact aMarshalMessage_ro s0

theorem fillLocal_init : FillLocal ({} : Local) := by intro h; cases h

/-- a blind action is read-only at every state, under any invariant it keeps; with the trivial one -/
theorem BlindAct.readOnlyAt {a : Act} (h : BlindAct a) (s0 : Shared) : ReadOnlyAt s0 (fun _ => True) a :=
  fun l _ => ⟨h.1 s0 l, trivial⟩

theorem mem_mkSys {s : Shared} {progs : List (List Act)} {t : Thread Shared Local}
    (h : t ∈ (mkSys s progs).threads) : t.loc = {} ∧ t.todo ∈ progs := by
  simp only [mkSys, List.mem_map] at h
  obtain ⟨p, hp, rfl⟩ := h
  exact ⟨rfl, hp⟩


/-! ### the random source under a lock -/

/-- an action is the locked draw, or leaves both the generator position and the thread's draw alone -/
def DrawOrInert (a : Act) : Prop :=
  a = aRngDrawLocked ∨ ∀ s l, (a.step s l).1.rng = s.rng ∧ (a.step s l).2.draw = l.draw

/-- the draws handed out so far are below the generator position and pairwise distinct -/
def DrawsOk (s : Shared) (ts : List (Thread Shared Local)) : Prop :=
  (∀ (i : Nat) (t : Thread Shared Local) (d : Nat), ts[i]? = some t → t.loc.draw = some d → d < s.rng) ∧
  (∀ (i j : Nat) (ti tj : Thread Shared Local) (d : Nat), i ≠ j → ts[i]? = some ti → ts[j]? = some tj → ti.loc.draw = some d → tj.loc.draw ≠ some d)

theorem stepSys_drawsOk {s : Shared} {ts : List (Thread Shared Local)}
    (hacts : ∀ t ∈ ts, ∀ a ∈ t.todo, DrawOrInert a) (hok : DrawsOk s ts) (i : Nat) :
    DrawsOk (stepSys ⟨s, ts⟩ i).shared (stepSys ⟨s, ts⟩ i).threads ∧
    ∀ t ∈ (stepSys ⟨s, ts⟩ i).threads, ∀ a ∈ t.todo, DrawOrInert a := by
  cases hi : ts[i]? with
  | none => simp only [stepSys, hi]; exact ⟨hok, hacts⟩
  | some t =>
    have hil : i < ts.length := (List.getElem?_eq_some_iff.mp hi).1
    have htm : t ∈ ts := List.mem_of_getElem? hi
    have hacts' : ∀ u ∈ ts.set i (stepThread s t).2, ∀ a ∈ u.todo, DrawOrInert a := by
      intro u hu a ha
      rcases List.mem_or_eq_of_mem_set hu with hu | hu
      · exact hacts u hu a ha
      · subst hu; exact hacts t htm a (stepThread_todo_sub s t a ha)
    simp only [stepSys, hi]
    refine ⟨?_, hacts'⟩
    -- what the step did to the generator and to thread i's draw
    have hcase : ((stepThread s t).1.rng = s.rng ∧ (stepThread s t).2.loc.draw = t.loc.draw) ∨
        ((stepThread s t).1.rng = s.rng + 1 ∧ (stepThread s t).2.loc.draw = some s.rng) := by
      unfold stepThread
      split
      · exact Or.inl ⟨rfl, rfl⟩
      · rename_i a rest hq
        rcases hacts t htm a (by rw [hq]; exact List.mem_cons_self) with rfl | h
        · exact Or.inr ⟨rfl, rfl⟩
        · exact Or.inl (h s t.loc)
    have get_i : (ts.set i (stepThread s t).2)[i]? = some (stepThread s t).2 := by simp [hil]
    have get_ne : ∀ j, j ≠ i → (ts.set i (stepThread s t).2)[j]? = ts[j]? :=
      fun j hj => List.getElem?_set_ne (Ne.symm hj)
    rcases hcase with ⟨hr, hd⟩ | ⟨hr, hd⟩
    · -- inert step
      refine ⟨?_, ?_⟩
      · intro j u d hj hdu
        rw [hr]
        by_cases e : j = i
        · subst e; rw [get_i] at hj; cases hj
          exact hok.1 j t d hi (hd ▸ hdu)
        · rw [get_ne j e] at hj; exact hok.1 j u d hj hdu
      · intro j k uj uk d hjk hj hk hdj
        by_cases ej : j = i
        · subst ej; rw [get_i] at hj; cases hj
          rw [get_ne k (Ne.symm hjk)] at hk
          exact hok.2 j k t uk d hjk hi hk (hd ▸ hdj)
        · rw [get_ne j ej] at hj
          by_cases ek : k = i
          · subst ek; rw [get_i] at hk; cases hk
            rw [hd]; exact hok.2 j k uj t d hjk hj hi hdj
          · rw [get_ne k ek] at hk; exact hok.2 j k uj uk d hjk hj hk hdj
    · -- the locked draw: thread i now holds `s.rng`, the generator stands at `s.rng + 1`
      refine ⟨?_, ?_⟩
      · intro j u d hj hdu
        rw [hr]
        by_cases e : j = i
        · subst e; rw [get_i] at hj; cases hj
          rw [hd] at hdu; cases hdu; exact Nat.lt_succ_self _
        · rw [get_ne j e] at hj
          exact Nat.lt_succ_of_lt (hok.1 j u d hj hdu)
      · intro j k uj uk d hjk hj hk hdj
        by_cases ej : j = i
        · subst ej; rw [get_i] at hj; cases hj
          rw [hd] at hdj; cases hdj
          rw [get_ne k (Ne.symm hjk)] at hk
          intro hdk
          exact absurd (hok.1 k uk _ hk hdk) (Nat.lt_irrefl _)
        · rw [get_ne j ej] at hj
          by_cases ek : k = i
          · subst ek; rw [get_i] at hk; cases hk
            rw [hd]; intro heq; cases heq
            exact absurd (hok.1 j uj _ hj hdj) (Nat.lt_irrefl _)
          · rw [get_ne k ek] at hk; exact hok.2 j k uj uk d hjk hj hk hdj

theorem run_drawsOk : ∀ (sched : Schedule) (s : Shared) (ts : List (Thread Shared Local)),
    (∀ t ∈ ts, ∀ a ∈ t.todo, DrawOrInert a) → DrawsOk s ts →
    DrawsOk (run ⟨s, ts⟩ sched).shared (run ⟨s, ts⟩ sched).threads := by
  intro sched
  induction sched with
  | nil => intro s ts _ h; exact h
  | cons i rest ih =>
    intro s ts ha hok
    rw [run_cons]
    have h := stepSys_drawsOk ha hok i
    exact ih _ _ h.2 h.1


theorem guarded_keepsDraw {f : Shared → Local → Shared × Local}
    (h : ∀ s l, (f s l).2.draw = l.draw) : ∀ s l, ((guarded f).step s l).2.draw = l.draw := by
  intro s l; simp only [guarded]; split
  · rfl
  · exact h s l

syntax "keeps_draw" : tactic
macro_rules
  | `(tactic| keeps_draw) => `(tactic|
      (apply guarded_keepsDraw
       intro s l
       repeat' split
       all_goals rfl))

theorem aRoute_keepsDraw (C : Consts) (q : Req) : ∀ s l, ((aRoute C q).step s l).2.draw = l.draw := by keeps_draw
theorem aInvoke_keepsDraw (C : Consts) (q : Req) : ∀ s l, ((aInvoke C q).step s l).2.draw = l.draw := by keeps_draw
theorem aCopyErr_keepsDraw : ∀ s l, (aCopyErr.step s l).2.draw = l.draw := by keeps_draw
theorem aReadStatus_keepsDraw (C : Consts) : ∀ s l, ((aReadStatus C).step s l).2.draw = l.draw := by keeps_draw
theorem aTestMessage_keepsDraw : ∀ s l, (aTestMessage.step s l).2.draw = l.draw := by keeps_draw
theorem aFillRead_keepsDraw (C : Consts) (fixed : Bool) : ∀ s l, ((aFillRead C fixed).step s l).2.draw = l.draw := by keeps_draw
theorem aFillWrite_fixed_keepsDraw : ∀ s l, ((aFillWrite true).step s l).2.draw = l.draw := by
  apply guarded_keepsDraw
  intro s l
  split
  · simp only [if_true, setLocalErrMessage]; split <;> rfl
  · rfl
theorem aMarshalStatus_keepsDraw : ∀ s l, (aMarshalStatus.step s l).2.draw = l.draw := by keeps_draw
theorem aMarshalMessage_keepsDraw : ∀ s l, (aMarshalMessage.step s l).2.draw = l.draw := by keeps_draw

theorem inert_of_blind {a : Act} (hb : BlindAct a) (hd : ∀ s l, (a.step s l).2.draw = l.draw) : DrawOrInert a :=
  Or.inr fun s l => ⟨by rw [hb.1 s l], hd s l⟩

theorem serveProg_fixed_drawOrInert (C : Consts) (q : Req) : ∀ a ∈ serveProg C true q, DrawOrInert a := by
  intro a ha
  have hb := serveProg_fixed_blind C q a ha
  simp only [serveProg, if_true, List.cons_append, List.nil_append, List.mem_cons, List.not_mem_nil, or_false] at ha
  rcases ha with rfl | rfl | rfl | rfl | rfl | rfl | rfl | rfl | rfl
  · exact inert_of_blind hb (aRoute_keepsDraw C q)
  · exact inert_of_blind hb (aInvoke_keepsDraw C q)
  · exact inert_of_blind hb aCopyErr_keepsDraw
  · exact inert_of_blind hb (aReadStatus_keepsDraw C)
  · exact inert_of_blind hb aTestMessage_keepsDraw
  · exact inert_of_blind hb (aFillRead_keepsDraw C true)
  · exact inert_of_blind hb aFillWrite_fixed_keepsDraw
  · exact inert_of_blind hb aMarshalStatus_keepsDraw
  · exact inert_of_blind hb aMarshalMessage_keepsDraw

theorem loadProg_drawOrInert (ty : Nat) : ∀ a ∈ loadProg ty, DrawOrInert a := by
  intro a ha
  have hb := loadProg_blind ty a ha
  simp only [loadProg, List.mem_cons, List.not_mem_nil, or_false] at ha
  subst ha
  exact inert_of_blind hb (fun _ _ => rfl)

theorem resolveProg_locked_drawOrInert : ∀ a ∈ resolveProg true, DrawOrInert a := by
  intro a ha
  simp only [resolveProg, if_true, List.cons_append, List.nil_append, List.mem_cons, List.not_mem_nil, or_false] at ha
  rcases ha with rfl | rfl | rfl
  · exact Or.inr fun _ _ => ⟨rfl, rfl⟩
  · exact Or.inl rfl
  · refine Or.inr fun s l => ?_
    simp only [aChoose]; split <;> exact ⟨rfl, rfl⟩

end Restli.SharedCells
