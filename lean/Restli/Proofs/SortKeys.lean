import Restli.Model.Schema
/-! `bytesLt` is a strict total order on byte strings; `sortByKey` returns the unique ascending
arrangement of entries with distinct keys, hence is invariant under permutation of its input. -/
namespace Restli.Codec

theorem bytesLt_irrefl : ∀ a : Bytes, bytesLt a a = false
  | [] => rfl
  | x :: xs => by simp [bytesLt, bytesLt_irrefl xs]

theorem bytesLt_trans : ∀ a b c : Bytes, bytesLt a b = true → bytesLt b c = true → bytesLt a c = true
  | [], [], _, h, _ => by simp [bytesLt] at h
  | [], _ :: _, [], _, h => by simp [bytesLt] at h
  | [], _ :: _, _ :: _, _, _ => by simp [bytesLt]
  | _ :: _, [], _, h, _ => by simp [bytesLt] at h
  | _ :: _, _ :: _, [], _, h => by simp [bytesLt] at h
  | x :: xs, y :: ys, z :: zs, h1, h2 => by
    simp only [bytesLt] at h1 h2 ⊢
    by_cases hxy : x < y
    · by_cases hyz : y < z
      · have : x < z := UInt8.lt_trans hxy hyz
        simp [this]
      · simp only [hyz, ↓reduceIte] at h2
        by_cases hzy : z < y
        · simp [hzy] at h2
        · have : y = z := by
            exact UInt8.le_antisymm (UInt8.not_lt.mp hzy) (UInt8.not_lt.mp hyz)
          subst this; simp [hxy]
    · simp only [hxy, ↓reduceIte] at h1
      by_cases hyx : y < x
      · simp [hyx] at h1
      · have hxy' : x = y := by
          have := UInt8.le_antisymm (UInt8.not_lt.mp hyx) (UInt8.not_lt.mp hxy); exact this
        subst hxy'
        simp only [hyx, ↓reduceIte] at h1
        by_cases hxz : x < z
        · simp [hxz]
        · simp only [hxz, ↓reduceIte] at h2 ⊢
          by_cases hzx : z < x
          · simp [hzx] at h2
          · simp only [hzx, ↓reduceIte] at h2 ⊢
            exact bytesLt_trans xs ys zs h1 h2

theorem bytesLt_total : ∀ a b : Bytes, bytesLt a b = true ∨ a = b ∨ bytesLt b a = true
  | [], [] => Or.inr (Or.inl rfl)
  | [], _ :: _ => Or.inl (by simp [bytesLt])
  | _ :: _, [] => Or.inr (Or.inr (by simp [bytesLt]))
  | x :: xs, y :: ys => by
    simp only [bytesLt]
    by_cases hxy : x < y
    · exact Or.inl (by simp [hxy])
    · by_cases hyx : y < x
      · exact Or.inr (Or.inr (by simp [hyx]))
      · have : x = y := UInt8.le_antisymm (UInt8.not_lt.mp hyx) (UInt8.not_lt.mp hxy)
        subst this
        simp only [hxy, ↓reduceIte]
        rcases bytesLt_total xs ys with h | h | h
        · exact Or.inl h
        · exact Or.inr (Or.inl (by rw [h]))
        · exact Or.inr (Or.inr h)

theorem bytesLt_asymm (a b : Bytes) (h : bytesLt a b = true) : bytesLt b a = false := by
  cases hba : bytesLt b a with
  | false => rfl
  | true =>
    have := bytesLt_trans a b a h hba
    rw [bytesLt_irrefl] at this; exact absurd this (by decide)

/-- keys strictly ascending -/
def SortedKeys {α : Type} : List (Bytes × α) → Prop
  | [] => True
  | [_] => True
  | x :: y :: rest => bytesLt x.1 y.1 = true ∧ SortedKeys (y :: rest)

theorem SortedKeys.tail {α : Type} {x : Bytes × α} {l : List (Bytes × α)} (h : SortedKeys (x :: l)) :
    SortedKeys l := by
  cases l with
  | nil => trivial
  | cons y ys => exact h.2

theorem sortedKeys_head_lt {α : Type} (x : Bytes × α) (l : List (Bytes × α)) (h : SortedKeys (x :: l)) :
    ∀ y ∈ l, bytesLt x.1 y.1 = true := by
  induction l generalizing x with
  | nil => intro y hy; cases hy
  | cons z zs ih =>
    intro y hy
    rcases List.mem_cons.1 hy with rfl | hy
    · exact h.1
    · exact bytesLt_trans _ _ _ h.1 (ih z h.2 y hy)

theorem sortedKeys_cons {α : Type} (x : Bytes × α) (l : List (Bytes × α)) (hl : SortedKeys l)
    (hx : ∀ y ∈ l, bytesLt x.1 y.1 = true) : SortedKeys (x :: l) := by
  cases l with
  | nil => trivial
  | cons y ys => exact ⟨hx y (by simp), hl⟩

theorem mem_insertByKey {α : Type} (e : Bytes × α) (l : List (Bytes × α)) (y : Bytes × α) :
    y ∈ insertByKey e l ↔ y = e ∨ y ∈ l := by
  induction l with
  | nil => simp [insertByKey]
  | cons x xs ih =>
    simp only [insertByKey]
    split
    · simp
    · simp only [List.mem_cons, ih]
      constructor
      · rintro (h | h | h)
        · exact Or.inr (Or.inl h)
        · exact Or.inl h
        · exact Or.inr (Or.inr h)
      · rintro (h | h | h)
        · exact Or.inr (Or.inl h)
        · exact Or.inl h
        · exact Or.inr (Or.inr h)

theorem insertByKey_sorted {α : Type} (e : Bytes × α) (l : List (Bytes × α)) (hl : SortedKeys l)
    (hne : ∀ y ∈ l, y.1 ≠ e.1) : SortedKeys (insertByKey e l) := by
  induction l with
  | nil => trivial
  | cons x xs ih =>
    simp only [insertByKey]
    by_cases h : bytesLt e.1 x.1 = true
    · simp only [h, ↓reduceIte]
      exact ⟨h, hl⟩
    · simp only [h, Bool.false_eq_true, ↓reduceIte]
      have hxe : bytesLt x.1 e.1 = true := by
        rcases bytesLt_total e.1 x.1 with h1 | h1 | h1
        · exact absurd h1 h
        · exact absurd h1.symm (hne x (by simp))
        · exact h1
      apply sortedKeys_cons
      · exact ih hl.tail (fun y hy => hne y (by simp [hy]))
      · intro y hy
        rcases (mem_insertByKey e xs y).1 hy with rfl | hy
        · exact hxe
        · exact sortedKeys_head_lt x xs hl y hy

def KeysNodup {α : Type} (l : List (Bytes × α)) : Prop := (l.map (·.1)).Nodup

theorem mem_sortByKey {α : Type} (l : List (Bytes × α)) (y : Bytes × α) : y ∈ sortByKey l ↔ y ∈ l := by
  induction l with
  | nil => simp [sortByKey]
  | cons x xs ih => simp [sortByKey, mem_insertByKey, ih]

/-- the writer's `sort.Slice(entries, key <)`: the result is in strictly ascending key order -/
theorem sortByKey_sorted {α : Type} (l : List (Bytes × α)) (h : KeysNodup l) : SortedKeys (sortByKey l) := by
  induction l with
  | nil => trivial
  | cons x xs ih =>
    simp only [KeysNodup, List.map_cons, List.nodup_cons] at h
    simp only [sortByKey]
    apply insertByKey_sorted
    · exact ih h.2
    · intro y hy hk
      have hy' := (mem_sortByKey xs y).1 hy
      exact h.1 (by rw [← hk]; exact List.mem_map_of_mem hy')

/-- two key-sorted lists with the same members are equal -/
theorem sorted_ext {α : Type} : ∀ (l₁ l₂ : List (Bytes × α)), SortedKeys l₁ → SortedKeys l₂ →
    (∀ y, y ∈ l₁ ↔ y ∈ l₂) → l₁ = l₂
  | [], [], _, _, _ => rfl
  | [], y :: _, _, _, h => absurd ((h y).2 (by simp)) (by simp)
  | x :: _, [], _, _, h => absurd ((h x).1 (by simp)) (by simp)
  | x :: xs, y :: ys, h1, h2, h => by
    have hx : x ∈ y :: ys := (h x).1 (by simp)
    have hy : y ∈ x :: xs := (h y).2 (by simp)
    have hxy : x = y := by
      rcases List.mem_cons.1 hx with hx | hx
      · exact hx
      · rcases List.mem_cons.1 hy with hy | hy
        · exact hy.symm
        · have a := sortedKeys_head_lt y ys h2 x hx
          have b := sortedKeys_head_lt x xs h1 y hy
          rw [bytesLt_asymm _ _ a] at b; exact absurd b (by decide)
    subst hxy
    congr 1
    apply sorted_ext xs ys h1.tail h2.tail
    intro z
    constructor
    · intro hz
      rcases List.mem_cons.1 ((h z).1 (by simp [hz])) with rfl | hz'
      · have := sortedKeys_head_lt z xs h1 z hz
        rw [bytesLt_irrefl] at this; exact absurd this (by decide)
      · exact hz'
    · intro hz
      rcases List.mem_cons.1 ((h z).2 (by simp [hz])) with rfl | hz'
      · have := sortedKeys_head_lt z ys h2 z hz
        rw [bytesLt_irrefl] at this; exact absurd this (by decide)
      · exact hz'

/-- the sorted output does not depend on the order in which the entries were supplied -/
theorem sortByKey_perm {α : Type} (l₁ l₂ : List (Bytes × α)) (hp : l₁.Perm l₂) (hn : KeysNodup l₁) :
    sortByKey l₁ = sortByKey l₂ := by
  have hn2 : KeysNodup l₂ := by
    unfold KeysNodup at hn ⊢
    exact (hp.map (fun e => e.1)).nodup_iff.1 hn
  apply sorted_ext _ _ (sortByKey_sorted l₁ hn) (sortByKey_sorted l₂ hn2)
  intro y
  rw [mem_sortByKey, mem_sortByKey]
  exact hp.mem_iff

end Restli.Codec
