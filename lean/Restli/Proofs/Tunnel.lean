import Restli.Proofs.Multipart
import Restli.Model.Tunnel
/-! Helper lemmas about `Model.Tunnel` (no property statements here). -/
namespace Restli.Tunnel
open Restli Restli.Url Restli.Mime Restli.TunnelSpec

/-! ### `mime.ParseMediaType(mime.FormatMediaType("multipart/mixed", {"boundary": b}))` -/

theorem takeWhile_append_stop {α} (p : α → Bool) (A : List α) (x : α) (r : List α)
    (hA : ∀ a ∈ A, p a = true) (hx : p x = false) :
    (A ++ x :: r).takeWhile p = A ∧ (A ++ x :: r).dropWhile p = x :: r := by
  induction A with
  | nil => simp [List.takeWhile, List.dropWhile, hx]
  | cons a as ih =>
    have ha := hA a (by simp)
    have := ih (fun y hy => hA y (by simp [hy]))
    simp [List.takeWhile, List.dropWhile, ha, this.1, this.2]

theorem takeWhile_all {α} (p : α → Bool) (A : List α) (hA : ∀ a ∈ A, p a = true) :
    A.takeWhile p = A ∧ A.dropWhile p = [] := by
  induction A with
  | nil => simp
  | cons a as ih =>
    have ha := hA a (by simp)
    have := ih (fun y hy => hA y (by simp [hy]))
    simp [List.takeWhile, List.dropWhile, ha, this.1, this.2]

/-- what the proofs need of the media type `t` and attribute `a` (checked by evaluation on the constants) -/
def mediaOk (t a : Bytes) : Bool :=
  checkMediaType t && (t.map toLowerByte == t && trimSpace t == t) && !t.contains cSemi && t.all (· < 128) &&
    isToken a && a.map toLowerByte == a && !a.contains cStar &&
    (let c := cut cSlash t; c.2.2 && isToken c.1 && isToken c.2.1)

theorem isTokenChar_facts (c : UInt8) (h : isTokenChar c = true) :
    isSpace c = false ∧ c ≠ cDQuote ∧ (c ≥ 128) = False ∧ c ≠ cCR ∧ c ≠ cLF := by
  have := byte_forall (fun c => !(isTokenChar c) || (!isSpace c && c != cDQuote && !(decide (c ≥ 128)) && c != cCR && c != cLF))
    (by decide +kernel) c
  simp only [h, Bool.not_true, Bool.false_or, Bool.and_eq_true, Bool.not_eq_true', bne_iff_ne, ne_eq,
    decide_eq_false_iff_not] at this
  exact ⟨this.1.1.1.1, this.1.1.1.2, by simpa using this.1.1.2, this.1.2, this.2⟩

theorem parse_format_mediatype (t a b : Bytes) (hta : mediaOk t a = true) (hb : isToken b = true) :
    ∃ ct, formatMediaType1 t a b = .ok ct ∧ ct ≠ [] ∧ parseMediaType ct = .ok (t, [(a, b)]) := by
  simp only [mediaOk, Bool.and_eq_true, Bool.not_eq_true', beq_iff_eq, List.all_eq_true, decide_eq_true_eq] at hta
  obtain ⟨⟨⟨⟨⟨⟨⟨hcheck, htrim⟩, hsemi⟩, hascii⟩, hatok⟩, halow⟩, hastar⟩, hcut⟩ := hta
  have hbne : b ≠ [] := by
    intro e; simp [isToken, e] at hb
  have hball : ∀ c ∈ b, isTokenChar c = true := by
    simp only [isToken, Bool.and_eq_true, List.all_eq_true] at hb; exact hb.2
  have haall : ∀ c ∈ a, isTokenChar c = true := by
    simp only [isToken, Bool.and_eq_true, List.all_eq_true] at hatok; exact hatok.2
  have hane : a ≠ [] := by
    intro e; simp [isToken, e] at hatok
  obtain ⟨htlow, htrim'⟩ := htrim
  refine ⟨t ++ [cSemi, cSP] ++ a ++ [cEq] ++ b, ?_, by simp, ?_⟩
  · simp only [formatMediaType1, hcut, hatok, hb, htlow, halow]
    simp
  · -- parse
    have hsemi' : cSemi ∉ t := fun hm => by
      have := List.contains_iff_mem.2 hm; rw [hsemi] at this; exact absurd this (by simp)
    have hany : (t ++ [cSemi, cSP] ++ a ++ [cEq] ++ b).any (· ≥ 128) = false := by
      rw [List.any_eq_false]
      intro c hc
      simp only [List.mem_append, List.mem_cons, List.not_mem_nil, or_false] at hc
      rcases hc with (((hc | hc | hc) | hc) | hc) | hc
      · have := hascii c hc; simpa using this
      · rw [hc]; decide
      · rw [hc]; decide
      · have := (isTokenChar_facts c (haall c hc)).2.2.1; simp [this]
      · rw [hc]; decide
      · have := (isTokenChar_facts c (hball c hc)).2.2.1; simp [this]
    have hbase : (cut cSemi (t ++ [cSemi, cSP] ++ a ++ [cEq] ++ b)).1 = t := by
      have := cut_append cSemi t (cSP :: (a ++ [cEq] ++ b)) hsemi'
      simp only [List.append_assoc, List.cons_append, List.nil_append] at this ⊢
      rw [this]
    have hdrop : (t ++ [cSemi, cSP] ++ a ++ [cEq] ++ b).drop t.length = cSemi :: cSP :: (a ++ cEq :: b) := by
      simp [List.append_assoc]
    obtain ⟨a0, as, ha0⟩ := List.exists_cons_of_ne_nil hane
    obtain ⟨b0, bs, hb0⟩ := List.exists_cons_of_ne_nil hbne
    have ha0f := isTokenChar_facts a0 (haall a0 (by simp [ha0]))
    have hb0f := isTokenChar_facts b0 (hball b0 (by simp [hb0]))
    have hEqNotTok : isTokenChar cEq = false := by decide
    have htwA := takeWhile_append_stop isTokenChar a cEq b haall hEqNotTok
    have htwB := takeWhile_all isTokenChar b hball
    have hparam : consumeMediaParam (cSemi :: cSP :: (a ++ cEq :: b)) = some (a, b, []) := by
      have h1 : trimLeftSpace (cSemi :: cSP :: (a ++ cEq :: b)) = cSemi :: cSP :: (a ++ cEq :: b) := by
        simp [trimLeftSpace, List.dropWhile, show isSpace cSemi = false by decide]
      have h2 : trimLeftSpace (cSP :: (a ++ cEq :: b)) = a ++ cEq :: b := by
        simp [trimLeftSpace, List.dropWhile, show isSpace cSP = true by decide, ha0, ha0f.1]
      have h3 : trimLeftSpace (cEq :: b) = cEq :: b := by
        simp [trimLeftSpace, List.dropWhile, show isSpace cEq = false by decide]
      have h4 : trimLeftSpace b = b := by
        simp [trimLeftSpace, hb0, List.dropWhile, hb0f.1]
      have h5 : consumeValue b = (b, []) := by
        simp only [consumeValue, hb0]
        have : (b0 != cDQuote) = true := by simpa using hb0f.2.1
        simp only [this, if_true, consumeToken]
        rw [← hb0, htwB.1, htwB.2]
      simp only [consumeMediaParam, h1, show (cSemi != cSemi) = false by decide, Bool.false_eq_true, if_false,
        h2, consumeToken, htwA.1, htwA.2, halow, h3, show (cEq != cEq) = false by decide, h4, h5]
      simp [hane, hbne]
    have hstar : a.contains cStar = false := hastar
    obtain ⟨f, hf⟩ : ∃ f, (t ++ [cSemi, cSP] ++ a ++ [cEq] ++ b).length + 1 = f + 2 :=
      ⟨(t ++ [cSemi, cSP] ++ a ++ [cEq] ++ b).length - 1, by simp; omega⟩
    have hloop : paramLoop ((t ++ [cSemi, cSP] ++ a ++ [cEq] ++ b).length + 1) (cSemi :: cSP :: (a ++ cEq :: b)) []
        = .ok [(a, b)] := by
      rw [hf, paramLoop]
      have h1 : trimLeftSpace (cSemi :: cSP :: (a ++ cEq :: b)) = cSemi :: cSP :: (a ++ cEq :: b) := by
        simp [trimLeftSpace, List.dropWhile, show isSpace cSemi = false by decide]
      simp only [h1, hparam, hstar, List.lookup, List.isEmpty_cons, Bool.false_eq_true, if_false, List.nil_append]
      rw [paramLoop]
      simp [trimLeftSpace]
    simp only [parseMediaType, hany, Bool.false_eq_true, if_false, hbase, htlow]
    simp only [htrim', hcheck, Bool.not_true, Bool.false_eq_true, if_false, hdrop, hloop]

/-! ### `http.Header` bookkeeping -/

/-- no entry of `h` has key `k` -/
def Avoids (h : Hdr) (k : Bytes) : Prop := ∀ kv ∈ h, kv.1 ≠ k

theorem find_avoids (h : Hdr) (k : Bytes) (ha : Avoids h k) : h.find k = none := by
  induction h with
  | nil => rfl
  | cons kv r ih =>
    have h1 : kv.1 ≠ k := ha kv (by simp)
    have h2 := ih (fun x hx => ha x (by simp [hx]))
    obtain ⟨a, vs⟩ := kv
    simp only [Hdr.find]
    simp [h1, h2]

theorem filter_avoids (h : Hdr) (k : Bytes) (ha : Avoids h k) : h.filter (fun kv => kv.1 != k) = h := by
  rw [List.filter_eq_self]
  intro kv hkv
  simpa using ha kv hkv

theorem find_append (h x : Hdr) (k : Bytes) (ha : Avoids h k) : Hdr.find (h ++ x) k = Hdr.find x k := by
  induction h with
  | nil => rfl
  | cons kv r ih =>
    have h1 : kv.1 ≠ k := ha kv (by simp)
    obtain ⟨a, vs⟩ := kv
    simp only [List.cons_append, Hdr.find]
    simp only [show (a == k) = false by simpa using h1, Bool.false_eq_true, if_false]
    exact ih (fun y hy => ha y (by simp [hy]))

theorem find_cons_self (k : Bytes) (vs : List Bytes) (r : Hdr) : Hdr.find ((k, vs) :: r) k = some vs := by
  simp [Hdr.find]

theorem find_cons_ne (k k' : Bytes) (vs : List Bytes) (r : Hdr) (h : k ≠ k') :
    Hdr.find ((k, vs) :: r) k' = Hdr.find r k' := by
  simp [Hdr.find, h]

/-- `Header.Set` on a header that does not have the key yet -/
theorem set_avoids (h : Hdr) (k v : Bytes) (ha : Avoids h (canonicalKey k)) : h.set k v = h ++ [(canonicalKey k, [v])] := by
  simp [Hdr.set, Hdr.del, filter_avoids h _ ha]

/-- canonical names of the headers the model touches -/
structure Keys where
  O : Bytes   -- X-Http-Method-Override
  C : Bytes   -- Content-Type
  PV : Bytes
  RM : Bytes
  A : Bytes

def keysOf (K : Consts) : Keys :=
  { O := canonicalKey K.hdrOverride, C := canonicalKey K.hdrContentType, PV := canonicalKey K.hdrProtocolVersion,
    RM := canonicalKey K.hdrRestliMethod, A := canonicalKey hdrAccept }

def simpleHeaderB (k v : Bytes) : Bool :=
  !k.isEmpty && k.all validFieldByte && canonLoop true k == k && !v.isEmpty && v.all validValueByte &&
    v.head? != some cSP && v.head? != some cTAB && v.getLast? != some cSP && v.getLast? != some cTAB &&
    k != Mime.strB "Content-Transfer-Encoding"

theorem simpleHeader_of_B (k v : Bytes) (h : simpleHeaderB k v = true) : SimpleHeader k v := by
  simp only [simpleHeaderB, Bool.and_eq_true, Bool.not_eq_true', List.isEmpty_eq_false_iff, beq_iff_eq, bne_iff_ne,
    ne_eq] at h
  obtain ⟨⟨⟨⟨⟨⟨⟨⟨⟨h1, h2⟩, h3⟩, h4⟩, h5⟩, h6⟩, h7⟩, h8⟩, h9⟩, h10⟩ := h
  exact ⟨h1, h2, h3, h4, h5, ⟨h6, h7⟩, ⟨h8, h9⟩, h10⟩

/-- everything the proofs use about the constants; checked by evaluation for both modules -/
def goodB (K : Consts) : Bool :=
  let k := keysOf K
  canonicalKey k.O == k.O && canonicalKey k.C == k.C && K.hdrContentType == k.C &&
  k.O != k.C && k.PV != k.O && k.PV != k.C && k.RM != k.O && k.RM != k.C && k.A != k.O && k.A != k.C &&
  k.PV != k.RM && k.PV != k.A && k.RM != k.A &&
  simpleHeaderB K.hdrContentType K.ctForm && simpleHeaderB K.hdrContentType K.ctJson &&
  K.ctForm != K.ctJson && K.ctForm != K.ctMultipart && K.ctJson != K.ctMultipart &&
  decide (parseMediaType K.ctForm = .ok (K.ctForm, [])) &&
  mediaOk K.ctMultipart K.boundaryParam

structure Good (K : Consts) : Prop where
  canonO : canonicalKey (keysOf K).O = (keysOf K).O
  canonC : canonicalKey (keysOf K).C = (keysOf K).C
  ctKey : K.hdrContentType = (keysOf K).C
  oc : (keysOf K).O ≠ (keysOf K).C
  pvo : (keysOf K).PV ≠ (keysOf K).O
  pvc : (keysOf K).PV ≠ (keysOf K).C
  rmo : (keysOf K).RM ≠ (keysOf K).O
  rmc : (keysOf K).RM ≠ (keysOf K).C
  ao : (keysOf K).A ≠ (keysOf K).O
  ac : (keysOf K).A ≠ (keysOf K).C
  pvrm : (keysOf K).PV ≠ (keysOf K).RM
  pva : (keysOf K).PV ≠ (keysOf K).A
  rma : (keysOf K).RM ≠ (keysOf K).A
  hForm : SimpleHeader K.hdrContentType K.ctForm
  hJson : SimpleHeader K.hdrContentType K.ctJson
  fj : K.ctForm ≠ K.ctJson
  fm : K.ctForm ≠ K.ctMultipart
  jm : K.ctJson ≠ K.ctMultipart
  parseForm : parseMediaType K.ctForm = .ok (K.ctForm, [])
  media : mediaOk K.ctMultipart K.boundaryParam = true

theorem good_of_B (K : Consts) (h : goodB K = true) : Good K := by
  simp only [goodB, Bool.and_eq_true, beq_iff_eq, bne_iff_ne, ne_eq, decide_eq_true_eq] at h
  obtain ⟨⟨⟨⟨⟨⟨⟨⟨⟨⟨⟨⟨⟨⟨⟨⟨⟨⟨⟨h1, h2⟩, h3⟩, h4⟩, h5⟩, h6⟩, h7⟩, h8⟩, h9⟩, h10⟩, h11⟩, h12⟩, h13⟩, h14⟩, h15⟩, h16⟩, h17⟩, h18⟩, h19⟩, h20⟩ := h
  exact ⟨h1, h2, h3, h4, h5, h6, h7, h8, h9, h10, h11, h12, h13, simpleHeader_of_B _ _ h14, simpleHeader_of_B _ _ h15,
    h16, h17, h18, h19, h20⟩

/-- the three headers `newRequest` always sets -/
def baseHdr (K : Consts) (rm : Bytes) : Hdr :=
  ((Hdr.set [] K.hdrProtocolVersion K.protocolVersion).set K.hdrRestliMethod rm).set hdrAccept K.ctJson

theorem baseHdr_eq (K : Consts) (g : Good K) (rm : Bytes) :
    baseHdr K rm = [((keysOf K).PV, [K.protocolVersion]), ((keysOf K).RM, [rm]), ((keysOf K).A, [K.ctJson])] := by
  have h1 : Hdr.set [] K.hdrProtocolVersion K.protocolVersion = [((keysOf K).PV, [K.protocolVersion])] := by
    simp [Hdr.set, Hdr.del, keysOf]
  have a1 : Avoids [((keysOf K).PV, [K.protocolVersion])] (canonicalKey K.hdrRestliMethod) := by
    intro kv hkv; simp at hkv; rw [hkv]; exact g.pvrm
  have a2 : Avoids ([((keysOf K).PV, [K.protocolVersion])] ++ [(canonicalKey K.hdrRestliMethod, [rm])]) (canonicalKey hdrAccept) := by
    intro kv hkv
    simp at hkv
    rcases hkv with rfl | rfl
    · exact g.pva
    · exact g.rma
  rw [baseHdr, h1, set_avoids _ _ _ a1, set_avoids _ _ _ a2]
  rfl

theorem baseHdr_avoids (K : Consts) (g : Good K) (rm : Bytes) :
    Avoids (baseHdr K rm) (keysOf K).O ∧ Avoids (baseHdr K rm) (keysOf K).C := by
  rw [baseHdr_eq K g]
  constructor <;> intro kv hkv <;> simp at hkv <;> rcases hkv with rfl | rfl | rfl
  · exact g.pvo
  · exact g.rmo
  · exact g.ao
  · exact g.pvc
  · exact g.rmc
  · exact g.ac

/-! ### the request `newRequest` builds -/

def bodyOf (x : Option Bytes) : Body :=
  match x with
  | none => Body.noBody
  | some x => if x.isEmpty then Body.noBody else Body.bytes x

theorem assignAll_avoiding (B : Hdr) (k1 k2 : Bytes) (v1 v2 : List Bytes) (h1 : Avoids B k1) (h2 : Avoids B k2)
    (hne : k1 ≠ k2) : assignAll B [(k1, v1), (k2, v2)] = B ++ [(k1, v1), (k2, v2)] := by
  have a2 : Avoids (B ++ [(k1, v1)]) k2 := by
    intro kv hkv
    rcases List.mem_append.1 hkv with h | h
    · exact h2 kv h
    · simp at h; rw [h]; exact hne
  simp only [assignAll, List.foldl_cons, List.foldl_nil]
  rw [filter_avoids B k1 h1, filter_avoids _ k2 a2]
  simp

theorem assignAll_one (B : Hdr) (k : Bytes) (v : List Bytes) (h : Avoids B k) : assignAll B [(k, v)] = B ++ [(k, v)] := by
  simp only [assignAll, List.foldl_cons, List.foldl_nil]
  rw [filter_avoids B k h]

/-- a request whose query does not exceed the threshold (or threshold 0) -/
theorem sent_plain (K : Consts) (g : Good K) (b : Bytes) (T : Nat) (path : Bytes) (fq : Bool) (q m rm : Bytes)
    (contents : Option Bytes) (hT : shouldTunnel T q = false) :
    sentRequest K b T path fq q m rm contents = .ok
      { method := m, path := path, forceQuery := fq, rawQuery := q,
        header := baseHdr K rm ++ (if contents.isSome then [((keysOf K).C, [K.ctJson])] else []),
        body := bodyOf contents, requestURI := urlRequestURI path fq q } := by
  obtain ⟨ho, hc⟩ := baseHdr_avoids K g rm
  simp only [sentRequest, hT, Bool.false_eq_true, if_false]
  cases contents with
  | none => simp [assignAll, bodyOf, baseHdr]
  | some x =>
    have : Hdr.set [] K.hdrContentType K.ctJson = [((keysOf K).C, [K.ctJson])] := by simp [Hdr.set, Hdr.del, keysOf]
    simp only [Option.isSome_some, if_true, this]
    have := assignAll_one (baseHdr K rm) (keysOf K).C [K.ctJson] hc
    simp only [baseHdr] at this
    simp [this, bodyOf, baseHdr]

/-- the header block of a tunnelled request -/
theorem tunnel_headers (K : Consts) (g : Good K) (m ct : Bytes) (h0 : Hdr)
    (hh0 : h0 = [] ∨ h0 = [((keysOf K).C, [K.ctJson])]) :
    let th := (Hdr.add [] K.hdrOverride m).add K.hdrContentType ct
    th.foldl (fun acc kv => acc.set kv.1 (th.get kv.1)) h0 = [((keysOf K).O, [m]), ((keysOf K).C, [ct])] := by
  have hth : (Hdr.add [] K.hdrOverride m).add K.hdrContentType ct = [((keysOf K).O, [m]), ((keysOf K).C, [ct])] := by
    have h1 : Hdr.add [] K.hdrOverride m = [((keysOf K).O, [m])] := by simp [Hdr.add, Hdr.find, keysOf]
    rw [h1]
    have : Hdr.find [((keysOf K).O, [m])] (canonicalKey K.hdrContentType) = none := by
      apply find_avoids; intro kv hkv; simp at hkv; rw [hkv]; exact g.oc
    simp only [Hdr.add, this]
    rfl
  simp only [hth, List.foldl_cons, List.foldl_nil]
  have getO : Hdr.get [((keysOf K).O, [m]), ((keysOf K).C, [ct])] (keysOf K).O = m := by
    simp [Hdr.get, g.canonO, Hdr.find]
  have getC : Hdr.get [((keysOf K).O, [m]), ((keysOf K).C, [ct])] (keysOf K).C = ct := by
    simp [Hdr.get, g.canonC, Hdr.find, g.oc]
  rw [getO, getC]
  rcases hh0 with rfl | rfl
  · simp [Hdr.set, Hdr.del, g.canonO, g.canonC, g.oc]
  · have hco : (keysOf K).C ≠ (keysOf K).O := fun e => g.oc e.symm
    simp [Hdr.set, Hdr.del, g.canonO, g.canonC, g.oc, hco]

/-- the boundary the proofs cover: a MIME token (what `multipart.Writer` draws: 60 hex digits) of at most 70 bytes -/
structure TokenBoundary (b : Bytes) : Prop where
  tok : isToken b = true
  short : b.length ≤ 70

theorem boundaryOk_of_token (b : Bytes) (h : TokenBoundary b) : BoundaryOk b := by
  have hall : ∀ c ∈ b, isTokenChar c = true := by
    have := h.tok; simp only [isToken, Bool.and_eq_true, List.all_eq_true] at this; exact this.2
  refine ⟨?_, fun hm => (isTokenChar_facts _ (hall _ hm)).2.2.2.1 rfl, fun hm => (isTokenChar_facts _ (hall _ hm)).2.2.2.2 rfl, h.short⟩
  intro e; have := h.tok; simp [isToken, e] at this

/-- what `EncodeTunnelledQuery` produces for a body-less request / a request with a body -/
def tunnelledBody (K : Consts) (b q : Bytes) (contents : Option Bytes) : Bytes :=
  if (contents.getD []).isEmpty then q
  else writeParts b [{ key := K.hdrContentType, value := K.ctForm, content := q },
                     { key := K.hdrContentType, value := K.ctJson, content := contents.getD [] }]

/-- a request whose query exceeds the threshold -/
theorem sent_tunnelled (K : Consts) (g : Good K) (b : Bytes) (hb : TokenBoundary b) (T : Nat) (path : Bytes) (fq : Bool)
    (q m rm : Bytes) (contents : Option Bytes) (hT : shouldTunnel T q = true) :
    ∃ ct, (if (contents.getD []).isEmpty then ct = K.ctForm
           else ct ≠ [] ∧ parseMediaType ct = .ok (K.ctMultipart, [(K.boundaryParam, b)])) ∧
      sentRequest K b T path fq q m rm contents = .ok
        { method := methodPost, path := path, forceQuery := fq, rawQuery := [],
          header := baseHdr K rm ++ [((keysOf K).O, [m]), ((keysOf K).C, [ct])],
          body := bodyOf (some (tunnelledBody K b q contents)), requestURI := urlRequestURI path fq [] } := by
  obtain ⟨ho, hc⟩ := baseHdr_avoids K g rm
  have hh0 : (if contents.isSome then Hdr.set [] K.hdrContentType K.ctJson else []) = [] ∨
      (if contents.isSome then Hdr.set [] K.hdrContentType K.ctJson else []) = [((keysOf K).C, [K.ctJson])] := by
    cases contents with
    | none => left; rfl
    | some x => right; simp [Hdr.set, Hdr.del, keysOf]
  by_cases he : (contents.getD []).isEmpty = true
  · refine ⟨K.ctForm, by simp [he], ?_⟩
    simp only [sentRequest, hT, if_true, encodeTunnelledQuery, he, Bool.not_true, Bool.false_eq_true, if_false]
    have := tunnel_headers K g m K.ctForm _ hh0
    simp only at this
    have e := assignAll_avoiding (baseHdr K rm) _ _ [m] [K.ctForm] ho hc g.oc
    simp only [baseHdr] at e
    rw [this, e]
    simp [bodyOf, tunnelledBody, he, baseHdr]
  · have he' : (contents.getD []).isEmpty = false := by simpa using he
    obtain ⟨ct, hfmt, hctne, hparse⟩ := parse_format_mediatype K.ctMultipart K.boundaryParam b g.media hb.tok
    refine ⟨ct, by simp [he', hctne, hparse], ?_⟩
    simp only [sentRequest, hT, if_true, encodeTunnelledQuery, he', Bool.not_false, hfmt]
    have := tunnel_headers K g m ct _ hh0
    simp only at this
    have e := assignAll_avoiding (baseHdr K rm) _ _ [m] [ct] ho hc g.oc
    simp only [baseHdr] at e
    rw [this, e]
    simp [bodyOf, tunnelledBody, he', baseHdr]

/-! ### de-tunnelling what the client sent -/

theorem getAndDelete_last2 (B : Hdr) (k kc O C m ct : Bytes) (hk : canonicalKey k = O) (hB : Avoids B O)
    (hOC : O ≠ C) (hm : m ≠ []) (_ : kc = kc) :
    getAndDelete (B ++ [(O, [m]), (C, [ct])]) k = (m, B ++ [(C, [ct])]) := by
  have hget : Hdr.get (B ++ [(O, [m]), (C, [ct])]) k = m := by
    simp [Hdr.get, hk, find_append B _ O hB, Hdr.find]
  have hdel : Hdr.del (B ++ [(O, [m]), (C, [ct])]) k = B ++ [(C, [ct])] := by
    have hCO : C ≠ O := fun e => hOC e.symm
    simp [Hdr.del, hk, List.filter_append, filter_avoids B O hB, hCO]
  simp [getAndDelete, hget, hdel, hm]

theorem getAndDelete_last1 (B : Hdr) (k C ct : Bytes) (hk : canonicalKey k = C) (hB : Avoids B C) (hct : ct ≠ []) :
    getAndDelete (B ++ [(C, [ct])]) k = (ct, B) := by
  have hget : Hdr.get (B ++ [(C, [ct])]) k = ct := by
    simp [Hdr.get, hk, find_append B _ C hB, Hdr.find]
  have hdel : Hdr.del (B ++ [(C, [ct])]) k = B := by
    simp [Hdr.del, hk, List.filter_append, filter_avoids B C hB]
  simp [getAndDelete, hget, hdel, hct]

theorem good_nonempty (K : Consts) (g : Good K) : K.ctForm ≠ [] ∧ K.ctJson ≠ [] := ⟨g.hForm.vne, g.hJson.vne⟩

/-- **the core of C14**: what the server's `DecodeTunnelledQuery` makes of the tunnelled request is,
field for field, the request the client would have sent untunnelled -/
theorem decode_sent (K : Consts) (g : Good K) (b : Bytes) (hb : TokenBoundary b) (T : Nat) (path : Bytes) (fq : Bool)
    (q m rm : Bytes) (contents : Option Bytes) (hT : shouldTunnel T q = true) (hm : m ≠ [])
    (hfresh : BoundaryFresh b q (contents.getD [])) (hne : contents ≠ some []) :
    ∃ sent orig, sentRequest K b T path fq q m rm contents = .ok sent ∧
      sentRequest K b 0 path fq q m rm contents = .ok orig ∧ decodeTunnelledQuery K sent = .ok orig := by
  obtain ⟨ho, hc⟩ := baseHdr_avoids K g rm
  obtain ⟨ct, hct, hsent⟩ := sent_tunnelled K g b hb T path fq q m rm contents hT
  have hplain := sent_plain K g b 0 path fq q m rm contents (by simp [shouldTunnel])
  refine ⟨_, _, hsent, hplain, ?_⟩
  have hq : q ≠ [] := by
    intro e; simp [shouldTunnel, e] at hT
  have hkO : canonicalKey K.hdrOverride = (keysOf K).O := rfl
  have hkC : canonicalKey K.hdrContentType = (keysOf K).C := rfl
  have hgd1 := getAndDelete_last2 (baseHdr K rm) K.hdrOverride [] _ (keysOf K).C m ct hkO ho g.oc hm rfl
  have hpost : (methodPost != methodPost) = false := by simp
  have hmE : m.isEmpty = false := by simpa using hm
  by_cases he : (contents.getD []).isEmpty = true
  · -- no body: form-urlencoded
    simp only [he, if_true] at hct
    subst hct
    have hcn : contents = none := by
      cases contents with
      | none => rfl
      | some x =>
        have : x = [] := by simpa using he
        exact absurd (by rw [this]) hne
    subst hcn
    have hgd2 := getAndDelete_last1 (baseHdr K rm) K.hdrContentType (keysOf K).C K.ctForm hkC hc (good_nonempty K g).1
    have hbody : bodyOf (some (tunnelledBody K b q none)) = Body.bytes q := by
      simp [bodyOf, tunnelledBody, hq]
    simp only [decodeTunnelledQuery, hgd1, hpost, hmE, Bool.or_self, Bool.false_eq_true, if_false, List.isEmpty_nil,
      Bool.not_true, hbody, hgd2, g.parseForm, beq_self_eq_true, if_true]
    simp [bodyOf]
  · -- a body: multipart/mixed
    have he' : (contents.getD []).isEmpty = false := by simpa using he
    simp only [he', Bool.false_eq_true, if_false] at hct
    obtain ⟨hctne, hparse⟩ := hct
    obtain ⟨x, hx⟩ : ∃ x, contents = some x := by
      cases contents with
      | none => simp at he'
      | some x => exact ⟨x, rfl⟩
    subst hx
    have hxne : x ≠ [] := by simpa using he'
    have hgd2 := getAndDelete_last1 (baseHdr K rm) K.hdrContentType (keysOf K).C ct hkC hc hctne
    have hbo := boundaryOk_of_token b hb
    have hparts := readParts_writeParts b hbo
      [{ key := K.hdrContentType, value := K.ctForm, content := q },
       { key := K.hdrContentType, value := K.ctJson, content := x }]
      (by
        intro p hp
        simp at hp
        rcases hp with rfl | rfl
        · exact ⟨g.hForm, hfresh.inQuery⟩
        · exact ⟨g.hJson, hfresh.inBody⟩)
    have hwne : writeParts b [{ key := K.hdrContentType, value := K.ctForm, content := q },
        { key := K.hdrContentType, value := K.ctJson, content := x }] ≠ [] := by
      simp [writeParts, dashDash]
    have hbody : bodyOf (some (tunnelledBody K b q (some x))) = Body.bytes (writeParts b
        [{ key := K.hdrContentType, value := K.ctForm, content := q },
         { key := K.hdrContentType, value := K.ctJson, content := x }]) := by
      simp [bodyOf, tunnelledBody, hxne, hwne]
    have hlk : ∀ v : Bytes, partHeaderGet [(K.hdrContentType, v)] K.hdrContentType = v := by
      intro v
      have e1 : canonicalKey K.hdrContentType = K.hdrContentType := by rw [hkC]; exact g.ctKey.symm
      simp [partHeaderGet, e1, List.lookup]
    have hget := hlk K.ctForm
    have hget2 := hlk K.ctJson
    have hset : (baseHdr K rm).set K.hdrContentType K.ctJson = baseHdr K rm ++ [((keysOf K).C, [K.ctJson])] :=
      set_avoids _ _ _ hc
    have hmf : (K.ctMultipart == K.ctForm) = false := by simpa using fun e => g.fm e.symm
    have hjf : (K.ctJson == K.ctForm) = false := by simpa using fun e => g.fj e.symm
    simp only [decodeTunnelledQuery, hgd1, hpost, hmE, Bool.or_self, Bool.false_eq_true, if_false, List.isEmpty_nil,
      Bool.not_true, hbody, hgd2, hparse, hmf, beq_self_eq_true, if_true, List.lookup, Option.getD_some, hparts,
      asParts, applyParts, hget, hget2, hjf, hset]
    have hqE : q.isEmpty = false := by simpa using hq
    simp [hqE, bodyOf, hxne]

/-! ### requests that are not tunnelled; malformed tunnelled requests -/

theorem getAndDelete_of_get (h : Hdr) (k : Bytes) :
    getAndDelete h k = if (h.get k).isEmpty then ([], h) else (h.get k, h.del k) := rfl

/-- `DecodeTunnelledQuery` leaves a request without the override header alone -/
theorem decode_no_override (K : Consts) (req : Req) (h : req.header.get K.hdrOverride = []) :
    decodeTunnelledQuery K req = .ok req := by
  simp [decodeTunnelledQuery, getAndDelete, h]

theorem plain_header_no_override (K : Consts) (g : Good K) (rm : Bytes) (x : Hdr)
    (hx : x = [] ∨ x = [((keysOf K).C, [K.ctJson])]) : (baseHdr K rm ++ x).get K.hdrOverride = [] := by
  obtain ⟨ho, _⟩ := baseHdr_avoids K g rm
  have : Avoids (baseHdr K rm ++ x) (keysOf K).O := by
    intro kv hkv
    rcases List.mem_append.1 hkv with h | h
    · exact ho kv h
    · rcases hx with rfl | rfl
      · simp at h
      · simp at h; rw [h]; exact fun e => g.oc e.symm
  have hk : canonicalKey K.hdrOverride = (keysOf K).O := rfl
  simp [Hdr.get, hk, find_avoids _ _ this]

/-- what the de-tunnelling loop makes of well-formed parts that all carry a `Content-Type` header -/
def foldParts (K : Consts) : List WPart → Bytes → Body → Hdr → Res (Bytes × Body × Hdr)
  | [], q, body, h => .ok (q, body, h)
  | p :: ps, q, body, h =>
    if p.value == K.ctForm then foldParts K ps p.content body h
    else if p.value == K.ctJson then foldParts K ps q (.bytes p.content) (h.set K.hdrContentType K.ctJson)
    else .err

theorem applyParts_asParts (K : Consts) (g : Good K) (ps : List WPart) (hk : ∀ p ∈ ps, p.key = K.hdrContentType)
    (q : Bytes) (body : Body) (h : Hdr) : applyParts K (asParts ps) q body h = foldParts K ps q body h := by
  induction ps generalizing q body h with
  | nil => rfl
  | cons p ps ih =>
    have hp := hk p (by simp)
    have e1 : canonicalKey K.hdrContentType = K.hdrContentType := by
      have : canonicalKey K.hdrContentType = (keysOf K).C := rfl
      rw [this]; exact g.ctKey.symm
    have hget : partHeaderGet [(p.key, p.value)] K.hdrContentType = p.value := by
      simp [partHeaderGet, e1, hp, List.lookup]
    simp only [asParts, applyParts, hget, foldParts]
    split
    · exact ih (fun x hx => hk x (by simp [hx])) _ _ _
    · split
      · exact ih (fun x hx => hk x (by simp [hx])) _ _ _
      · rfl

/-- no form-urlencoded part: the query stays what it was -/
theorem foldParts_no_form (K : Consts) (ps : List WPart) (hps : ∀ p ∈ ps, p.value ≠ K.ctForm) (q : Bytes) (body : Body)
    (h : Hdr) : foldParts K ps q body h = .err ∨ ∃ b' h', foldParts K ps q body h = .ok (q, b', h') := by
  induction ps generalizing body h with
  | nil => right; exact ⟨body, h, rfl⟩
  | cons p ps ih =>
    have hp : (p.value == K.ctForm) = false := by simpa using hps p (by simp)
    simp only [foldParts, hp, Bool.false_eq_true, if_false]
    split
    · exact ih (fun x hx => hps x (by simp [hx])) _ _
    · left; rfl

/-- no JSON part: the body stays what it was -/
theorem foldParts_no_json (K : Consts) (ps : List WPart) (hps : ∀ p ∈ ps, p.value ≠ K.ctJson) (q : Bytes) (body : Body)
    (h : Hdr) : foldParts K ps q body h = .err ∨ ∃ q' h', foldParts K ps q body h = .ok (q', body, h') := by
  induction ps generalizing q h with
  | nil => right; exact ⟨q, h, rfl⟩
  | cons p ps ih =>
    have hp : (p.value == K.ctJson) = false := by simpa using hps p (by simp)
    simp only [foldParts, hp, Bool.false_eq_true, if_false]
    split
    · exact ih (fun x hx => hps x (by simp [hx])) _ _
    · left; rfl

/-- a part of unknown type after known ones: an error -/
theorem foldParts_unknown (K : Consts) (pre : List WPart) (u : WPart) (post : List WPart)
    (hpre : ∀ p ∈ pre, p.value = K.ctForm ∨ p.value = K.ctJson) (hu : u.value ≠ K.ctForm ∧ u.value ≠ K.ctJson)
    (q : Bytes) (body : Body) (h : Hdr) : foldParts K (pre ++ u :: post) q body h = .err := by
  induction pre generalizing q body h with
  | nil =>
    have h1 : (u.value == K.ctForm) = false := by simpa using hu.1
    have h2 : (u.value == K.ctJson) = false := by simpa using hu.2
    simp [foldParts, h1, h2]
  | cons p ps ih =>
    simp only [List.cons_append, foldParts]
    rcases hpre p (by simp) with hp | hp
    · simp only [hp, beq_self_eq_true, if_true]
      exact ih (fun x hx => hpre x (by simp [hx])) _ _ _
    · split
      · exact ih (fun x hx => hpre x (by simp [hx])) _ _ _
      · simp only [hp, beq_self_eq_true, if_true]
        exact ih (fun x hx => hpre x (by simp [hx])) _ _ _

/-- a POST request carrying the override header, an empty URL query, and a `multipart/mixed` body written
with boundary `b`: what `DecodeTunnelledQuery` does is the fold over its parts -/
theorem decode_multipart (K : Consts) (g : Good K) (req : Req) (b : Bytes) (hb : TokenBoundary b) (ps : List WPart)
    (params : List (Bytes × Bytes))
    (hmeth : req.method = methodPost) (hov : req.header.get K.hdrOverride ≠ []) (hq : req.rawQuery = [])
    (hct : parseMediaType ((req.header.del K.hdrOverride).get K.hdrContentType) = .ok (K.ctMultipart, params))
    (hbp : params.lookup K.boundaryParam = some b)
    (hbody : req.body = .bytes (writeParts b ps))
    (hps : ∀ p ∈ ps, p.key = K.hdrContentType ∧ GoodPart b p) :
    decodeTunnelledQuery K req =
      match foldParts K ps [] .nil ((req.header.del K.hdrOverride).del K.hdrContentType) with
      | .ok (q, body, h) =>
        if q.isEmpty then .err else if body == .nil then .err
        else .ok { req with method := req.header.get K.hdrOverride, rawQuery := q, body := body, header := h,
                            requestURI := urlRequestURI req.path req.forceQuery q }
      | .err => .err
      | .unmodelled r => .unmodelled r
      | .panic => .panic := by
  have hovE : (req.header.get K.hdrOverride).isEmpty = false := by simpa using hov
  have hctne : ((req.header.del K.hdrOverride).get K.hdrContentType) ≠ [] := by
    intro e
    rw [e] at hct
    have : parseMediaType [] = .ok ([], []) := by decide
    rw [this] at hct
    have h2 : K.ctMultipart = [] := by injection hct with h; exact (Prod.mk.inj h).1.symm
    have := g.media
    rw [h2] at this
    revert this
    simp [mediaOk, checkMediaType, consumeToken]
  have hctE : ((req.header.del K.hdrOverride).get K.hdrContentType).isEmpty = false := by simpa using hctne
  have hparts := readParts_writeParts b (boundaryOk_of_token b hb) ps (fun p hp => (hps p hp).2)
  have hmf : (K.ctMultipart == K.ctForm) = false := by simpa using fun e => g.fm e.symm
  simp only [decodeTunnelledQuery, getAndDelete_of_get, hovE, Bool.false_eq_true, if_false, hmeth, bne_self_eq_false,
    Bool.or_self, hq, List.isEmpty_nil, Bool.not_true, hbody, hctE, hct, hmf, beq_self_eq_true, if_true, hbp,
    Option.getD_some, hparts, applyParts_asParts K g ps (fun p hp => (hps p hp).1)]
  cases foldParts K ps [] Body.nil ((req.header.del K.hdrOverride).del K.hdrContentType) with
  | ok r => obtain ⟨q, body, h⟩ := r; simp
  | err => rfl
  | unmodelled r => rfl
  | panic => rfl

end Restli.Tunnel
