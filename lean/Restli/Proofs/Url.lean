import Restli.Lib.Url
import Restli.Spec.HttpUrl
/-! Helper lemmas about `Lib.Url` (no property statements here). -/
namespace Restli.Url
open Restli Restli.HttpUrlSpec

/-- finite facts about single bytes: check all 256 values -/
theorem byte_forall (P : UInt8 → Bool) (h : ∀ i : Fin 256, P (UInt8.ofNat i.val) = true) (c : UInt8) :
    P c = true := by
  have := h ⟨c.toNat, c.toNat_lt⟩
  simpa using this

/-! ### cut / splitAtByte / splitOn -/

theorem cut_append (sep : UInt8) (a b : Bytes) (h : sep ∉ a) : cut sep (a ++ sep :: b) = (a, b, true) := by
  induction a with
  | nil => simp [cut]
  | cons c cs ih =>
    have hc : c ≠ sep := fun e => h (by simp [e])
    have hcs : sep ∉ cs := fun e => h (by simp [e])
    simp [cut, hc, ih hcs]

theorem cut_none (sep : UInt8) (a : Bytes) (h : sep ∉ a) : cut sep a = (a, [], false) := by
  induction a with
  | nil => simp [cut]
  | cons c cs ih =>
    have hc : c ≠ sep := fun e => h (by simp [e])
    have hcs : sep ∉ cs := fun e => h (by simp [e])
    simp [cut, hc, ih hcs]

theorem splitAtByte_append (sep : UInt8) (a b : Bytes) (h : sep ∉ a) :
    splitAtByte sep (a ++ sep :: b) = (a, some (sep :: b)) := by
  induction a with
  | nil => simp [splitAtByte]
  | cons c cs ih =>
    have hc : c ≠ sep := fun e => h (by simp [e])
    have hcs : sep ∉ cs := fun e => h (by simp [e])
    simp [splitAtByte, hc, ih hcs]

theorem splitAtByte_none (sep : UInt8) (a : Bytes) (h : sep ∉ a) : splitAtByte sep a = (a, none) := by
  induction a with
  | nil => simp [splitAtByte]
  | cons c cs ih =>
    have hc : c ≠ sep := fun e => h (by simp [e])
    have hcs : sep ∉ cs := fun e => h (by simp [e])
    simp [splitAtByte, hc, ih hcs]

theorem splitOn_ne_nil (sep : UInt8) (s : Bytes) : splitOn sep s ≠ [] := by
  induction s with
  | nil => simp [splitOn]
  | cons c cs ih =>
    simp only [splitOn]
    split
    · simp
    · split <;> simp

/-- joining what `splitOn` produced gives the string back (each element preceded by the separator) -/
theorem join_splitOn (sep : UInt8) (s : Bytes) :
    ((splitOn sep s).map (sep :: ·)).flatten = sep :: s := by
  induction s with
  | nil => simp [splitOn]
  | cons c cs ih =>
    simp only [splitOn]
    split
    · next h =>
      have : c = sep := by simpa using h
      simp [ih, this]
    · split
      · next h t heq =>
        rw [heq] at ih
        simp at ih ⊢
        exact ih
      · next heq => exact absurd heq (splitOn_ne_nil sep cs)

theorem segmentsOf_eq_splitOn (s : Bytes) : segmentsOf s = splitOn cSlash s := by
  induction s with
  | nil => rfl
  | cons c cs ih => simp only [segmentsOf, splitOn, ih]; rfl

/-! ### resolvePath without dot segments is the identity -/

theorem foldl_resolveStep_nodots (es : List Bytes) (dst : Bytes)
    (h : ∀ e ∈ es, e ≠ [cDot] ∧ e ≠ [cDot, cDot]) :
    es.foldl resolveStep ⟨dst, false⟩ = ⟨dst ++ (es.map (cSlash :: ·)).flatten, false⟩ := by
  induction es generalizing dst with
  | nil => simp
  | cons e es ih =>
    have he := h e (by simp)
    have hes : ∀ e ∈ es, e ≠ [cDot] ∧ e ≠ [cDot, cDot] := fun x hx => h x (by simp [hx])
    simp [resolveStep, he.1, he.2, ih _ hes]

theorem resolvePath_nodots (base r : Bytes) (h : NoDotSegments (cSlash :: r)) :
    resolvePath base (cSlash :: r) = cSlash :: r := by
  have h' : ∀ e ∈ splitOn cSlash r, e ≠ [cDot] ∧ e ≠ [cDot, cDot] := by
    intro e he
    apply h
    rw [segmentsOf_eq_splitOn]
    simp [splitOn, he]
  have hlast : ∀ x, (splitOn cSlash r).getLast? = some x → x ≠ [cDot] ∧ x ≠ [cDot, cDot] :=
    fun x hx => h' x (List.mem_of_getLast? hx)
  unfold resolvePath
  simp [splitOn, resolveStep]
  rw [foldl_resolveStep_nodots _ _ h', join_splitOn]
  have hl : ¬ ((([] : Bytes) :: splitOn cSlash r).getLast?.getD [] = [cDot] ∨
      (([] : Bytes) :: splitOn cSlash r).getLast?.getD [] = [cDot, cDot]) := by
    cases hs : splitOn cSlash r with
    | nil => exact absurd hs (splitOn_ne_nil _ _)
    | cons a t =>
      have e1 : (([] : Bytes) :: a :: t).getLast? = (a :: t).getLast? := by simp [List.getLast?_cons_cons]
      rw [e1]
      cases hg : (a :: t).getLast? with
      | none => simp at hg
      | some x =>
        have := hlast x (by rw [hs]; exact hg)
        simp [this.1, this.2]
  simp [hl]

/-! ### encoded path text survives `setPath` / `EscapedPath` byte for byte -/

theorem wire_validEncodedByte (c : UInt8) (h : (wireByte c || c == 47) = true) : validEncodedByte c = true := by
  have := byte_forall (fun c => !(wireByte c || c == 47) || validEncodedByte c) (by decide +kernel) c
  simpa [h] using this

theorem hex_validEncodedByte (c : UInt8) (h : hexByte c = true) : validEncodedByte c = true := by
  have := byte_forall (fun c => !(hexByte c) || validEncodedByte c) (by decide +kernel) c
  simpa [h] using this

theorem hex_isHex (c : UInt8) (h : hexByte c = true) : isHex c = true := by
  have := byte_forall (fun c => !(hexByte c) || isHex c) (by decide +kernel) c
  simpa [h] using this

theorem pathText_validEncoded : (p : Bytes) → pathText p = true → validEncoded p = true
  | [], _ => by simp [validEncoded]
  | c :: rest, h => by
    unfold pathText at h
    split at h
    · next hc =>
      have hc' : c = 37 := by simpa using hc
      match rest, h with
      | a :: b :: rest', h =>
        simp only [Bool.and_eq_true] at h
        have ih := pathText_validEncoded rest' h.2
        simp only [validEncoded, List.all_cons, Bool.and_eq_true] at ih ⊢
        exact ⟨by rw [hc']; decide, hex_validEncodedByte a h.1.1, hex_validEncodedByte b h.1.2, ih⟩
    · simp only [Bool.and_eq_true] at h
      have ih := pathText_validEncoded rest h.2
      simp only [validEncoded, List.all_cons, Bool.and_eq_true] at ih ⊢
      exact ⟨wire_validEncodedByte c h.1, ih⟩

theorem pathText_unescape : (p : Bytes) → pathText p = true → ∃ x, unescape p = some x
  | [], _ => ⟨[], by simp [unescape]⟩
  | c :: rest, h => by
    unfold pathText at h
    split at h
    · next hc =>
      match rest, h with
      | a :: b :: rest', h =>
        simp only [Bool.and_eq_true] at h
        obtain ⟨x, hx⟩ := pathText_unescape rest' h.2
        have hc' : (c == cPct) = true := hc
        exact ⟨(unhex a <<< 4 ||| unhex b) :: x, by simp [unescape, hc', hex_isHex a h.1.1, hex_isHex b h.1.2, hx]⟩
    · next hc =>
      simp only [Bool.and_eq_true] at h
      obtain ⟨x, hx⟩ := pathText_unescape rest h.2
      have hc' : (c == cPct) = false := by
        cases hcc : (c == cPct) with
        | false => rfl
        | true => exact absurd hcc hc
      exact ⟨c :: x, by unfold unescape; simp [hc', hx]⟩

theorem unescape_slash (r x : Bytes) (h : unescape (cSlash :: r) = some x) : ∃ y, x = cSlash :: y := by
  unfold unescape at h
  simp only [show (cSlash == cPct) = false from rfl] at h
  cases hr : unescape r with
  | none => simp [hr] at h
  | some y => simp [hr] at h; exact ⟨y, h.symm⟩

/-- `setPath` on encoded path text (empty or starting with `/`) succeeds, touches only `Path` /
`RawPath`, and `EscapedPath` gives the text back unchanged. -/
theorem setPath_pathText (u : URL) (p : Bytes) (hp : pathText p = true)
    (hs : p = [] ∨ ∃ r, p = cSlash :: r) :
    ∃ u', setPath u p = some u' ∧ escapedPath u' = p ∧ u'.scheme = u.scheme ∧ u'.host = u.host ∧
      u'.omitHost = u.omitHost ∧ u'.forceQuery = u.forceQuery ∧ u'.rawQuery = u.rawQuery ∧
      (u'.path = [] ↔ p = []) := by
  obtain ⟨x, hx⟩ := pathText_unescape p hp
  have hv := pathText_validEncoded p hp
  have hstar : x ≠ [cStar] := by
    rcases hs with rfl | ⟨r, rfl⟩
    · simp [unescape] at hx; simp [← hx]
    · obtain ⟨y, rfl⟩ := unescape_slash r x hx; simp [cSlash, cStar]
  have hnil : x = [] ↔ p = [] := by
    rcases hs with rfl | ⟨r, rfl⟩
    · simp [unescape] at hx; simp [← hx]
    · obtain ⟨y, rfl⟩ := unescape_slash r x hx; simp
  refine ⟨{ u with path := x, rawPath := if escape x .path == p then [] else p }, ?_, ?_, rfl, rfl, rfl, rfl, rfl, hnil⟩
  · simp only [setPath, hx]
  simp only [escapedPath]
  by_cases he : escape x .path = p
  · simp [he, hstar]
  · have hpne : p ≠ [] := by
      intro e
      have : x = [] := hnil.2 e
      exact he (by simp [this, e, escape])
    simp [he, hpne, hv, hx]

/-! ### getScheme, splitQuery -/

theorem getSchemeAux_scheme (raw acc s rest : Bytes) (hs : s.all schemeByte = true)
    (h0 : acc ≠ [] ∨ ∃ c r, s = c :: r ∧ alpha c = true) :
    getSchemeAux raw acc (s ++ cColon :: rest) = if acc ++ s = [] then none else some (acc ++ s, rest) := by
  induction s generalizing acc with
  | nil =>
    have hacc : acc ≠ [] := by
      rcases h0 with h | ⟨c, r, h, _⟩
      · exact h
      · simp at h
    simp [getSchemeAux, hacc, show isAlpha cColon = false by decide, show isDigit cColon = false by decide]
    exact fun h => absurd h (by decide)
  | cons c cs ih =>
    simp only [List.all_cons, Bool.and_eq_true] at hs
    have hne : acc ++ [c] ≠ [] := by simp
    have step := ih (acc ++ [c]) hs.2 (Or.inl hne)
    simp only [List.append_assoc, List.singleton_append] at step
    simp only [List.cons_append, getSchemeAux]
    by_cases ha : isAlpha c = true
    · simp [ha, step]
    · have hna : alpha c = false := by
        have := byte_forall (fun c => isAlpha c == alpha c) (by decide +kernel) c
        simp at this; rw [← this]; simpa using ha
      have hacc : acc ≠ [] := by
        rcases h0 with h | ⟨c', r, h, hal⟩
        · exact h
        · simp at h; rw [← h.1] at hal; simp [hna] at hal
      have hd : (isDigit c || c == 43 || c == 45 || c == 46) = true := by
        have := byte_forall (fun c => !(schemeByte c) || isAlpha c || (isDigit c || c == 43 || c == 45 || c == 46))
          (by decide +kernel) c
        simp only [hs.1, Bool.not_true, Bool.false_or] at this
        simpa [ha] using this
      simp [ha, hd, hacc, step]

theorem schemeText_all (s : Bytes) (h : schemeText s = true) :
    s.all schemeByte = true ∧ ∃ c r, s = c :: r ∧ alpha c = true := by
  cases s with
  | nil => simp [schemeText] at h
  | cons c r =>
    simp only [schemeText, Bool.and_eq_true] at h
    refine ⟨?_, c, r, rfl, h.1⟩
    simp only [List.all_cons, Bool.and_eq_true]
    exact ⟨by simp [schemeByte, h.1], h.2⟩

theorem getScheme_scheme (s rest : Bytes) (hs : schemeText s = true) :
    getScheme (s ++ cColon :: rest) = some (s, rest) := by
  obtain ⟨ha, c, r, hc, hal⟩ := schemeText_all s hs
  have := getSchemeAux_scheme (s ++ cColon :: rest) [] s rest ha (Or.inr ⟨c, r, hc, hal⟩)
  simp only [List.nil_append] at this
  rw [getScheme, this]
  simp [hc]

theorem getScheme_slash (r : Bytes) : getScheme (cSlash :: r) = some ([], cSlash :: r) := by
  simp [getScheme, getSchemeAux, show isAlpha cSlash = false by decide, show isDigit cSlash = false by decide]
  decide

/-- how `forceQuery` / `rawQuery` represent an optional query -/
def fqOf (q : Option Bytes) : Bool := q == some []

theorem queryPart_eq (q : Option Bytes) :
    (if fqOf q || q.getD [] ≠ [] then cQuest :: q.getD [] else []) = queryPart q := by
  cases q with
  | none => simp [fqOf, queryPart]
  | some x => cases x <;> simp [fqOf, queryPart]

theorem splitQuery_queryPart (a : Bytes) (q : Option Bytes) (ha : cQuest ∉ a) :
    splitQuery (a ++ queryPart q) = (a, fqOf q, q.getD []) := by
  cases q with
  | none =>
    have hc : a.count cQuest = 0 := List.count_eq_zero.2 ha
    simp [splitQuery, queryPart, fqOf, hc, cut_none _ _ ha]
  | some x =>
    have hc : a.count cQuest = 0 := List.count_eq_zero.2 ha
    cases x with
    | nil => simp [splitQuery, queryPart, fqOf, hc, List.count_append]
    | cons y ys =>
      have hcond : ((a ++ cQuest :: y :: ys).getLast? == some cQuest &&
          (a ++ cQuest :: y :: ys).count cQuest == 1) = false := by
        by_cases hl : (y :: ys).getLast? = some cQuest
        · have hm : cQuest ∈ (y :: ys) := List.mem_of_getLast? hl
          have hpos : 0 < (y :: ys).count cQuest := List.count_pos_iff.2 hm
          simp
          intro _
          omega
        · simp
          intro h
          exact absurd h hl
      simp only [splitQuery, queryPart, fqOf, hcond]
      simp [cut_append _ _ _ ha]

/-! ### hosts -/

theorem afterLast_none (sep : UInt8) (a : Bytes) (h : sep ∉ a) : afterLast sep a = none := by
  induction a with
  | nil => rfl
  | cons c cs ih =>
    have hc : c ≠ sep := fun e => h (by simp [e])
    have hcs : sep ∉ cs := fun e => h (by simp [e])
    simp [afterLast, ih hcs, hc]

theorem afterLast_append (sep : UInt8) (a b : Bytes) (h : sep ∉ b) :
    afterLast sep (a ++ sep :: b) = some b := by
  induction a with
  | nil => simp [afterLast, afterLast_none sep b h]
  | cons c cs ih => simp [afterLast, ih]

theorem escape_id (s : Bytes) (m : Enc) (h : ∀ c ∈ s, shouldEscape c m = false) : escape s m = s := by
  induction s with
  | nil => rfl
  | cons c cs ih =>
    have hc := h c (by simp)
    have := ih (fun x hx => h x (by simp [hx]))
    simp only [escape, List.flatMap_cons] at this ⊢
    simp [hc, this]

/-- what the proofs need of a host -/
structure HostGood (h : Bytes) : Prop where
  ne : h ≠ []
  parse : parseHost h = .ok h
  clean : ∀ c ∈ h, c ≠ cSlash ∧ c ≠ cQuest ∧ c ≠ cHash ∧ c ≠ cAt ∧ isCtl c = false
  esc : escape h .host = h
  port : removeEmptyPort h = h

def hostByte (c : UInt8) : Bool := hostNameByte c || c == 58

theorem hostByte_facts (c : UInt8) (h : hostByte c = true) :
    c ≠ cSlash ∧ c ≠ cQuest ∧ c ≠ cHash ∧ c ≠ cAt ∧ isCtl c = false ∧ c ≠ cPct ∧ c ≠ cLBrack ∧
      (c ≥ 128) = False ∧ shouldEscape c .host = false := by
  have := byte_forall (fun c => !(hostByte c) || (c != cSlash && c != cQuest && c != cHash && c != cAt && !isCtl c
    && c != cPct && c != cLBrack && !(decide (c ≥ 128)) && !shouldEscape c .host)) (by decide +kernel) c
  simp only [h, Bool.not_true, Bool.false_or, Bool.and_eq_true, bne_iff_ne, ne_eq, Bool.not_eq_true',
    decide_eq_false_iff_not] at this
  obtain ⟨⟨⟨⟨⟨⟨⟨⟨h1, h2⟩, h3⟩, h4⟩, h5⟩, h6⟩, h7⟩, h8⟩, h9⟩ := this
  exact ⟨h1, h2, h3, h4, h5, h6, h7, by simpa using h8, h9⟩

theorem digit_hostNameByte (c : UInt8) (h : digit c = true) : hostNameByte c = true := by
  simp [hostNameByte, h]

theorem digit_ne_colon (c : UInt8) (h : digit c = true) : c ≠ cColon := by
  intro e; rw [e] at h; revert h; decide

theorem hostNameByte_ne_colon (c : UInt8) (h : hostNameByte c = true) : c ≠ cColon := by
  intro e; rw [e] at h; revert h; decide

theorem hostGood_of_spec (a : Authority) (h : hostText a.name a.port a.hasPort = true) : HostGood a.host := by
  simp only [hostText, Bool.and_eq_true, Bool.not_eq_true', List.isEmpty_eq_false_iff, List.all_eq_true] at h
  obtain ⟨⟨hne, hname⟩, hport⟩ := h
  have hall : ∀ c ∈ a.host, hostByte c = true := by
    intro c hc
    simp only [Authority.host] at hc
    rcases List.mem_append.1 hc with hc | hc
    · simp [hostByte, hname c hc]
    · cases hp : a.hasPort with
      | false => simp [hp] at hc
      | true =>
        simp only [hp, if_true, Bool.and_eq_true, List.all_eq_true] at hc hport
        rcases List.mem_cons.1 hc with rfl | hc
        · decide
        · simp [hostByte, digit_hostNameByte c (hport.2 c hc)]
  have hhost_ne : a.host ≠ [] := by
    simp only [Authority.host]; intro e; exact hne (List.append_eq_nil_iff.1 e).1
  have hlast : a.host.getLast? ≠ some cColon := by
    simp only [Authority.host]
    cases hp : a.hasPort with
    | false =>
      simp only [Bool.false_eq_true, if_false, List.append_nil]
      intro e
      exact hostNameByte_ne_colon _ (hname _ (List.mem_of_getLast? e)) rfl
    | true =>
      simp only [hp, if_true, Bool.and_eq_true, List.all_eq_true, Bool.not_eq_true',
        List.isEmpty_eq_false_iff] at hport
      obtain ⟨hpne, hdig⟩ := hport
      cases hpt : a.port with
      | nil => exact absurd hpt hpne
      | cons d ds =>
        simp only [if_true, List.getLast?_append, List.getLast?_cons_cons]
        cases hg : (d :: ds).getLast? with
        | none => simp at hg
        | some z =>
          have hz : z ∈ a.port := by rw [hpt]; exact List.mem_of_getLast? hg
          simp only [Option.some_or]
          intro e
          exact digit_ne_colon z (hdig z hz) (by simpa using e)
  refine ⟨hhost_ne, ?_, ?_, ?_, ?_⟩
  · -- parseHost
    have h1 : a.host.head? ≠ some cLBrack := by
      intro e
      have := (hostByte_facts _ (hall _ (List.mem_of_head? e))).2.2.2.2.2.2.1
      exact this rfl
    have h2 : a.host.any (fun c => c == cPct || c ≥ 128) = false := by
      rw [List.any_eq_false]
      intro c hc
      have f := hostByte_facts c (hall c hc)
      have f8 : ¬ (c ≥ 128) := by rw [f.2.2.2.2.2.2.2.1]; exact id
      simp [f.2.2.2.2.2.1, f8]
    have h3 : a.host.any (fun c => shouldEscape c .host) = false := by
      rw [List.any_eq_false]
      intro c hc
      simp [(hostByte_facts c (hall c hc)).2.2.2.2.2.2.2.2]
    have h4 : (match afterLast cColon a.host with | none => true | some p => p.all isDigit) = true := by
      simp only [Authority.host]
      cases hp : a.hasPort with
      | false =>
        have : cColon ∉ a.name := fun hm => hostNameByte_ne_colon _ (hname _ hm) rfl
        simp [afterLast_none _ _ this]
      | true =>
        simp only [hp, if_true, Bool.and_eq_true, List.all_eq_true] at hport
        have : cColon ∉ a.port := fun hm => digit_ne_colon _ (hport.2 _ hm) rfl
        simp only [if_true, afterLast_append _ _ _ this, List.all_eq_true]
        intro c hc
        have := hport.2 c hc
        simpa [digit, isDigit] using this
    simp [parseHost, h1, h2, h3]
    exact h4
  · intro c hc
    have f := hostByte_facts c (hall c hc)
    exact ⟨f.1, f.2.1, f.2.2.1, f.2.2.2.1, f.2.2.2.2.1⟩
  · exact escape_id _ _ (fun c hc => (hostByte_facts c (hall c hc)).2.2.2.2.2.2.2.2)
  · simp [removeEmptyPort, hlast]

/-! ### `url.Parse` on well-formed text -/

/-- neither `#` nor a control byte -/
def clean (c : UInt8) : Bool := c != cHash && !isCtl c

theorem clean_pre (raw : Bytes) (h : raw.all clean = true) :
    raw.contains cHash = false ∧ raw.any isCtl = false := by
  rw [List.all_eq_true] at h
  constructor
  · cases hc : raw.contains cHash with
    | false => rfl
    | true =>
      have hm : cHash ∈ raw := List.contains_iff_mem.1 hc
      have := h _ hm
      revert this; decide
  · rw [List.any_eq_false]
    intro c hc
    have := h c hc
    simp only [clean, Bool.and_eq_true, Bool.not_eq_true'] at this
    simp [this.2]

theorem validEncodedByte_facts (c : UInt8) (h : validEncodedByte c = true) :
    clean c = true ∧ c ≠ cQuest := by
  have := byte_forall (fun c => !(validEncodedByte c) || (clean c && c != cQuest)) (by decide +kernel) c
  simpa [h] using this

theorem schemeByte_facts (c : UInt8) (h : schemeByte c = true) : clean c = true ∧ c ≠ cQuest := by
  have := byte_forall (fun c => !(schemeByte c) || (clean c && c != cQuest)) (by decide +kernel) c
  simpa [h] using this

theorem pathText_facts (p : Bytes) (hp : pathText p = true) : p.all clean = true ∧ cQuest ∉ p := by
  have hv := pathText_validEncoded p hp
  simp only [validEncoded, List.all_eq_true] at hv
  exact ⟨List.all_eq_true.2 fun c hc => (validEncodedByte_facts c (hv c hc)).1,
    fun hm => (validEncodedByte_facts _ (hv _ hm)).2 rfl⟩

theorem scheme_facts (s : Bytes) (hs : schemeText s = true) : s.all clean = true ∧ cQuest ∉ s := by
  have ha := (schemeText_all s hs).1
  rw [List.all_eq_true] at ha
  exact ⟨List.all_eq_true.2 fun c hc => (schemeByte_facts c (ha c hc)).1,
    fun hm => (schemeByte_facts _ (ha _ hm)).2 rfl⟩

theorem host_facts (h : Bytes) (hh : HostGood h) :
    h.all clean = true ∧ cQuest ∉ h ∧ cSlash ∉ h ∧ cAt ∉ h := by
  refine ⟨List.all_eq_true.2 fun c hc => ?_, fun hm => (hh.clean _ hm).2.1 rfl,
    fun hm => (hh.clean _ hm).1 rfl, fun hm => (hh.clean _ hm).2.2.2.1 rfl⟩
  have := hh.clean c hc
  simp [clean, this.2.2.1, this.2.2.2.2]

theorem query_facts (q : Bytes) (hq : queryText q = true) : q.all clean = true := by
  rw [queryText, List.all_eq_true] at hq
  rw [List.all_eq_true]
  intro c hc
  have := byte_forall (fun c => !(32 ≤ c && c != 127 && c != 35) || clean c) (by decide +kernel) c
  simpa [hq c hc] using this

theorem queryPart_clean (q : Option Bytes) (hq : queryText (q.getD []) = true) :
    (queryPart q).all clean = true := by
  cases q with
  | none => rfl
  | some x =>
    have := query_facts x hq
    simp only [queryPart, List.all_cons, this, Bool.and_true]
    decide

/-- the fields of a successfully parsed URL that the proofs use -/
structure ParsedAs (u : URL) (scheme host p : Bytes) (q : Option Bytes) : Prop where
  scheme : u.scheme = scheme
  host : u.host = host
  esc : escapedPath u = p
  noOmit : u.omitHost = false
  fq : u.forceQuery = fqOf q
  rq : u.rawQuery = q.getD []
  pathNil : u.path = [] ↔ p = []

theorem parse_abs (s h p : Bytes) (q : Option Bytes) (hs : schemeText s = true) (hh : HostGood h)
    (hp : pathText p = true) (hp0 : p = [] ∨ ∃ r, p = cSlash :: r) (hq : queryText (q.getD []) = true) :
    ∃ u, parse (s ++ cColon :: cSlash :: cSlash :: (h ++ p) ++ queryPart q) = .ok u ∧
      ParsedAs u (s.map toLowerByte) h p q := by
  obtain ⟨hsc, hsq⟩ := scheme_facts s hs
  obtain ⟨hhc, hhq, hhs, hha⟩ := host_facts h hh
  obtain ⟨hpc, hpq⟩ := pathText_facts p hp
  have hqc := queryPart_clean q hq
  obtain ⟨c0, r0, hs0, _⟩ := (schemeText_all s hs).2
  have hclean : (s ++ cColon :: cSlash :: cSlash :: (h ++ p) ++ queryPart q).all clean = true := by
    simp only [List.all_append, List.all_cons, hsc, hhc, hpc, hqc, Bool.and_true, Bool.true_and]
    decide
  obtain ⟨k1, k2⟩ := clean_pre _ hclean
  have k3 : (s ++ cColon :: cSlash :: cSlash :: (h ++ p) ++ queryPart q == [cStar]) = false := by
    rw [hs0]; simp
  have k4 : getScheme (s ++ cColon :: cSlash :: cSlash :: (h ++ p) ++ queryPart q)
      = some (s, cSlash :: cSlash :: (h ++ p) ++ queryPart q) := by
    have := getScheme_scheme s (cSlash :: cSlash :: (h ++ p) ++ queryPart q) hs
    simpa using this
  have k5 : splitQuery (cSlash :: cSlash :: (h ++ p) ++ queryPart q)
      = (cSlash :: cSlash :: (h ++ p), fqOf q, q.getD []) := by
    apply splitQuery_queryPart
    simp only [List.mem_cons, List.mem_append, not_or]
    exact ⟨by decide, by decide, hhq, hpq⟩
  have k6 : s ≠ [] := by rw [hs0]; simp
  have k7 : splitAtByte cSlash (h ++ p) = (h, if p = [] then none else some p) := by
    rcases hp0 with rfl | ⟨r, rfl⟩
    · simp [splitAtByte_none _ _ hhs]
    · simp [splitAtByte_append _ _ _ hhs]
  have k8 : h.contains cAt = false := by
    cases hc : h.contains cAt with
    | false => rfl
    | true => exact absurd (List.contains_iff_mem.1 hc) hha
  have k9 : (if p = [] then (none : Option Bytes) else some p).getD [] = p := by
    by_cases e : p = [] <;> simp [e]
  obtain ⟨u', hu', hesc, hsch, hhost, homit, hfq, hrq, hnil⟩ :=
    setPath_pathText { scheme := s.map toLowerByte, host := h, forceQuery := fqOf q, rawQuery := q.getD [] } p hp hp0
  refine ⟨u', ?_, ⟨hsch, hhost, hesc, homit, hfq, hrq, hnil⟩⟩
  unfold parse
  simp only [k1, k2, k3, k4, k5, k7, k8, k9, hh.parse, hasPrefix, List.drop, Bool.false_eq_true, if_false]
  simp [hu', k6]

theorem parse_rel (r : Bytes) (q : Option Bytes) (hp : pathText (cSlash :: r) = true)
    (hr : r.head? ≠ some cSlash) (hq : queryText (q.getD []) = true) :
    ∃ u, parse (cSlash :: r ++ queryPart q) = .ok u ∧ ParsedAs u [] [] (cSlash :: r) q := by
  obtain ⟨hpc, hpq⟩ := pathText_facts _ hp
  have hqc := queryPart_clean q hq
  have hclean : (cSlash :: r ++ queryPart q).all clean = true := by
    rw [List.all_append, hpc, hqc]; rfl
  obtain ⟨k1, k2⟩ := clean_pre _ hclean
  have k3 : (cSlash :: r ++ queryPart q == [cStar]) = false := by
    simp only [List.cons_append]
    cases hrq : r ++ queryPart q with
    | nil => decide
    | cons a b => simp
  have k4 : getScheme (cSlash :: r ++ queryPart q) = some ([], cSlash :: r ++ queryPart q) := by
    simpa using getScheme_slash (r ++ queryPart q)
  have k5 := splitQuery_queryPart (cSlash :: r) q hpq
  have k6 : hasPrefix [cSlash, cSlash] (cSlash :: r) = false := by
    cases r with
    | nil => rfl
    | cons a b =>
      have : a ≠ cSlash := by simpa using hr
      simp [hasPrefix, List.isPrefixOf]
      exact fun e => this e.symm
  obtain ⟨u', hu', hesc, hsch, hhost, homit, hfq, hrq, hnil⟩ :=
    setPath_pathText { forceQuery := fqOf q, rawQuery := q.getD [] } (cSlash :: r) hp (Or.inr ⟨r, rfl⟩)
  refine ⟨u', ?_, ⟨hsch, hhost, hesc, homit, hfq, hrq, hnil⟩⟩
  unfold parse
  simp only [k1, k2, k3, k4, k5, k6, List.map_nil, Bool.false_eq_true, if_false]
  simp [hasPrefix, hu']

theorem parse_nil : parse [] = .ok {} := by decide

/-! ### ResolveReference with an absolute-path reference, String, RequestURI -/

theorem resolveReference_abs (b ref : URL) (r : Bytes) (q : Option Bytes)
    (href : ParsedAs ref [] [] (cSlash :: r) q) (hp : pathText (cSlash :: r) = true)
    (hd : NoDotSegments (cSlash :: r)) :
    ParsedAs (resolveReference b ref) b.scheme b.host (cSlash :: r) q := by
  have hpath : ref.path ≠ [] := fun e => by simpa using href.pathNil.1 e
  obtain ⟨u', hu', hesc, hsch, hhost, homit, hfq, hrq, hnil⟩ :=
    setPath_pathText { ref with scheme := b.scheme, host := b.host } (cSlash :: r) hp (Or.inr ⟨r, rfl⟩)
  have : resolveReference b ref = u' := by
    unfold resolveReference
    simp only [href.scheme, href.host, href.esc, resolvePath_nodots _ _ hd, setPathOrKeep]
    simp [hpath, hu']
  rw [this]
  exact ⟨hsch, hhost, hesc, by rw [homit]; exact href.noOmit, by rw [hfq]; exact href.fq,
    by rw [hrq]; exact href.rq, hnil⟩

theorem requestURI_parsed (u : URL) (s h r : Bytes) (q : Option Bytes) (hu : ParsedAs u s h (cSlash :: r) q) :
    requestURI u = cSlash :: r ++ queryPart q := by
  simp only [requestURI, hu.esc, hu.fq, hu.rq, queryPart_eq]
  simp

theorem toString_abs (u : URL) (s h r : Bytes) (q : Option Bytes) (hu : ParsedAs u s h (cSlash :: r) q)
    (hs : s ≠ []) (hh : h ≠ []) (he : escape h .host = h) :
    toString u = s ++ cColon :: cSlash :: cSlash :: (h ++ cSlash :: r) ++ queryPart q := by
  simp only [toString, hu.esc, hu.fq, hu.rq, hu.scheme, hu.host, hu.noOmit, queryPart_eq, he]
  simp [hs, hh]

theorem toString_rel (u : URL) (r : Bytes) (q : Option Bytes) (hu : ParsedAs u [] [] (cSlash :: r) q) :
    toString u = cSlash :: r ++ queryPart q := by
  simp only [toString, hu.esc, hu.fq, hu.rq, hu.scheme, hu.host, hu.noOmit, queryPart_eq]
  simp [cut]

end Restli.Url
