import Restli.Proofs.Escape
/-! # C01 — codec round trip (property theorems)

Part 1: the three ROR2 string flavours, for **every byte string**, against the regenerated
character tables of both module generations: what the writer's escaper emits is decoded back to
the original bytes by the reader's unescaper, contains none of the ROR2 structural bytes
`( ) , : '`, and is non-empty for a non-empty input (so it can never be confused with the
empty-string marker `''` or with an absent value). -/
namespace Restli.Escape

/-- the tables currently in `/repo` (both modules) satisfy them — re-decided on every run -/
theorem c01_tables_ok_v2 : TablesOk tablesV2 := by decide
theorem c01_tables_ok_root : TablesOk tablesRoot := by decide

/-- URL-path flavour: `url.PathUnescape (Ror2PathEscape s) = s` for every byte string -/
theorem c01_path_escape_roundtrip (t : Tables) (h : TablesOk t) (b : Bytes) :
    unescape false (escapeWith t.pathSafe b) = some b :=
  unescape_escapeWith _ false h.1 (by intro h'; cases h') b

/-- query-string flavour: `url.QueryUnescape (Ror2QueryEscape s) = s` for every byte string
(in particular '+' and ' ' survive) -/
theorem c01_query_escape_roundtrip (t : Tables) (h : TablesOk t) (b : Bytes) :
    unescape true (escapeWith t.querySafe b) = some b :=
  unescape_escapeWith _ true h.2.1 (fun _ => h.2.2.1) b

/-- header flavour: `url.PathUnescape (headerEncodingEscaper s) = s` for every byte string -/
theorem c01_header_escape_roundtrip (t : Tables) (h : TablesOk t) (b : Bytes) :
    unescape false (replaceWith t.headerEscapes b) = some b :=
  unescape_replaceWith _ h.2.2.2.2.2.1 h.2.2.2.2.2.2.1 b

/-- no escaped string contains a ROR2 structural byte, in any flavour -/
theorem c01_escaped_is_clean (t : Tables) (h : TablesOk t) (b : Bytes) :
    (∀ c ∈ escapeWith t.pathSafe b, c ∉ reserved) ∧ (∀ c ∈ escapeWith t.querySafe b, c ∉ reserved) ∧
    (∀ c ∈ replaceWith t.headerEscapes b, c ∉ reserved) :=
  ⟨escapeWith_clean _ h.2.2.2.1 b, escapeWith_clean _ h.2.2.2.2.1 b,
   replaceWith_clean _ h.2.2.2.2.2.2.2.1 h.2.2.2.2.2.2.2.2.1 b⟩

/-- a non-empty string never escapes to the empty string -/
theorem c01_escaped_nonempty (t : Tables) (h : TablesOk t) (b : Bytes) (hb : b ≠ []) :
    escapeWith t.pathSafe b ≠ [] ∧ escapeWith t.querySafe b ≠ [] ∧ replaceWith t.headerEscapes b ≠ [] :=
  ⟨escapeWith_ne_nil _ b hb, escapeWith_ne_nil _ b hb, replaceWith_ne_nil _ h.2.2.2.2.2.2.2.2.2 b hb⟩

/-! non-vacuity: the hypotheses hold for the real tables, on a string full of metacharacters -/
example : unescape true (escapeWith tablesV2.querySafe (strBytes "a+b (c):'d',%41 é")) = some (strBytes "a+b (c):'d',%41 é") :=
  c01_query_escape_roundtrip tablesV2 c01_tables_ok_v2 _

end Restli.Escape
