import Restli.Proofs.Escape
import Restli.Proofs.RoundTrip3
import Restli.Proofs.RoundTripJson
import Restli.Proofs.JsonDoc
import Restli.Proofs.JsonPretty
import Restli.Proofs.QueryParams
/-! # C01 — codec round trip (property theorems)

Part 1: the three ROR2 string flavours, for **every byte string**, against the regenerated
character tables of both module generations: what the writer's escaper emits is decoded back to
the original bytes by the reader's unescaper, contains none of the ROR2 structural bytes
`( ) , : '`, and is non-empty for a non-empty input (so it can never be confused with the
empty-string marker `''` or with an absent value). -/
namespace Restli.Escape

/-- the tables currently in `/repo` (both modules) satisfy them — re-decided on every run -/
theorem c01_tables_ok_v2 : TablesOk tablesV2 := by decide
theorem c01_tables_ok_root : TablesOk tablesRoot := by decide

/-- URL-path flavour: `url.PathUnescape (Ror2PathEscape s) = s` for every byte string -/
theorem c01_path_escape_roundtrip (t : Tables) (h : TablesOk t) (b : Bytes) :
    unescape false (escapeWith t.pathSafe b) = some b :=
  unescape_escapeWith _ false h.1 (by intro h'; cases h') b

/-- query-string flavour: `url.QueryUnescape (Ror2QueryEscape s) = s` for every byte string
(in particular '+' and ' ' survive) -/
theorem c01_query_escape_roundtrip (t : Tables) (h : TablesOk t) (b : Bytes) :
    unescape true (escapeWith t.querySafe b) = some b :=
  unescape_escapeWith _ true h.2.1 (fun _ => h.2.2.1) b

/-- header flavour: `url.PathUnescape (headerEncodingEscaper s) = s` for every byte string -/
theorem c01_header_escape_roundtrip (t : Tables) (h : TablesOk t) (b : Bytes) :
    unescape false (replaceWith t.headerEscapes b) = some b :=
  unescape_replaceWith _ h.2.2.2.2.2.1 h.2.2.2.2.2.2.1 b

/-- no escaped string contains a ROR2 structural byte, in any flavour -/
theorem c01_escaped_is_clean (t : Tables) (h : TablesOk t) (b : Bytes) :
    (∀ c ∈ escapeWith t.pathSafe b, c ∉ reserved) ∧ (∀ c ∈ escapeWith t.querySafe b, c ∉ reserved) ∧
    (∀ c ∈ replaceWith t.headerEscapes b, c ∉ reserved) :=
  ⟨escapeWith_clean _ h.2.2.2.1 b, escapeWith_clean _ h.2.2.2.2.1 b,
   replaceWith_clean _ h.2.2.2.2.2.2.2.1 h.2.2.2.2.2.2.2.2.1 b⟩

/-- a non-empty string never escapes to the empty string -/
theorem c01_escaped_nonempty (t : Tables) (h : TablesOk t) (b : Bytes) (hb : b ≠ []) :
    escapeWith t.pathSafe b ≠ [] ∧ escapeWith t.querySafe b ≠ [] ∧ replaceWith t.headerEscapes b ≠ [] :=
  ⟨escapeWith_ne_nil _ b hb, escapeWith_ne_nil _ b hb, replaceWith_ne_nil _ h.2.2.2.2.2.2.2.2.2 b hb⟩

/-! non-vacuity: the hypotheses hold for the real tables, on a string full of metacharacters -/
example : unescape true (escapeWith tablesV2.querySafe (strBytes "a+b (c):'d',%41 é")) = some (strBytes "a+b (c):'d',%41 é") :=
  c01_query_escape_roundtrip tablesV2 c01_tables_ok_v2 _

end Restli.Escape

/-! Part 2: **whole values, byte level** (ROR2, all three flavours, v2 writer with key sorting).
For every schema environment whose declarations have distinct enum symbols, field names (after
include flattening) and union aliases, every type, every value a Go variable of the generated type
can hold (`ValOK`: integers in range, float bit patterns in range, distinct map keys), at every
nesting depth: what the generated `UnmarshalRestLi` — the cursor reader of `ror2_reader.go`,
index arithmetic, scope tracking, required-field accounting and all — returns on the bytes the
generated `MarshalRestLi` wrote is the original value with the record's own defaults filled in,
entries in ascending key order and NaN canonical (`norm`); the whole input is consumed and no
required field is reported missing.

Hypotheses (never axioms): the regenerated escape tables satisfy `TablesOk` (decided above for the
tables in /repo), and `FloatLaws`: `strconv`'s shortest float formatting parses back to the same
bits. The latter is a statement about third-party code, modelled in Lib/Strconv.lean and compared
with Go's strconv on every float of every run; it is not proved. -/
namespace Restli.Codec
open Restli.Escape

theorem escLaws_path (t : Tables) (h : TablesOk t) : EscLaws (escapeWith t.pathSafe) false :=
  ⟨c01_path_escape_roundtrip t h, fun b => (c01_escaped_is_clean t h b).1, fun b hb => (c01_escaped_nonempty t h b hb).1⟩
theorem escLaws_query (t : Tables) (h : TablesOk t) : EscLaws (escapeWith t.querySafe) true :=
  ⟨c01_query_escape_roundtrip t h, fun b => (c01_escaped_is_clean t h b).2.1, fun b hb => (c01_escaped_nonempty t h b hb).2.1⟩
theorem escLaws_header (t : Tables) (h : TablesOk t) : EscLaws (replaceWith t.headerEscapes) false :=
  ⟨c01_header_escape_roundtrip t h, fun b => (c01_escaped_is_clean t h b).2.2, fun b hb => (c01_escaped_nonempty t h b hb).2.2⟩

/-- the writer configuration of the theorems below: nothing excluded, v2 key sorting -/
def wcfg (env : Env) : EncCfg := { env := env, excl := .empty, sortKeys := true }
/-- the matching reader: nothing excluded, any number of ignored leading scopes -/
def rcfg (env : Env) (plus : Bool) (ign : Nat) : RCfg :=
  { env := env, tracker := { excl := .empty, ignore := ign }, plus := plus, query := false }

/-- URL-path flavour (`Ror2PathEscape` / `url.PathUnescape`) -/
theorem c01_ror2_roundtrip_path (t : Tables) (ht : TablesOk t) (F : FloatLaws) (env : Env)
    (hS : schemaOKb env = true) (ign f : Nat) (ty : Ty) (v : Value) (kvs : List (Bytes × Doc))
    (hv : ValOK v) (henc : encode (wcfg env) f [] ty v = .ok (.obj kvs)) :
    unmarshalRor2 (rcfg env false ign) ty (renderRor2 (escapeWith t.pathSafe) (.obj kvs)) =
      .ok (norm env f ty v) { rest := [], start := false, missing := [] } :=
  ror2_roundtrip_obj env _ false (escLaws_path t ht) F (schemaOK_of_check env hS) ign f ty v kvs hv henc

/-- query-string flavour (`Ror2QueryEscape` / `url.QueryUnescape`) -/
theorem c01_ror2_roundtrip_query (t : Tables) (ht : TablesOk t) (F : FloatLaws) (env : Env)
    (hS : schemaOKb env = true) (ign f : Nat) (ty : Ty) (v : Value) (kvs : List (Bytes × Doc))
    (hv : ValOK v) (henc : encode (wcfg env) f [] ty v = .ok (.obj kvs)) :
    unmarshalRor2 (rcfg env true ign) ty (renderRor2 (escapeWith t.querySafe) (.obj kvs)) =
      .ok (norm env f ty v) { rest := [], start := false, missing := [] } :=
  ror2_roundtrip_obj env _ true (escLaws_query t ht) F (schemaOK_of_check env hS) ign f ty v kvs hv henc

/-- header flavour (`headerEncodingEscaper` / `url.PathUnescape`) -/
theorem c01_ror2_roundtrip_header (t : Tables) (ht : TablesOk t) (F : FloatLaws) (env : Env)
    (hS : schemaOKb env = true) (ign f : Nat) (ty : Ty) (v : Value) (kvs : List (Bytes × Doc))
    (hv : ValOK v) (henc : encode (wcfg env) f [] ty v = .ok (.obj kvs)) :
    unmarshalRor2 (rcfg env false ign) ty (renderRor2 (replaceWith t.headerEscapes) (.obj kvs)) =
      .ok (norm env f ty v) { rest := [], start := false, missing := [] } :=
  ror2_roundtrip_obj env _ false (escLaws_header t ht) F (schemaOK_of_check env hS) ign f ty v kvs hv henc

/-- **values of every type written on their own** — an entity key, the value of a query
parameter, a header — and read from position 0 by the cursor reader under any reader scope, as the
whole-input reader or as a per-parameter query reader: `Unmarshal(Marshal(v)) = norm v`, the whole
input consumed, nothing reported missing. (Query flavour; bare primitives, enums, fixed and arrays
as well as objects.) -/
theorem c01_ror2_roundtrip_any_query (t : Tables) (ht : TablesOk t) (F : FloatLaws) (env : Env)
    (hS : schemaOKb env = true) (ign f : Nat) (perParam : Bool) (scopeW : List Bytes) (scopeR : List Seg)
    (ty : Ty) (v : Value) (doc : Doc) (hv : ValOK v) (henc : encode (wcfg env) f scopeW ty v = .ok doc) :
    readTy (ror2RcQ env true ign perParam) (3 * (renderRor2 (escapeWith t.querySafe) doc).length + 8) scopeR ty
        { rest := renderRor2 (escapeWith t.querySafe) doc, start := true, missing := [] } =
      .ok (norm env f ty v) { rest := [], start := false, missing := [] } :=
  ror2_roundtrip_any env _ true (escLaws_query t ht) F (schemaOK_of_check env hS) ign f perParam scopeW scopeR
    ty v doc _ (by omega) hv henc

/-- the same in the header flavour (`X-RestLi-Id`, `Location`) -/
theorem c01_ror2_roundtrip_any_header (t : Tables) (ht : TablesOk t) (F : FloatLaws) (env : Env)
    (hS : schemaOKb env = true) (ign f : Nat) (scopeW : List Bytes) (scopeR : List Seg)
    (ty : Ty) (v : Value) (doc : Doc) (hv : ValOK v) (henc : encode (wcfg env) f scopeW ty v = .ok doc) :
    readTy (ror2RcQ env false ign false) (3 * (renderRor2 (replaceWith t.headerEscapes) doc).length + 8) scopeR ty
        { rest := renderRor2 (replaceWith t.headerEscapes) doc, start := true, missing := [] } =
      .ok (norm env f ty v) { rest := [], start := false, missing := [] } :=
  ror2_roundtrip_any env _ false (escLaws_header t ht) F (schemaOK_of_check env hS) ign f false scopeW scopeR
    ty v doc _ (by omega) hv henc

/-- and in the path flavour, for what the underlying writer emits (a key that is exactly `.` or
`..` is written `%2E`/`%2E%2E` by the path writer instead — `renderRor2Path` — see C02/C15) -/
theorem c01_ror2_roundtrip_any_path (t : Tables) (ht : TablesOk t) (F : FloatLaws) (env : Env)
    (hS : schemaOKb env = true) (ign f : Nat) (scopeW : List Bytes) (scopeR : List Seg)
    (ty : Ty) (v : Value) (doc : Doc) (hv : ValOK v) (henc : encode (wcfg env) f scopeW ty v = .ok doc) :
    readTy (ror2RcQ env false ign false) (3 * (renderRor2 (escapeWith t.pathSafe) doc).length + 8) scopeR ty
        { rest := renderRor2 (escapeWith t.pathSafe) doc, start := true, missing := [] } =
      .ok (norm env f ty v) { rest := [], start := false, missing := [] } :=
  ror2_roundtrip_any env _ false (escLaws_path t ht) F (schemaOK_of_check env hS) ign f false scopeW scopeR
    ty v doc _ (by omega) hv henc

/-- the query escaper never emits `&` when `&` is not in its table (decided below for /repo's) -/
theorem hexUpper_ne_amp : ∀ n, n < 16 → hexUpper n ≠ 38 := by decide

theorem noAmp_query (t : Tables) (h : t.querySafe.contains 38 = false) : NoAmp (escapeWith t.querySafe) := by
  intro b c hc
  simp only [escapeWith, List.mem_flatMap] at hc
  obtain ⟨x, _, hx⟩ := hc
  simp only [escOne] at hx
  split at hx
  · next hs =>
    simp only [List.mem_singleton] at hx
    subst hx
    intro h38; subst h38
    rw [h] at hs; cases hs
  · intro h38; subst h38
    simp only [pct, List.mem_cons, List.not_mem_nil, or_false] at hx
    have hlt := x.toNat_lt
    rcases hx with hx | hx | hx
    · exact absurd hx (by decide)
    · exact hexUpper_ne_amp _ (by omega) hx.symm
    · exact hexUpper_ne_amp _ (by omega) hx.symm

theorem c01_query_table_escapes_amp : tablesV2.querySafe.contains 38 = false ∧ tablesRoot.querySafe.contains 38 = false := by
  decide

/-- **query parameters round trip** (`BuildQueryParams` → `ParseQueryParams` + generated
`DecodeQueryParams`): for every schema and every record of parameters — of every type — whose field
names contain neither `&` nor `=`, the query string the client builds is read back by the server to
the same record (normalised), every parameter consumed entirely, nothing reported missing. -/
theorem c01_query_params_roundtrip (t : Tables) (ht : TablesOk t) (hamp : t.querySafe.contains 38 = false)
    (F : FloatLaws) (env : Env) (hS : schemaOKb env = true) (n : TName) (incs : List TName) (own : List Field)
    (hfind : env.find n = some (.record incs own))
    (hnames : ∀ fld ∈ allFields env (includeFuel env) n, ∀ c ∈ fld.name, c ≠ 38 ∧ c ≠ 61)
    (fuel : Nat) (fs : List (Bytes × Value)) (hv : ValOK (.record fs)) (q : Bytes)
    (hq : buildQueryParams env (escapeWith t.querySafe) fuel n (.record fs) = .ok q) :
    unmarshalQuery env n q =
      .ok (norm env (fuel + 1) (.ref n) (.record fs)) { rest := [], start := false } :=
  query_roundtrip env _ (escLaws_query t ht) F (schemaOK_of_check env hS) (noAmp_query t hamp) n incs own hfind
    hnames fuel fs hv q hq

/-- values of every type (bare primitives, arrays, enums, fixed, typerefs too), nested anywhere
inside a document: the tree reader on the raw-token tree of the writer's output returns the
normalised value. Together with `bridge` (Proofs/Ror2Bridge.lean: the cursor reader on the
rendering of a well-formed raw-token tree followed by a delimiter = the tree reader on the tree)
this is the round trip for nested positions. -/
theorem c01_ror2_roundtrip_nested (t : Tables) (ht : TablesOk t) (F : FloatLaws) (env : Env)
    (hS : schemaOKb env = true) (ign f : Nat) (scopeW : List Bytes) (scopeR : List Seg) (top : Bool)
    (ty : Ty) (v : Value) (doc : Doc) (hv : ValOK v) (henc : encode (wcfg env) f scopeW ty v = .ok doc) :
    treeRead (tcOf (rcfg env true ign)) top scopeR ty (rawOf (escapeWith t.querySafe) doc) =
      .ok (norm env f ty v) [] := by
  rw [rawOf_eq_treeOf _ true doc]
  exact roundtrip_tree (ror2Ctx env _ true (escLaws_query t ht) F (schemaOK_of_check env hS)) ign f scopeW scopeR top ty v doc hv henc

/-- …and every document the writer emits is the rendering of a well-formed raw-token tree -/
theorem c01_ror2_output_wellformed (t : Tables) (ht : TablesOk t) (F : FloatLaws) (doc : Doc) :
    renderRor2 (escapeWith t.querySafe) doc = renderRaw (rawOf (escapeWith t.querySafe) doc) ∧
    RawWF (rawOf (escapeWith t.querySafe) doc) :=
  ⟨renderRor2_eq_renderRaw _ doc, rawOf_wf _ true (escLaws_query t ht) F doc⟩

/-! Part 3: **JSON, at the level of the document tree.** The same generic induction
(`roundtrip_tree`, parametrised by how a format presents leaves and keys) instantiated with the
JSON reader's leaf semantics: integers parse back, floats go through `FloatLaws` (and, for float32,
`ConvLaws`: the reader parses a float64 and narrows it), bytes are written one code point per byte
and read back by the proved `runes_latin1`, NaN / ±Infinity travel as the three reserved strings.
What is *not* a theorem is the step from the emitted text to this tree; it is checked on every run
by two independent strict parsers (C03's oracle). -/

theorem c01_json_roundtrip_tree (env : Env) (F : FloatLaws) (C : ConvLaws) (hS : schemaOKb env = true)
    (ign f : Nat) (scopeW : List Bytes) (scopeR : List Seg) (top : Bool) (ty : Ty) (v : Value) (doc : Doc)
    (hv : ValOK v) (henc : encode (wcfg env) f scopeW ty v = .ok doc) :
    treeRead { env := env, tracker := { excl := .empty, ignore := ign } } top scopeR ty (treeOf jsonEnc doc) =
      .ok (norm env f ty v) [] :=
  json_roundtrip_tree env F C (schemaOK_of_check env hS) ign f scopeW scopeR top ty v doc hv henc

/-- **JSON (compact writer), byte level**: what the generated `UnmarshalJSON` — strict RFC 8259
parse, then the generated unmarshalers with scope tracking and required-field accounting — returns
on the bytes `MarshalJSON` wrote is the normalised value. Besides the hypotheses of the tree-level
theorem: `NumLaws` (strconv's float text is one JSON number token; an assumption about third-party
output, compared with Go on every run) and `DocTextOK` (the strings and keys of the document are
valid UTF-8 — easyjson replaces invalid sequences by U+FFFD, which no decoder can undo; byte
strings go through the Latin-1 mapping and need nothing). Composition of `json_roundtrip_tree`
with `parse_renderJson` (writer's escaper against the strict parser, number grammar, structure,
parser fuel). -/
theorem c01_json_roundtrip_bytes (env : Env) (F : FloatLaws) (C : ConvLaws) (N : NumLaws)
    (hS : schemaOKb env = true) (ign f : Nat) (ty : Ty) (v : Value) (kvs : List (Bytes × Doc)) (hv : ValOK v)
    (henc : encode (wcfg env) f [] ty v = .ok (.obj kvs)) (htext : DocTextOK (.obj kvs)) :
    unmarshalJson { env := env, tracker := { excl := .empty, ignore := ign } } ty (renderJson (.obj kvs)) =
      some (.ok (norm env f ty v) []) :=
  json_roundtrip_obj env F C N (schemaOK_of_check env hS) ign f ty v kvs hv henc htext

/-- **JSON (pretty writer), byte level**: the indentation and line breaks sit exactly where the
grammar allows insignificant whitespace, so the same holds for `NewPrettyJsonWriter` output -/
theorem c01_json_pretty_roundtrip_bytes (env : Env) (F : FloatLaws) (C : ConvLaws) (N : NumLaws)
    (hS : schemaOKb env = true) (ign f : Nat) (ty : Ty) (v : Value) (kvs : List (Bytes × Doc)) (hv : ValOK v)
    (henc : encode (wcfg env) f [] ty v = .ok (.obj kvs)) (htext : DocTextOK (.obj kvs)) :
    unmarshalJson { env := env, tracker := { excl := .empty, ignore := ign } } ty (renderPretty 0 (.obj kvs)) =
      some (.ok (norm env f ty v) []) :=
  json_pretty_roundtrip_obj env F C N (schemaOK_of_check env hS) ign f ty v kvs hv henc htext

/-- bytes and fixed values survive the JSON string representation: every byte 0x00–0xFF -/
theorem c01_json_bytes_roundtrip (b : Bytes) : jsonPrim .bytes (.str (latin1 b)) = .ok (.bytes b) [] :=
  jsonPrim_bytes b

/-! non-vacuity: a schema with an include, required / optional / defaulted fields, a union, an
enum and a map of arrays, and a value with metacharacters, an empty key and an empty array, meet
every hypothesis but `FloatLaws` (the strconv assumption, which this value does not exercise) -/
def exEnv : Env :=
  [("E", .enum [[65], [66]]),
   ("U", .union false [([97], .prim .i32), ([98], .prim .str)]),
   ("B", .record [] [⟨[120], .prim .bool, false, none⟩]),
   ("R", .record ["B"] [⟨[114], .prim .i32, false, none⟩, ⟨[111], .prim .str, true, none⟩,
        ⟨[100], .prim .i64, false, some (.i64 7)⟩, ⟨[117], .ref "U", false, none⟩,
        ⟨[109], .map (.arr (.prim .i32)), false, none⟩, ⟨[101], .ref "E", false, none⟩])]

def exVal : Value :=
  .record [([120], .bool true), ([114], .i32 (-5)), ([117], .union [([98], .str [40, 37, 43, 32])]),
    ([109], .map [([122], .arr [.i32 1, .i32 2]), ([], .arr [])]), ([101], .enum 2)]

example : schemaOKb exEnv = true := by decide
example : ValOK exVal := by simp [exVal, ValOK, ValOKKvs, ValOKList, KeysNodup]
example : ∃ kvs, encode (wcfg exEnv) 6 [] (.ref "R") exVal = .ok (.obj kvs) := ⟨_, rfl⟩
def exKvs : List (Bytes × Doc) :=
  match encode (wcfg exEnv) 6 [] (.ref "R") exVal with
  | .ok (.obj kvs) => kvs
  | _ => []

example (F : FloatLaws) :
    unmarshalRor2 (rcfg exEnv true 0) (.ref "R")
        (renderRor2 (escapeWith tablesV2.querySafe) (.obj exKvs)) =
      .ok (norm exEnv 6 (.ref "R") exVal) { rest := [], start := false, missing := [] } :=
  c01_ror2_roundtrip_query tablesV2 c01_tables_ok_v2 F exEnv (by decide) 0 6 _ exVal exKvs
    (by simp [exVal, ValOK, ValOKKvs, ValOKList, KeysNodup]) rfl

/-- the same value as a record of query parameters (an enum, a union, a map of arrays, an inherited
field among them): built, parsed and decoded back -/
example (F : FloatLaws) : ∃ q, buildQueryParams exEnv (escapeWith tablesV2.querySafe) 6 "R" exVal = .ok q ∧
    unmarshalQuery exEnv "R" q = .ok (norm exEnv 7 (.ref "R") exVal) { rest := [], start := false } := by
  refine ⟨_, rfl, ?_⟩
  exact c01_query_params_roundtrip tablesV2 c01_tables_ok_v2 c01_query_table_escapes_amp.1 F exEnv (by decide)
    "R" _ _ rfl (by decide) 6 _ (by simp [exVal, ValOK, ValOKKvs, ValOKList, KeysNodup]) _ rfl

/-- the same value through JSON: every hypothesis but the three strconv assumptions is met -/
example (F : FloatLaws) (C : ConvLaws) (N : NumLaws) :
    unmarshalJson { env := exEnv, tracker := { excl := .empty, ignore := 0 } } (.ref "R") (renderJson (.obj exKvs)) =
      some (.ok (norm exEnv 6 (.ref "R") exVal) []) :=
  c01_json_roundtrip_bytes exEnv F C N (by decide) 0 6 _ exVal exKvs
    (by simp [exVal, ValOK, ValOKKvs, ValOKList, KeysNodup]) rfl (by
      have : exKvs = [([101], Doc.str [66]),
          ([109], Doc.obj [([], Doc.arr []), ([122], Doc.arr [Doc.int 1, Doc.int 2])]),
          ([114], Doc.int (-5)), ([117], Doc.obj [([98], Doc.str [40, 37, 43, 32])]), ([120], Doc.bool true)] := rfl
      rw [this]
      simp only [DocTextOK, DocTextOKKvs, DocTextOKItems, and_true, true_and]
      decide)

end Restli.Codec
