import Restli.Model.EndToEnd
/-! # C02 — end-to-end call fidelity (property theorems; under construction) -/
namespace Restli.E2E

/-- the regenerated constants the model is stated against are the protocol's -/
theorem c02_constants_v2 :
    constsV2.fElements = sB "elements" ∧ constsV2.fEntities = sB "entities" ∧ constsV2.fValue = sB "value" ∧
    constsV2.pIds = sB "ids" ∧ constsV2.pFinder = sB "q" ∧ constsV2.pAction = sB "action" := by
  decide +kernel

end Restli.E2E
