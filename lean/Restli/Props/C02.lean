import Restli.Proofs.EndToEnd
import Restli.Proofs.EndToEndCodec
import Restli.Props.C01
import Restli.Props.C05
import Restli.Props.C15
/-! # C02 — end-to-end call fidelity: generated client → HTTP → generated server and back

Property theorems only (helper lemmas: `Proofs/EndToEnd.lean`). Model: `Model/EndToEnd.lean` — the
generated client method, `formatQueryUrl`, `newRequest` with tunnelling, `DecodeTunnelledQuery`,
`ServeHTTP`/`receive`, the registered closure with the generated decoders, the `Register*` adapters,
the response half of `ServeHTTP`, net/http's treatment of response header values, the client's
response handling. The model *calls* the existing models (`Model/Routing`, `HttpUrl`, `Tunnel`,
`Encode`/`Render*`, `Ror2Reader`, `TreeReader`, `Patch`) as they are, and the theorems below *apply*
the other properties' theorems wherever those are proved:

* routing (C05): `walk_some`, `locateAt_simple_nokey`, `c05_exactly_one(_served)` — applied;
* tunnelling transparency (C14): `decode_sent`, `sent_plain`, `decode_no_override` — applied, under
  C14's own hypotheses `TokenBoundary` / `BoundaryFresh` about Go's random multipart boundary;
* URL construction (C15): `UrlLaw` (the request URL is context path + resource path, raw query kept)
  is derived from `c15_url_preserved_partial` in `c02_url_law_from_c15` (arbitrary resource path,
  C15's guard `NoDotSegments` kept) and `c02_url_law_for_call` (the client's own path: guard discharged);
* JSON values (C01): `json_roundtrip_tree` — applied in the response direction; the step from the
  emitted JSON *text* to the tree the writers denote is C03's `parse_renderJson` — applied, under its
  hypotheses `NumLaws` (strconv's float text is one JSON number token) and `DocTextOK` (strings and
  keys valid UTF-8);
* request-direction codec round trips (C01 for keys, parameters, bodies; C11 for patches): enter as
  the hypothesis `hcodec` — the closure's decoders, run on the client's own key texts, sorted
  parameter pairs and body bytes, return the caller's values; `decodeInvocation_client` shows that
  these three byte-level inputs are exactly the client's three byte-level outputs;
* cleanliness of what the writers emit (C01 `c01_escaped_is_clean`, C03
  `c03_ror2_string_token_wellformed`): key texts contain no `/`, parameter texts no `&`, both are
  balanced in parentheses (`ValidateRor2Input`) — hypotheses `htexts`, `hpairs`;
* batch key correlation (C16): `c02_batch_entries_filed_under_caller_keys` is the client loop of this
  model; which replies meet its hypotheses is C16's subject.

Two findings were repaired in /repo and are gone from this file as guards (the model follows the
repaired code): a path key that is a dot segment (`c02_dot_keys_reach_their_method`; the guard
`NoDotSegments` is now discharged by the writer in `c02_url_law_for_call` and kept only for arbitrary
resource paths, as in C15) and a created id that is not a transparent HTTP header value
(`c02_created_id_and_status` is full strength; `c02_awkward_created_ids_come_back`). What is left is
net/http's: a call through `AddToMux` whose key decodes to an unclean URL path is redirected by
`http.ServeMux` before go-restli sees it (known finding C02-servemux-unclean-path, D only).
Statuses left at zero are the protocol's defaults, not findings: `CreatedEntity.Status = 0` is sent
as 201, `BatchEntityUpdateResponse.Status = 0` as 204 (`createdStatus`; the direct oracle reads them
the same way). -/
namespace Restli.E2E
open Restli Restli.Codec
open Restli.Routing (Method)

/-! ## constants -/

/-- The regenerated constants of the v2 module satisfy what the theorems assume about them: the
tunnelling constants are good (C14), every method's `String()` maps back to it through
`MethodNameMapping`, no method name is empty. Re-decided on every run. -/
theorem c02_constants_ok_v2 : ConstsOk constsV2 where
  good := Tunnel.good_of_B _ (by decide +kernel)
  names := by
    intro m hm
    cases m <;> first | exact absurd rfl hm | decide +kernel
  namesNe := by
    intro m hm
    cases m <;> first | exact absurd rfl hm | decide +kernel
  sortKeys := rfl
  okStatus := by decide
  finderStr := by decide +kernel
  actionStr := by decide +kernel
  headerCovers := by decide +kernel
  headerWrites := by decide +kernel
  elemMeta := by decide +kernel
  metaPaging := by decide +kernel
  elemPaging := by decide +kernel

/-- the envelope member names and reserved parameter names are the protocol's -/
theorem c02_constants_v2 :
    constsV2.fElements = sB "elements" ∧ constsV2.fEntities = sB "entities" ∧ constsV2.fValue = sB "value" ∧
    constsV2.fResults = sB "results" ∧ constsV2.fStatuses = sB "statuses" ∧ constsV2.fErrors = sB "errors" ∧
    constsV2.fId = sB "id" ∧ constsV2.fStatus = sB "status" ∧ constsV2.fPaging = sB "paging" ∧
    constsV2.fMetadata = sB "metadata" ∧ constsV2.idHeader = sB "X-RestLi-Id" ∧
    constsV2.pIds = sB "ids" ∧ constsV2.pFinder = sB "q" ∧ constsV2.pAction = sB "action" := by
  decide +kernel

/-! ## the query string -/

/-- **What `ParseQueryParams` cuts out of the client's query is what `BuildQueryParams` joined** —
the reserved parameters (`q`, `action`, `ids`), the user's parameters and the paging context alike,
each name with exactly the text its writer produced, in ascending order of the names; for every list
of pairs whose names are non-empty and free of `&`/`=` and whose texts are free of `&` (what the
query-flavour writer emits: `&` and `=` are not in its safe table). No bound on any length. -/
theorem c02_query_roundtrip (ps : List (Bytes × Bytes)) (h : ∀ e ∈ ps, PairClean e) :
    parseQuery (joinQuery ps) = sortByKey ps :=
  parseQuery_joinQuery ps h

/-- …so each parameter the client wrote is found by `receive` under its own name with its own text,
and a name the client did not write is absent (what method inference and the finder / action lookup
read). -/
theorem c02_query_lookup (ps : List (Bytes × Bytes)) (h : ∀ e ∈ ps, PairClean e)
    (hn : ((sortByKey ps).map (·.1)).Nodup) :
    (∀ k v, (k, v) ∈ ps → Routing.lookupLast (strOf k) (stringQuery (joinQuery ps)) = some (strOf v)) ∧
    (∀ k, (∀ e ∈ ps, e.1 ≠ k) → Routing.lookupLast (strOf k) (stringQuery (joinQuery ps)) = none) :=
  ⟨fun k v hm => lookup_client_pair ps h hn k v hm, fun k hk => lookup_client_absent ps h k hk⟩

/-! ## the path -/

/-- **The path of a call names its resource.** For every registered tree, every resource
description whose segments lead to a node of it (collections and simple resources at any depth) and
every list of key texts of the right length: the specification's `locate` on the call's path finds
that node, with the description's resource path, exactly the key texts as entity keys (parents'
first), and an own key exactly for entity-level methods. -/
theorem c02_path_names_resource (roots : List Routing.Node) (onEntity : Bool) (segs : List SegSpec)
    (node : Routing.Node) (ks : List String) (hnode : nodeFor roots segs = some node)
    (hl : ks.length = (keyTys onEntity segs).length) :
    Routing.Spec.locate roots (pathStrs onEntity segs ks) = some ⟨node, rpathOf segs, ks, hasKeyAt onEntity segs⟩ :=
  locate_pathStrs roots onEntity segs node ks hnode hl

/-! ## the call reaches exactly its method -/

/-- **Routing picks the call's method, for every method kind.** On the request of a call — the verb
of its kind, `X-RestLi-Method` naming it, the path of its resource with the key texts, the client's
query — `ServeHTTP`/`receive` decide for the handler registered for that method on that resource
(`KindOk`: registered, entity level consistent, reserved parameters as the client writes them), with
the key texts as entity keys and the finder / action name of the call. -/
theorem c02_routed_to_method (K : Consts) (hK : ConstsOk K) (roots : List Routing.Node) (r : ResSpec)
    (node : Routing.Node) (hnode : nodeFor roots r.segs = some node)
    (texts : List Bytes) (hlen : texts.length = (keyTys r.method.onEntity r.segs).length)
    (htexts : ∀ t ∈ texts, Routing.validateRor2Input (strOf t) = true)
    (q : Bytes) (hqv : ((stringQuery q).all fun kv => Routing.validateRor2Input kv.2) = true)
    (hkind : KindOk K r node (stringQuery q)) :
    Routing.route K.R Routing.validateRor2Input roots (clientRoutingReq K r texts q) = .routed (factsOf r texts) := by
  have := routeX_client K hK roots r node hnode texts hlen htexts q hqv hkind
  simp [Routing.route, this]

/-- **The generated client meets `KindOk`.** When the resource description and the registration agree
(`SpecOk`: both are emitted from one restspec) the request the generated client builds satisfies
everything routing asks of the method kind: the finder name travels under `q`, the action name under
`action` (`queryPairs_reserved`), and `receive` finds them there among the sorted, joined and re-cut
parameters. Hypotheses about the parameter pairs: clean texts (C01/C03), distinct names, and no
parameter called `action` on a method that is not an action (restspec well-formedness). -/
theorem c02_client_meets_kind (K : Consts) (hK : ConstsOk K) (env : Env) (r : ResSpec) (c : Call)
    (node : Routing.Node) (hs : SpecOk r node)
    (pairs : Option (List (Bytes × Bytes))) (hp : queryPairs K env r c = some pairs)
    (hclean : ∀ e ∈ pairs.getD [], PairClean e)
    (hn : ((sortByKey (pairs.getD [])).map (·.1)).Nodup)
    (hname : r.method.kind = .finder ∨ r.method.kind = .action → K.queryEsc r.method.name = r.method.name)
    (hnoaction : r.method.kind ≠ .action → ∀ e ∈ pairs.getD [], e.1 ≠ K.pAction) :
    KindOk K r node (stringQuery ((pairs.map joinQuery).getD [])) := by
  apply kindOk_of_pairs K hK r node hs pairs hclean hn
  · intro hk
    exact (queryPairs_reserved K env r c pairs hp (hs.nameNe (Or.inl hk)) (hname (Or.inl hk))).1 hk
  · intro hk
    exact (queryPairs_reserved K env r c pairs hp (hs.nameNe (Or.inr hk)) (hname (Or.inr hk))).2 hk
  · exact hnoaction

/-- **Exactly one resource method runs, and it is the call's.** With the routing decision above and
no filter in the way, the handler's event list has exactly one invocation, and every invocation in
it carries the call's facts (C05's `c05_exactly_one`, instantiated). -/
theorem c02_exactly_one (K : Consts) (hK : ConstsOk K) (roots : List Routing.Node) (r : ResSpec)
    (node : Routing.Node) (hnode : nodeFor roots r.segs = some node)
    (texts : List Bytes) (hlen : texts.length = (keyTys r.method.onEntity r.segs).length)
    (htexts : ∀ t ∈ texts, Routing.validateRor2Input (strOf t) = true)
    (q : Bytes) (hqv : ((stringQuery q).all fun kv => Routing.validateRor2Input kv.2) = true)
    (hkind : KindOk K r node (stringQuery q)) (pfx : String) :
    let out := Routing.serveSegs K.R Routing.validateRor2Input ⟨pfx, [], roots⟩ (clientRoutingReq K r texts q)
    (out.events.map Routing.Event.tag).count Routing.Tag.inv = 1 ∧
    ∀ f' s, Routing.Event.invoke f' s ∈ out.events → f' = factsOf r texts := by
  have hx := routeX_client K hK roots r node hnode texts hlen htexts q hqv hkind
  have hreach : Routing.reaches (factsOf r texts) (hasKeyAt r.method.onEntity r.segs)
      (hasKeyAt r.method.onEntity r.segs) (clientRoutingReq K r texts q) = true := by
    have : (clientRoutingReq K r texts q).decodes = Method.all := rfl
    simp only [Routing.reaches, this]
    cases hk : r.method.kind <;> simp [factsOf, hk, Method.all] <;> exact absurd hk hkind.known
  constructor
  · exact Routing.c05_exactly_one_served K.R Routing.validateRor2Input ⟨pfx, [], roots⟩ _ _ _ _ hx (by simp) hreach
  · intro f' s hmem
    have := (Routing.c05_exactly_one K.R Routing.validateRor2Input ⟨pfx, [], roots⟩ (clientRoutingReq K r texts q)).2 f' s hmem
    simp only [Routing.route, hx] at this
    cases this; rfl

/-- the request URL keeps the context path followed by the resource path, and the raw query —
what C15's `c15_url_preserved_partial` proves under its guards (no dot segment in the path, the
context's root cut) -/
structure UrlLaw (cfg : Cfg) (root rp : Bytes) (query : Option Bytes) (u : Url.URL) : Prop where
  parsed : ∃ host, Url.parse (baseUrlText cfg) = .ok host ∧ HttpUrl.requestUrl host root rp query = .ok u
  path : Url.escapedPath u = cfg.pfx ++ rp
  rawQuery : u.rawQuery = query.getD []

/-- the resolver URL of the model, as a base URL of C15's grammar: `http://c02.test` + context segments -/
def baseOf (ctx : List Bytes) : HttpUrlSpec.Base :=
  { authority := some ⟨sB "http", sB "c02.test", [], false⟩, segs := ctx, trailingSlash := false }

/-- **`UrlLaw` is C15's theorem.** For a context path of well-formed segments that does not contain
the root resource's name, a resource path and query of the encoders' alphabets and — C15's guard 1,
the guard of finding C02-dot-segment-key — no `.`/`..` segment in the path:
`c15_url_preserved_partial` yields the request URL with the context path followed by the resource
path and the raw query kept byte for byte. -/
theorem c02_url_law_from_c15 (cfg : Cfg) (ctx : List Bytes) (hpfx : cfg.pfx = HttpUrlSpec.joinSegs ctx)
    (root rp : Bytes) (q : Option Bytes)
    (hwf : (baseOf ctx).wf = true) (hrp : HttpUrlSpec.resourcePathOk root rp = true)
    (hq : HttpUrlSpec.queryText (q.getD []) = true) (hroot : ∀ s ∈ ctx, s ≠ root)
    (guard : HttpUrlSpec.NoDotSegments (HttpUrlSpec.joinSegs ctx ++ rp)) :
    ∃ u, UrlLaw cfg root rp q u := by
  have hlast : ctx.getLast? ≠ some root := by
    intro h
    exact hroot root (List.mem_of_getLast? h) rfl
  have hexp : HttpUrlSpec.expectedPath (baseOf ctx).segs root rp = HttpUrlSpec.joinSegs ctx ++ rp := by
    simp [HttpUrlSpec.expectedPath, baseOf, hlast]
  have hP := HttpUrl.c15_url_preserved_partial (baseOf ctx) root rp q hwf hrp hq
    (fun s hs => hroot s (List.dropLast_subset _ hs))
    (by rw [hexp]; exact guard)
    (fun h => absurd h hlast)
  have htext : (baseOf ctx).text = baseUrlText cfg := by
    have : sB "http" ++ [58, 47, 47] ++ (sB "c02.test" ++ []) = sB "http://c02.test" := by decide +kernel
    simp only [HttpUrlSpec.Base.text, baseOf, HttpUrlSpec.Authority.text, HttpUrlSpec.Authority.host, HttpUrlSpec.Base.ctx,
      Bool.false_eq_true, if_false, List.append_nil, baseUrlText, hpfx]
    rw [← this]; simp
  unfold HttpUrl.UrlPreserved at hP
  rw [htext] at hP
  cases hparse : Url.parse (baseUrlText cfg) with
  | ok host =>
    cases hreq : HttpUrl.requestUrl host root rp q with
    | ok u =>
      simp only [hparse, hreq] at hP
      exact ⟨u, ⟨host, hparse, hreq⟩, by rw [hP.path_exact, hexp, hpfx], hP.query_exact⟩
    | err => simp [hparse, hreq] at hP
    | unmodelled w => simp [hparse, hreq] at hP
    | panic => simp [hparse, hreq] at hP
  | err => simp [hparse] at hP
  | unmodelled w => simp [hparse] at hP
  | panic => simp [hparse] at hP

/-- **`UrlLaw` for the path of a call — the dot-segment guard is discharged by the writer.** For the
resource path the generated client builds (`keyTexts`), C15's guard `NoDotSegments` holds by
construction since `fix: write an entity key that is exactly "." or ".." percent-encoded`: a key
text is never `.` or `..` (`keyTexts_not_dot`). What remains are statements about the inputs that are
not keys: the context segments and the resource names are not dot segments and contain no `/`. -/
theorem c02_url_law_for_call (K : Consts) (N : NumLaws) (env : Env) (cfg : Cfg) (ctx : List Bytes)
    (hpfx : cfg.pfx = HttpUrlSpec.joinSegs ctx) (r : ResSpec) (c : Call) (texts : List Bytes)
    (ht : keyTexts K env (keyTys r.method.onEntity r.segs) c.keys = some texts) (root : Bytes) (q : Option Bytes)
    (hwf : (baseOf ctx).wf = true)
    (hrp : HttpUrlSpec.resourcePathOk root (joinPath (pathSegsB r.method.onEntity r.segs texts)) = true)
    (hq : HttpUrlSpec.queryText (q.getD []) = true) (hroot : ∀ s ∈ ctx, s ≠ root)
    (hctx : ∀ s ∈ ctx, (∀ ch ∈ s, ch ≠ 47) ∧ s ≠ [46] ∧ s ≠ [46, 46])
    (hnames : ∀ s ∈ r.segs, (∀ ch ∈ s.name, ch ≠ 47) ∧ s.name ≠ [46] ∧ s.name ≠ [46, 46])
    (htexts : ∀ t ∈ texts, ∀ ch ∈ t, ch ≠ 47) :
    ∃ u, UrlLaw cfg root (joinPath (pathSegsB r.method.onEntity r.segs texts)) q u := by
  apply c02_url_law_from_c15 cfg ctx hpfx root _ q hwf hrp hq hroot
  have hj : HttpUrlSpec.joinSegs ctx = joinPath ctx := by
    simp [HttpUrlSpec.joinSegs, joinPath, List.flatMap]
  have happ : joinPath ctx ++ joinPath (pathSegsB r.method.onEntity r.segs texts) =
      joinPath (ctx ++ pathSegsB r.method.onEntity r.segs texts) := by simp [joinPath]
  rw [hj, happ]
  have hnd := keyTexts_not_dot K N env _ _ _ ht
  apply noDotSegments_joinPath
  · intro s hs
    rcases List.mem_append.1 hs with h | h
    · exact (hctx s h).1
    · rcases pathSegsB_mem _ _ _ s h with ⟨y, hy, rfl⟩ | hx
      · exact (hnames y hy).1
      · exact htexts s hx
  · intro s hs
    rcases List.mem_append.1 hs with h | h
    · exact (hctx s h).2
    · rcases pathSegsB_mem _ _ _ s h with ⟨y, hy, rfl⟩ | hx
      · exact (hnames y hy).2
      · exact hnd s hx

/-- **The keys of a call come back** (the first third of `hcodec` below, as a theorem): the texts
the generated client writes for the entity keys of a resource path — each key on a path writer of
its own, a key that is exactly `.` or `..` as `%2E`/`%2E%2E` — are decoded by the generated
`UnmarshalResourcePath` to the caller's keys (normalised: NaN canonical, entries of a complex key in
key order), for every key type of every schema. From C01's byte-level round trip for values read at
position 0 (`ror2_roundtrip_any`), `FloatLaws` being C01's hypothesis about strconv. -/
theorem c02_keys_read_back (F : Codec.FloatLaws) (env : Env) (hS : Codec.schemaOKb env = true)
    (tys : List Ty) (keys : List Value) (texts : List Bytes) (hv : ∀ k ∈ keys, Codec.ValOK k)
    (ht : keyTexts constsV2 env tys keys = some texts) :
    decodeKeys env tys texts = .ok (List.zipWith (Codec.norm env encFuel) tys keys) :=
  decodeKeys_keyTexts constsV2 rfl (Codec.escLaws_path Escape.tablesV2 Escape.c01_tables_ok_v2) F env
    (Codec.schemaOK_of_check env hS) tys keys texts hv ht

/-- **The parameters of a call come back** (the second third of `hcodec`, for a query that consists
of the params record's own pairs): the sorted name/value pairs the generated client writes for a
record of parameters — every field on a query writer of its own — are decoded by the generated
`DecodeQueryParams` to the caller's record (normalised: own defaults filled in), for every params
record of every schema and parameters of every type. -/
theorem c02_params_read_back (F : Codec.FloatLaws) (env : Env) (hS : Codec.schemaOKb env = true)
    (n : TName) (incs : List TName) (own : List Field) (hfind : env.find n = some (.record incs own))
    (fs : List (Bytes × Value)) (hv : Codec.ValOK (.record fs)) (pairs : List (Bytes × Bytes))
    (hp : paramPairs constsV2 env n (.record fs) = some pairs) :
    decodeParams env n (sortByKey pairs) = .ok (Codec.norm env (encFuel + 1) (.ref n) (.record fs)) :=
  decodeParams_paramPairs constsV2 rfl (Codec.escLaws_query Escape.tablesV2 Escape.c01_tables_ok_v2) F env
    (Codec.schemaOK_of_check env hS) n incs own hfind fs hv pairs hp

/-- **End-to-end, request direction.** For every registered resource shape, method kind, call, context
path and tunnelling threshold: if the client marshals the call (key texts `texts`, parameter pairs
`pairs`, body `bodyD`), then it puts a request on the wire, and the server — de-tunnelling, prefix,
split, routing, the registered closure — invokes exactly the call's method with the result of running
the generated decoders on the client's own key texts, sorted parameter pairs and body bytes. With the
codec round trips of the call's values (`hcodec`; C01, C11) that result is the call: the resource
sees the keys, parameters (paging included) and body the caller passed.
Hypotheses beside the quantifier: cleanliness of the writers' output (C01/C03), `UrlLaw` (C15),
the boundary hypotheses of C14, and that a body, when present, is not empty (a JSON document never is). -/
theorem c02_call_reaches_method (K : Consts) (hK : ConstsOk K) (env : Env) (roots : List Routing.Node) (cfg : Cfg)
    (r : ResSpec) (c : Call) (node : Routing.Node) (hnode : nodeFor roots r.segs = some node)
    (texts : List Bytes) (ht : keyTexts K env (keyTys r.method.onEntity r.segs) c.keys = some texts)
    (pairs : Option (List (Bytes × Bytes))) (hp : queryPairs K env r c = some pairs)
    (bodyD : Option Doc) (hbd : bodyDoc K env r c = some bodyD)
    (hnames : ∀ s ∈ r.segs, ∀ ch ∈ s.name, ch ≠ 47)
    (htexts : ∀ t ∈ texts, (∀ ch ∈ t, ch ≠ 47) ∧ Routing.validateRor2Input (strOf t) = true)
    (hpairs : ∀ e ∈ pairs.getD [], PairClean e ∧ Routing.validateRor2Input (strOf e.2) = true)
    (hkind : KindOk K r node (stringQuery ((pairs.map joinQuery).getD [])))
    (hpfx : (strOf cfg.pfx).toList.getLast? ≠ some '/')
    (u : Url.URL) (hurl : UrlLaw cfg ((r.segs.head?.map (·.name)).getD [])
      (joinPath (pathSegsB r.method.onEntity r.segs texts)) (pairs.map joinQuery) u)
    (hb : Tunnel.TokenBoundary cfg.boundary)
    (hfresh : TunnelSpec.BoundaryFresh cfg.boundary ((pairs.map joinQuery).getD []) ((bodyD.map renderJson).getD []))
    (hbody : bodyD.map renderJson ≠ some [])
    (i : Invocation)
    (hcodec : (decodeKeys env (keyTys r.method.onEntity r.segs) texts).bind (fun keys =>
        (decodeQuery K env r (sortByKey (pairs.getD []))).bind (fun qp =>
          (decodeBody K env r qp.1 qp.2 ((bodyD.map renderJson).getD [])).bind (fun pb => .ok ⟨keys, pb.1, pb.2⟩))) = .ok i) :
    ∃ a sent, clientEncode K env r c = some a ∧ wireRequest K cfg a = .ok sent ∧
      serverSees K env roots cfg r sent = .invoked i := by
  have hlen := keyTexts_length K env _ _ _ ht
  have hqv : ((stringQuery ((pairs.map joinQuery).getD [])).all fun kv => Routing.validateRor2Input kv.2) = true := by
    cases pairs with
    | none => simp [stringQuery_nil]
    | some ps =>
      simp only [Option.map_some, Option.getD_some]
      rw [stringQuery_joinQuery ps (fun e he => (hpairs e he).1)]
      simp only [List.all_map, List.all_eq_true]
      intro e he
      exact (hpairs e ((mem_sortByKey ps e).1 he)).2
  obtain ⟨sent, hsent, hsees⟩ := serverSees_delivered K hK env roots cfg r node hnode texts hlen hnames htexts
    ((pairs.map joinQuery).getD []) hqv hkind hpfx u.forceQuery (bodyD.map renderJson) hb hfresh hbody
  refine ⟨_, sent, clientEncode_eq K env r c texts pairs bodyD ht hp hbd, ?_, ?_⟩
  · obtain ⟨host, hparse, hreq⟩ := hurl.parsed
    simp only [wireRequest, hparse, ofUrlRes, hreq, hurl.path, hurl.rawQuery, hsent]
  · rw [hsees, afterRouting, decodeInvocation_client K env r texts pairs (fun e he => (hpairs e he).1), hcodec]

/-- **A `get` with parameters, end to end with no codec hypothesis left.** For every resource shape,
key types and params record of every schema: a `get` made through the generated client — keys in
the path, the params record in the query — reaches exactly its method, and the resource sees the
caller's keys and parameters (normalised: NaN canonical, own defaults filled in). `hcodec` of
`c02_call_reaches_method` is discharged by `c02_keys_read_back` and `c02_params_read_back`; what is
left are the cleanliness facts of the writers' output (C01/C03), `UrlLaw` (C15) and C14's boundary
hypotheses. -/
theorem c02_get_reaches_method_with_its_arguments (F : Codec.FloatLaws) (env : Env) (hS : Codec.schemaOKb env = true)
    (roots : List Routing.Node) (cfg : Cfg) (r : ResSpec) (c : Call) (node : Routing.Node)
    (hnode : nodeFor roots r.segs = some node)
    (hget : r.method.kind = .get) (n : TName) (hparams : r.method.params = some n)
    (incs : List TName) (own : List Field) (hfind : env.find n = some (.record incs own))
    (fs : List (Bytes × Value)) (hcp : c.params = some (.record fs)) (hcb : c.body = .none)
    (hvk : ∀ k ∈ c.keys, Codec.ValOK k) (hvp : Codec.ValOK (.record fs))
    (texts : List Bytes) (ht : keyTexts constsV2 env (keyTys r.method.onEntity r.segs) c.keys = some texts)
    (pairs : List (Bytes × Bytes)) (hp : paramPairs constsV2 env n (.record fs) = some pairs)
    (hnames : ∀ s ∈ r.segs, ∀ ch ∈ s.name, ch ≠ 47)
    (htexts : ∀ t ∈ texts, (∀ ch ∈ t, ch ≠ 47) ∧ Routing.validateRor2Input (strOf t) = true)
    (hpairs : ∀ e ∈ pairs, PairClean e ∧ Routing.validateRor2Input (strOf e.2) = true)
    (hkind : KindOk constsV2 r node (stringQuery (joinQuery pairs)))
    (hpfx : (strOf cfg.pfx).toList.getLast? ≠ some '/')
    (u : Url.URL) (hurl : UrlLaw cfg ((r.segs.head?.map (·.name)).getD [])
      (joinPath (pathSegsB r.method.onEntity r.segs texts)) (some (joinQuery pairs)) u)
    (hb : Tunnel.TokenBoundary cfg.boundary)
    (hfresh : TunnelSpec.BoundaryFresh cfg.boundary (joinQuery pairs) []) :
    ∃ a sent, clientEncode constsV2 env r c = some a ∧ wireRequest constsV2 cfg a = .ok sent ∧
      serverSees constsV2 env roots cfg r sent =
        .invoked ⟨List.zipWith (Codec.norm env encFuel) (keyTys r.method.onEntity r.segs) c.keys,
          some (Codec.norm env (encFuel + 1) (.ref n) (.record fs)), .none⟩ := by
  have hqp : queryPairs constsV2 env r c = some (some pairs) := by
    simp [queryPairs, hget, hparams, hcp, hp, isBatchKeyed]
  have hbd : bodyDoc constsV2 env r c = some Option.none := by
    simp [bodyDoc, hget, hcb]
  have hkeys := c02_keys_read_back F env hS _ c.keys texts hvk ht
  have hpar := c02_params_read_back F env hS n incs own hfind fs hvp pairs hp
  refine c02_call_reaches_method constsV2 c02_constants_ok_v2 env roots cfg r c node hnode texts ht (some pairs) hqp
    Option.none hbd hnames htexts (by simpa using hpairs) (by simpa using hkind) hpfx u (by simpa using hurl) hb
    (by simpa using hfresh) (by simp) _ ?_
  simp only [Option.getD_some, hkeys, Dec.bind, decodeQuery, hget, hparams, hpar, isBatchKeyed,
    Option.map_none, Option.getD_none, decodeBody, List.isEmpty_nil, ↓reduceIte, Bool.false_eq_true]

/-- **A `create`, end to end with no codec hypothesis left.** For every collection and entity record of
every schema: a `create` made through the generated client — parent keys in the path, the entity as
the JSON body — reaches exactly its method and the resource sees the caller's keys and the caller's
entity (normalised). The body half of `hcodec` is C01's byte-level JSON round trip
(`c01_json_roundtrip_bytes`, under its hypotheses about strconv and valid UTF-8 text). -/
theorem c02_create_reaches_method_with_its_entity (F : Codec.FloatLaws) (C : Codec.ConvLaws) (N : Codec.NumLaws)
    (env : Env) (hS : Codec.schemaOKb env = true)
    (roots : List Routing.Node) (cfg : Cfg) (r : ResSpec) (c : Call) (node : Routing.Node)
    (hnode : nodeFor roots r.segs = some node)
    (hcreate : r.method.kind = .create) (hparams : r.method.params = Option.none)
    (sn : TName) (hschema : r.schema = some sn) (v : Value) (hcb : c.body = .entity v)
    (hvk : ∀ k ∈ c.keys, Codec.ValOK k) (hv : Codec.ValOK v)
    (kvs : List (Bytes × Doc)) (henc : encode (wcfg constsV2 env) encFuel [] (.ref sn) v = .ok (.obj kvs))
    (htext : Codec.DocTextOK (.obj kvs))
    (texts : List Bytes) (ht : keyTexts constsV2 env (keyTys r.method.onEntity r.segs) c.keys = some texts)
    (hnames : ∀ s ∈ r.segs, ∀ ch ∈ s.name, ch ≠ 47)
    (htexts : ∀ t ∈ texts, (∀ ch ∈ t, ch ≠ 47) ∧ Routing.validateRor2Input (strOf t) = true)
    (hkind : KindOk constsV2 r node (stringQuery []))
    (hpfx : (strOf cfg.pfx).toList.getLast? ≠ some '/')
    (u : Url.URL) (hurl : UrlLaw cfg ((r.segs.head?.map (·.name)).getD [])
      (joinPath (pathSegsB r.method.onEntity r.segs texts)) Option.none u)
    (hb : Tunnel.TokenBoundary cfg.boundary)
    (hfresh : TunnelSpec.BoundaryFresh cfg.boundary [] (renderJson (.obj kvs))) :
    ∃ a sent, clientEncode constsV2 env r c = some a ∧ wireRequest constsV2 cfg a = .ok sent ∧
      serverSees constsV2 env roots cfg r sent =
        .invoked ⟨List.zipWith (Codec.norm env encFuel) (keyTys r.method.onEntity r.segs) c.keys,
          Option.none, .entity (Codec.norm env encFuel (.ref sn) v)⟩ := by
  have hqp : queryPairs constsV2 env r c = some Option.none := by
    simp [queryPairs, hcreate, hparams, isBatchKeyed]
  have hbd : bodyDoc constsV2 env r c = some (some (.obj kvs)) := by
    simp [bodyDoc, hcreate, hcb, hschema, henc, toOpt]
  have hkeys := c02_keys_read_back F env hS _ c.keys texts hvk ht
  have hjson := Codec.c01_json_roundtrip_bytes env F C N hS 0 encFuel (.ref sn) v kvs hv henc htext
  have hne : renderJson (.obj kvs) ≠ [] := by
    cases kvs <;> simp [renderJson]
  refine c02_call_reaches_method constsV2 c02_constants_ok_v2 env roots cfg r c node hnode texts ht Option.none hqp
    (some (.obj kvs)) hbd hnames htexts (by simp) (by simpa using hkind) hpfx u (by simpa using hurl) hb
    (by simpa using hfresh) (by simpa using hne) _ ?_
  have hj : unmarshalJson (jsonTCfg env 0) (.ref sn) (renderJson (.obj kvs)) =
      some (.ok (Codec.norm env encFuel (.ref sn) v) []) := hjson
  simp only [hkeys, Dec.bind, decodeQuery, hcreate, hparams, isBatchKeyed,
    Option.map_some, Option.getD_some, decodeBody, hschema, hj, ofTRes, Bool.false_eq_true, ↓reduceIte]

/-- **An `update`, end to end with no codec hypothesis left.** For every resource and entity record of
every schema: an `update` made through the generated client — keys in the path, the entity as
the JSON body — reaches exactly its method and the resource sees the caller's keys and the caller's
entity (normalised). The body half of `hcodec` is C01's byte-level JSON round trip
(`c01_json_roundtrip_bytes`, under its hypotheses about strconv and valid UTF-8 text). -/
theorem c02_update_reaches_method_with_its_entity (F : Codec.FloatLaws) (C : Codec.ConvLaws) (N : Codec.NumLaws)
    (env : Env) (hS : Codec.schemaOKb env = true)
    (roots : List Routing.Node) (cfg : Cfg) (r : ResSpec) (c : Call) (node : Routing.Node)
    (hnode : nodeFor roots r.segs = some node)
    (hcreate : r.method.kind = .update) (hparams : r.method.params = Option.none)
    (sn : TName) (hschema : r.schema = some sn) (v : Value) (hcb : c.body = .entity v)
    (hvk : ∀ k ∈ c.keys, Codec.ValOK k) (hv : Codec.ValOK v)
    (kvs : List (Bytes × Doc)) (henc : encode (wcfg constsV2 env) encFuel [] (.ref sn) v = .ok (.obj kvs))
    (htext : Codec.DocTextOK (.obj kvs))
    (texts : List Bytes) (ht : keyTexts constsV2 env (keyTys r.method.onEntity r.segs) c.keys = some texts)
    (hnames : ∀ s ∈ r.segs, ∀ ch ∈ s.name, ch ≠ 47)
    (htexts : ∀ t ∈ texts, (∀ ch ∈ t, ch ≠ 47) ∧ Routing.validateRor2Input (strOf t) = true)
    (hkind : KindOk constsV2 r node (stringQuery []))
    (hpfx : (strOf cfg.pfx).toList.getLast? ≠ some '/')
    (u : Url.URL) (hurl : UrlLaw cfg ((r.segs.head?.map (·.name)).getD [])
      (joinPath (pathSegsB r.method.onEntity r.segs texts)) Option.none u)
    (hb : Tunnel.TokenBoundary cfg.boundary)
    (hfresh : TunnelSpec.BoundaryFresh cfg.boundary [] (renderJson (.obj kvs))) :
    ∃ a sent, clientEncode constsV2 env r c = some a ∧ wireRequest constsV2 cfg a = .ok sent ∧
      serverSees constsV2 env roots cfg r sent =
        .invoked ⟨List.zipWith (Codec.norm env encFuel) (keyTys r.method.onEntity r.segs) c.keys,
          Option.none, .entity (Codec.norm env encFuel (.ref sn) v)⟩ := by
  have hqp : queryPairs constsV2 env r c = some Option.none := by
    simp [queryPairs, hcreate, hparams, isBatchKeyed]
  have hbd : bodyDoc constsV2 env r c = some (some (.obj kvs)) := by
    simp [bodyDoc, hcreate, hcb, hschema, henc, toOpt]
  have hkeys := c02_keys_read_back F env hS _ c.keys texts hvk ht
  have hjson := Codec.c01_json_roundtrip_bytes env F C N hS 0 encFuel (.ref sn) v kvs hv henc htext
  have hne : renderJson (.obj kvs) ≠ [] := by
    cases kvs <;> simp [renderJson]
  refine c02_call_reaches_method constsV2 c02_constants_ok_v2 env roots cfg r c node hnode texts ht Option.none hqp
    (some (.obj kvs)) hbd hnames htexts (by simp) (by simpa using hkind) hpfx u (by simpa using hurl) hb
    (by simpa using hfresh) (by simpa using hne) _ ?_
  have hj : unmarshalJson (jsonTCfg env 0) (.ref sn) (renderJson (.obj kvs)) =
      some (.ok (Codec.norm env encFuel (.ref sn) v) []) := hjson
  simp only [hkeys, Dec.bind, decodeQuery, hcreate, hparams, isBatchKeyed,
    Option.map_some, Option.getD_some, decodeBody, hschema, hj, ofTRes, Bool.false_eq_true, ↓reduceIte]

/-- **A `delete`, end to end with no codec hypothesis left**: keys in the path, nothing else; the
resource sees the caller's keys. -/
theorem c02_delete_reaches_method_with_its_keys (F : Codec.FloatLaws) (env : Env) (hS : Codec.schemaOKb env = true)
    (roots : List Routing.Node) (cfg : Cfg) (r : ResSpec) (c : Call) (node : Routing.Node)
    (hnode : nodeFor roots r.segs = some node)
    (hdel : r.method.kind = .delete) (hparams : r.method.params = Option.none) (hcb : c.body = .none)
    (hvk : ∀ k ∈ c.keys, Codec.ValOK k)
    (texts : List Bytes) (ht : keyTexts constsV2 env (keyTys r.method.onEntity r.segs) c.keys = some texts)
    (hnames : ∀ s ∈ r.segs, ∀ ch ∈ s.name, ch ≠ 47)
    (htexts : ∀ t ∈ texts, (∀ ch ∈ t, ch ≠ 47) ∧ Routing.validateRor2Input (strOf t) = true)
    (hkind : KindOk constsV2 r node (stringQuery []))
    (hpfx : (strOf cfg.pfx).toList.getLast? ≠ some '/')
    (u : Url.URL) (hurl : UrlLaw cfg ((r.segs.head?.map (·.name)).getD [])
      (joinPath (pathSegsB r.method.onEntity r.segs texts)) Option.none u)
    (hb : Tunnel.TokenBoundary cfg.boundary)
    (hfresh : TunnelSpec.BoundaryFresh cfg.boundary [] []) :
    ∃ a sent, clientEncode constsV2 env r c = some a ∧ wireRequest constsV2 cfg a = .ok sent ∧
      serverSees constsV2 env roots cfg r sent =
        .invoked ⟨List.zipWith (Codec.norm env encFuel) (keyTys r.method.onEntity r.segs) c.keys,
          Option.none, .none⟩ := by
  have hqp : queryPairs constsV2 env r c = some Option.none := by
    simp [queryPairs, hdel, hparams, isBatchKeyed]
  have hbd : bodyDoc constsV2 env r c = some Option.none := by
    simp [bodyDoc, hdel, hcb]
  have hkeys := c02_keys_read_back F env hS _ c.keys texts hvk ht
  refine c02_call_reaches_method constsV2 c02_constants_ok_v2 env roots cfg r c node hnode texts ht Option.none hqp
    Option.none hbd hnames htexts (by simp) (by simpa using hkind) hpfx u (by simpa using hurl) hb
    (by simpa using hfresh) (by simp) _ ?_
  simp only [hkeys, Dec.bind, decodeQuery, hdel, hparams, isBatchKeyed, Option.map_none, Option.getD_none,
    decodeBody, List.isEmpty_nil, ↓reduceIte, Bool.false_eq_true]

/-- **Whether query tunnelling is triggered makes no difference.** Two configurations that differ
only in the tunnelling threshold: the server sees the same thing (both are what the closure makes of
the untunnelled request — C14 applied on both sides). -/
theorem c02_tunnelling_irrelevant (K : Consts) (hK : ConstsOk K) (env : Env) (roots : List Routing.Node) (cfg : Cfg)
    (t1 t2 : Nat) (r : ResSpec) (node : Routing.Node) (hnode : nodeFor roots r.segs = some node)
    (texts : List Bytes) (hlen : texts.length = (keyTys r.method.onEntity r.segs).length)
    (hnames : ∀ s ∈ r.segs, ∀ ch ∈ s.name, ch ≠ 47)
    (htexts : ∀ t ∈ texts, (∀ ch ∈ t, ch ≠ 47) ∧ Routing.validateRor2Input (strOf t) = true)
    (q : Bytes) (hqv : ((stringQuery q).all fun kv => Routing.validateRor2Input kv.2) = true)
    (hkind : KindOk K r node (stringQuery q))
    (hpfx : (strOf cfg.pfx).toList.getLast? ≠ some '/') (fq : Bool) (body : Option Bytes)
    (hb : Tunnel.TokenBoundary cfg.boundary) (hfresh : TunnelSpec.BoundaryFresh cfg.boundary q (body.getD []))
    (hbody : body ≠ some []) :
    ∃ s1 s2,
      Tunnel.sentRequest K.T cfg.boundary t1 (cfg.pfx ++ joinPath (pathSegsB r.method.onEntity r.segs texts)) fq q
        (verbBytes r.method.kind) (sB (methodName K.R r.method.kind)) body = .ok s1 ∧
      Tunnel.sentRequest K.T cfg.boundary t2 (cfg.pfx ++ joinPath (pathSegsB r.method.onEntity r.segs texts)) fq q
        (verbBytes r.method.kind) (sB (methodName K.R r.method.kind)) body = .ok s2 ∧
      serverSees K env roots { cfg with threshold := t1 } r s1 = serverSees K env roots { cfg with threshold := t2 } r s2 := by
  obtain ⟨s1, h1, e1⟩ := serverSees_delivered K hK env roots { cfg with threshold := t1 } r node hnode texts hlen hnames
    htexts q hqv hkind hpfx fq body hb hfresh hbody
  obtain ⟨s2, h2, e2⟩ := serverSees_delivered K hK env roots { cfg with threshold := t2 } r node hnode texts hlen hnames
    htexts q hqv hkind hpfx fq body hb hfresh hbody
  exact ⟨s1, s2, h1, h2, by rw [e1, e2]⟩

/-! ## the response direction: the client returns what the resource returned -/

/-- **Entity.** What a `get` implementation returns is what the client call returns: the response
body is the entity's JSON, which parses to the tree the writers denote (C03's `parse_renderJson`,
applied: `NumLaws` about strconv's float text, strings and keys valid UTF-8), read back by the
generated unmarshaler (C01's JSON tree round trip `json_roundtrip_tree`, applied) — `norm`: defaults filled, map entries in
key order, NaN canonical. For every schema, entity type, value and depth. -/
theorem c02_returns_entity (K : Consts) (hK : ConstsOk K) (env : Env) (F : FloatLaws) (C : ConvLaws) (S : SchemaOK env)
    (keq : Value → Value → Bool) (r : ResSpec) (c : Call) (n : TName) (hs : r.schema = some n)
    (hkind : r.method.kind = .get) (v : Value) (hv : ValOK v) (d : Doc)
    (henc : encode (wcfg K env) encFuel [] (.ref n) v = .ok d) (N : NumLaws) (hok : DocTextOK d) :
    callReturns K env keq r c (.entity v) = .entity (norm env encFuel (.ref n) v) := by
  obtain ⟨resp, h1, h2⟩ := returns_entity_get K hK env F C S keq r c n hs hkind v hv d henc (jsonText_of N d hok)
  simp [callReturns, h1, h2]

/-- **Action result.** The value an action returns is what the client call returns (the `value`
envelope opened; any result type: primitives, arrays, records). -/
theorem c02_returns_action_result (K : Consts) (hK : ConstsOk K) (env : Env) (F : FloatLaws) (C : ConvLaws)
    (S : SchemaOK env) (keq : Value → Value → Bool) (r : ResSpec) (c : Call) (ty : Ty) (hret : r.method.ret = some ty)
    (hkind : r.method.kind = .action) (v : Value) (hv : ValOK v) (d : Doc)
    (henc : encode (wcfg K env) encFuel [K.fValue] ty v = .ok d)
    (N : NumLaws) (hok : DocTextOK ((wcfg K env).finish [(K.fValue, d)])) :
    callReturns K env keq r c (.action v) = .action (norm env encFuel ty v) := by
  obtain ⟨resp, h1, h2⟩ := returns_action K hK env F C S keq r c ty hret hkind v hv d henc (jsonText_of N _ hok)
  simp [callReturns, h1, h2]

/-- **Elements with paging.** What `get_all` or a finder returns — every element, in order, and the
paging record (or none) — is what the client call returns. Any number of elements. -/
theorem c02_returns_elements_paging (K : Consts) (hK : ConstsOk K) (env : Env) (F : FloatLaws) (C : ConvLaws)
    (S : SchemaOK env) (keq : Value → Value → Bool) (r : ResSpec) (c : Call) (ty : Ty)
    (hkind : r.method.kind = .get_all ∨ r.method.kind = .finder) (hty : elemTy r = some ty)
    (vs : List Value) (hvs : ∀ v ∈ vs, ValOK v) (ds : List Doc) (hds : encElems K env ty vs = some ds)
    (paging : Option Value) (hpv : ∀ p, paging = some p → ValOK p) (pg : List (Bytes × Doc))
    (hpg : encPaging K env paging = some pg) (hmeta : r.method.metadata = none)
    (N : NumLaws) (hok : DocTextOK ((wcfg K env).finish ((K.fElements, .arr ds) :: pg))) :
    callReturns K env keq r c (.elements vs paging none) =
      .elements (vs.map (norm env encFuel ty)) (paging.map (norm env encFuel (.ref tCollMeta))) none := by
  obtain ⟨resp, h1, h2⟩ := returns_elements K hK env F C S keq r c ty hkind hty vs hvs ds hds paging hpv pg hpg hmeta
    (jsonText_of N _ hok)
  simp [callReturns, h1, h2]

/-- **Per-key batch results, statuses and errors are filed under the caller's keys.** One map of a
batch response (`results`, `statuses` or `errors`), read by the client's correlation loop: if every
member's name reads as a key that the key type's equality (`keq`: `Equals`, `ComplexKeyEquals`)
finds among the caller's keys and its value decodes, and no two members name the same caller key,
then the map the client returns has exactly one entry per member, in the members' order, each under
the CALLER's key (`orig`) with the member's decoded value — none lost, none duplicated, none moved to
another key. (That a server reply about requested keys meets the hypotheses, and that a reply that
does not is rejected, is C16: `c16_response_filed_under_original`, `c16_unknown_key_is_error`,
`c16_response_repeated_key_is_error`; the values' round trips are C01.) -/
theorem c02_batch_entries_filed_under_caller_keys {β : Type} (env : Env) (kt : Ty) (keq : Value → Value → Bool)
    (callKeys : List Value) (dec : Json.JVal → Dec β) (orig : Bytes → Value) (val : Json.JVal → β)
    (ms : List (Bytes × Json.JVal)) (hms : ∀ m ∈ ms, MemberOk env kt keq callKeys dec orig val m)
    (hdistinct : (ms.map (fun m => orig m.1)).Pairwise (fun a b => keq a b = false)) :
    decodeBatchMap env kt keq callKeys dec [] ms = .ok (ms.map (fun m => (orig m.1, val m.2))) :=
  decodeBatchMap_members env kt keq callKeys dec orig val ms [] hms hdistinct (by intro s hs; cases hs)

/-- **Created id and status — full strength.** Whatever id the implementation returns (any key type,
any content: spaces at the ends, control bytes, CR/LF, non-ASCII, reserved characters), the client
returns the id its header text decodes to — the implementation's id, by C01's header-flavour round
trip `hdec` — and the status the implementation chose (201 when it left it at zero). The former guard
`HeaderSafe` is now a lemma (`headerText_safe`): since `fix: header-flavour ROR2 escapes control
bytes, DEL and spaces` every byte the header writer emits survives in an HTTP header field value
(`ConstsOk.headerCovers` / `headerWrites`, re-decided against the regenerated table on every run). -/
theorem c02_created_id_and_status (K : Consts) (hK : ConstsOk K) (E : EscLaws K.headerEsc false) (F : FloatLaws)
    (env : Env) (keq : Value → Value → Bool) (r : ResSpec) (c : Call)
    (kt : Ty) (hkt : lastKeyTy r.segs = some kt) (hkind : r.method.kind = .create) (hre : r.method.returnEntity = false)
    (cr : Created) (idt : Bytes) (hid : ror2Text K env K.headerEsc kt cr.id = some idt)
    (id' : Value) (hdec : ofRes (unmarshalRor2 (pathRCfg env) kt idt) = .ok id')
    (hst : createdStatus cr / 100 = 2) :
    callReturns K env keq r c (.created cr) = .created id' (createdStatus cr) none := by
  have hsafe : HeaderSafe idt := by
    simp only [ror2Text] at hid
    cases he : toOpt (encode (wcfg K env) encFuel [] kt cr.id) with
    | none => simp [he] at hid
    | some d =>
      simp only [he, Option.map_some, Option.some.injEq] at hid
      rw [← hid]
      exact headerText_safe K hK E F d
  obtain ⟨resp, h1, h2⟩ := returns_created K env keq r c kt hkt hkind hre cr idt hid hsafe id' hdec hst
  simp [callReturns, h1, h2]

end Restli.E2E

/-! ## a concrete world: witnesses and non-vacuity -/
namespace Restli.E2E.Witness
open Restli Restli.Codec Restli.E2E
open Restli.Routing (Method)

/-- entity `Inner { id: int, name: optional string }` -/
def env : Env := [("Inner", .record [] [⟨sB "id", .prim .i32, false, none⟩, ⟨sB "name", .prim .str, true, none⟩])]

/-- a string-keyed collection `coll` (get, delete, create, batch_get, finder `byName`, entity action `poke`)
with a simple sub-resource `detail` (get, delete) -/
def server : Routing.Server :=
  Routing.registerAll (Routing.newServer constsV2.R [])
    [([("coll", true)], .method .get), ([("coll", true)], .method .delete), ([("coll", true)], .method .create),
     ([("coll", true)], .method .batch_get), ([("coll", true)], .finder "byName"), ([("coll", true)], .action "poke" true),
     ([("coll", true), ("detail", false)], .method .get), ([("coll", true), ("detail", false)], .method .delete)]

def roots : List Routing.Node := server.handler.roots

def collSegs : List SegSpec := [⟨sB "coll", some (.prim .str)⟩]
def detailSegs : List SegSpec := [⟨sB "coll", some (.prim .str)⟩, ⟨sB "detail", none⟩]

def collGet : ResSpec := ⟨collSegs, some "Inner", ⟨.get, [], true, none, none, none, false⟩⟩
def detailGet : ResSpec := ⟨detailSegs, some "Inner", ⟨.get, [], false, none, none, none, false⟩⟩
def detailDelete : ResSpec := ⟨detailSegs, some "Inner", ⟨.delete, [], false, none, none, none, false⟩⟩

def collCreate : ResSpec := ⟨collSegs, some "Inner", ⟨.create, [], false, none, none, none, false⟩⟩
def someEntity : Value := .record [(sB "id", .i32 7)]
def createdIdOf : Returned → Option Bytes
  | .created (.str b) _ _ => some b
  | _ => none
def isNoIdHeader : Returned → Bool
  | .noIdHeader => true
  | _ => false
def isTransportError : Returned → Bool
  | .transportError => true
  | _ => false

def boundary : Bytes := sB "0123456789abcdef0123456789abcdef0123456789abcdef0123456789ab"
def plainCfg : Cfg := ⟨0, [], boundary⟩
def ctxCfg (t : Nat) : Cfg := ⟨t, sB "/ctx/api%20v1", boundary⟩

/-- the path keys a `Seen` was invoked with, as path texts (bytes compare; values do not) -/
def seenKeys (tys : List Ty) : Seen → Option (List Bytes)
  | .invoked i => keyTexts constsV2 env tys i.keys
  | _ => none

def isOther : Seen → Option (Method × List String)
  | .other f => some (f.method, f.keys)
  | _ => none

end Restli.E2E.Witness

namespace Restli.E2E
open Witness

/-- **(was finding C02-dot-segment-key, DESIGN F13 — repaired by `fix: write an entity key that is
exactly "." or ".." percent-encoded in the resource path`.)** Before the repair
`detail.get(key = ".")` was sent to `/coll/detail` and invoked `coll.get("detail")`, `detail.delete`
likewise `coll.delete("detail")` (the retired witnesses `c02_dot_segment_key_cex`,
`c02_dot_segment_key_other_method`). Now the dot keys travel as `%2E` / `%2E%2E` and reach their
method with the key intact — plain, under a context path, tunnelled. -/
theorem c02_dot_keys_reach_their_method :
    (∀ key ∈ [[46], [46, 46]],
      seenKeys [.prim .str] (callSeen constsV2 env roots plainCfg detailGet ⟨[.str key], none, .none⟩) =
        keyTexts constsV2 env [.prim .str] [.str key] ∧
      seenKeys [.prim .str] (callSeen constsV2 env roots (ctxCfg 1) detailDelete ⟨[.str key], none, .none⟩) =
        keyTexts constsV2 env [.prim .str] [.str key] ∧
      seenKeys [.prim .str] (callSeen constsV2 env roots (ctxCfg 0) collGet ⟨[.str key], none, .none⟩) =
        keyTexts constsV2 env [.prim .str] [.str key]) ∧
    keyTexts constsV2 env [.prim .str] [.str [46]] = some [sB "%2E"] ∧
    keyTexts constsV2 env [.prim .str] [.str [46, 46]] = some [sB "%2E%2E"] := by
  decide +kernel

/-- **(was finding C02-F14-id-header-not-transparent, DESIGN F14 — repaired by `fix: header-flavour
ROR2 escapes control bytes, DEL and spaces`.)** Before the repair the created id `" "` came back as a
missing id header, `" a "` as `"a"`, and `"\x00"` failed the whole call (the retired witnesses
`c02_created_id_header_cex`, `c02_created_id_header_outcomes`). Now each comes back as it was
returned. -/
theorem c02_awkward_created_ids_come_back :
    ∀ id ∈ [[32], [0], sB " a ", sB "a\nb\r", [127, 9], sB "a (b):'c',%41 é/+"],
      createdIdOf (callReturns constsV2 env (fun _ _ => false) collCreate ⟨[], none, .entity someEntity⟩
        (.created ⟨.str id, 201, none, none⟩)) = some id := by
  decide +kernel

/-- the hypotheses of `c02_created_id_and_status` about the header escaper are C01's `escLaws_header`
for the regenerated table -/
example : Codec.EscLaws constsV2.headerEsc false := Codec.escLaws_header Escape.tablesV2 Escape.c01_tables_ok_v2

/-! non-vacuity of the request-direction theorems: a key full of reserved characters, a context path,
tunnelling on and off -/

/-- `coll.get("a/b (c):'d',%41 é+")` reaches `coll.get` with exactly that key: untunnelled, tunnelled,
under a context path -/
example :
    let key : Bytes := sB "a/b (c):'d',%41 é+"
    seenKeys [.prim .str] (callSeen constsV2 env roots plainCfg collGet ⟨[.str key], none, .none⟩) =
      keyTexts constsV2 env [.prim .str] [.str key] ∧
    seenKeys [.prim .str] (callSeen constsV2 env roots (ctxCfg 0) collGet ⟨[.str key], none, .none⟩) =
      keyTexts constsV2 env [.prim .str] [.str key] ∧
    seenKeys [.prim .str] (callSeen constsV2 env roots (ctxCfg 1) detailGet ⟨[.str key], none, .none⟩) =
      keyTexts constsV2 env [.prim .str] [.str key] := by
  decide +kernel

/-- the empty key travels as `''` -/
example : seenKeys [.prim .str] (callSeen constsV2 env roots plainCfg collGet ⟨[.str []], none, .none⟩) =
    some [[39, 39]] := by decide +kernel

example : (nodeFor roots detailSegs).map Routing.Node.methods = some [.get, .delete] := by decide +kernel

/-! every hypothesis of `c02_call_reaches_method` at once, on a tunnelled finder call under a context
path: the theorem applies and yields the invocation -/

def collFind : ResSpec := ⟨collSegs, some "Inner", ⟨.finder, sB "byName", false, none, some (.ref "Inner"), none, false⟩⟩
def collNode : Routing.Node := (nodeFor roots collSegs).getD (.mk "" false [] [] [] [])
def collNode_is : nodeFor roots collSegs = some collNode := by
  have h : (nodeFor roots collSegs).isSome = true := by decide +kernel
  unfold collNode
  cases hn : nodeFor roots collSegs with
  | none => rw [hn] at h; cases h
  | some n => rfl
def okOr {α : Type} [Inhabited α] : Url.Res α → α
  | .ok a => a
  | _ => default
instance : Inhabited Url.URL := ⟨{}⟩
def findPairs : List (Bytes × Bytes) := [(sB "q", sB "byName")]
def findHost : Url.URL := okOr (Url.parse (baseUrlText (ctxCfg 1)))
def findUrl : Url.URL := okOr (HttpUrl.requestUrl findHost (sB "coll") (sB "/coll") (some (joinQuery findPairs)))

example : ∃ a sent, clientEncode constsV2 env collFind ⟨[], none, .none⟩ = some a ∧
    wireRequest constsV2 (ctxCfg 1) a = .ok sent ∧
    serverSees constsV2 env roots (ctxCfg 1) collFind sent = .invoked ⟨[], none, .none⟩ :=
  c02_call_reaches_method constsV2 c02_constants_ok_v2 env roots (ctxCfg 1) collFind ⟨[], none, .none⟩ collNode
    collNode_is [] (by rfl) (some findPairs) (by decide +kernel) none (by rfl)
    (by decide +kernel) (by intro t ht; cases ht) (by decide +kernel)
    { known := by decide
      needs := by decide +kernel
      forbids := by decide +kernel
      simple := by decide +kernel
      finder := by decide +kernel
      action := by decide +kernel
      plain := by decide +kernel }
    (by decide +kernel) findUrl
    { parsed := ⟨findHost, by decide +kernel, by decide +kernel⟩
      path := by decide +kernel
      rawQuery := by decide +kernel }
    ⟨by decide +kernel, by decide +kernel⟩ ⟨by decide +kernel, by decide +kernel⟩ (by decide)
    ⟨[], none, .none⟩ (by rfl)

/-- …and that request really was tunnelled: a POST without URL query -/
example : (match clientEncode constsV2 env collFind ⟨[], none, .none⟩ with
    | some a => (match wireRequest constsV2 (ctxCfg 1) a with
      | .ok s => (s.method, s.rawQuery, s.path)
      | _ => ([], [1], []))
    | none => ([], [2], [])) = (sB "POST", [], sB "/ctx/api%20v1/coll") := by decide +kernel

end Restli.E2E
