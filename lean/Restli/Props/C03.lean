import Restli.Props.C01
import Restli.Model.RenderRor2
import Restli.Lib.JsonText
/-! # C03 — wire-format conformance against an independent oracle

The independent oracles are (a) in Lean, `Json.parse` — a strict RFC 8259 parser written from
the grammar, sharing nothing with the writer model — and the ROR2 grammar facts below; (b) in
the harness, `encoding/json` in strict mode, a reference ROR2 grammar parser and a reference
encoder written from the protocol rules (harness/codec/refdoc.go, refror2.go), against which
every emitted document and every accepted document is compared in both directions on every run.

Proved here, for all byte strings: the context-specific percent-encoding claims of the ROR2
grammar (a string token never contains a raw structural byte in any of the three contexts, is
never empty, the empty string is written as `''` and nothing else is), and how the JSON string
writer treats every ASCII byte; and for whole documents: everything the compact JSON writer emits
is accepted by the strict parser and parses to exactly the document's tree
(`c03_json_output_parses_to_its_tree`), and everything the ROR2 writers emit is the rendering of a
well-formed raw-token tree (`c03_ror2_output_is_wellformed_tree`), which the reader reads as that
tree (`bridge`, Proofs/Ror2Bridge.lean); the pretty JSON writer's output parses to the same tree.
The "conversely" direction (reference documents in other legal spellings) is decided by the harness. -/
namespace Restli.Codec
open Escape

/-- ROR2 string tokens (values and, after the repair, map keys) never contain a raw structural
byte `( ) , :` in any flavour, and are never empty -/
theorem c03_ror2_string_token_wellformed (t : Tables) (h : TablesOk t) (b : Bytes) :
    (∀ c ∈ ror2Str (escapeWith t.pathSafe) b, c ≠ 40 ∧ c ≠ 41 ∧ c ≠ 44 ∧ c ≠ 58) ∧
    (∀ c ∈ ror2Str (escapeWith t.querySafe) b, c ≠ 40 ∧ c ≠ 41 ∧ c ≠ 44 ∧ c ≠ 58) ∧
    (∀ c ∈ ror2Str (replaceWith t.headerEscapes) b, c ≠ 40 ∧ c ≠ 41 ∧ c ≠ 44 ∧ c ≠ 58) ∧
    ror2Str (escapeWith t.pathSafe) b ≠ [] ∧ ror2Str (escapeWith t.querySafe) b ≠ [] ∧
    ror2Str (replaceWith t.headerEscapes) b ≠ [] := by
  have hc := c01_escaped_is_clean t h b
  have key : ∀ (esc : Bytes → Bytes), (∀ c ∈ esc b, c ∉ reserved) →
      ∀ c ∈ ror2Str esc b, c ≠ 40 ∧ c ≠ 41 ∧ c ≠ 44 ∧ c ≠ 58 := by
    intro esc hclean c hm
    unfold ror2Str at hm
    split at hm
    · -- the empty marker '' consists of two apostrophes
      have : c = 39 := by
        have : Gen.emptyMarker = [39, 39] := rfl
        rw [this] at hm; simpa using hm
      subst this; decide
    · have := hclean c hm
      simp only [reserved, List.mem_cons, List.not_mem_nil, or_false, not_or] at this
      exact ⟨this.1, this.2.1, this.2.2.1, this.2.2.2.1⟩
  have ne : ∀ (esc : Bytes → Bytes), (b ≠ [] → esc b ≠ []) → ror2Str esc b ≠ [] := by
    intro esc hne
    unfold ror2Str
    split
    · simp [show Gen.emptyMarker = [39, 39] from rfl]
    · next hb => exact hne (by intro h'; subst h'; simp at hb)
  refine ⟨key _ hc.1, key _ hc.2.1, key _ hc.2.2, ne _ ?_, ne _ ?_, ne _ ?_⟩
  · exact fun hb => (c01_escaped_nonempty t h b hb).1
  · exact fun hb => (c01_escaped_nonempty t h b hb).2.1
  · exact fun hb => (c01_escaped_nonempty t h b hb).2.2

/-- the token `''` denotes the empty string and only the empty string: a non-empty string is
never written as `''` (its apostrophes are always percent-encoded) -/
theorem c03_ror2_empty_marker_unambiguous (t : Tables) (h : TablesOk t) (b : Bytes) (hb : b ≠ []) :
    ror2Str (escapeWith t.pathSafe) b ≠ Gen.emptyMarker ∧
    ror2Str (escapeWith t.querySafe) b ≠ Gen.emptyMarker ∧
    ror2Str (replaceWith t.headerEscapes) b ≠ Gen.emptyMarker := by
  have hc := c01_escaped_is_clean t h b
  have key : ∀ (esc : Bytes → Bytes), (∀ c ∈ esc b, c ∉ reserved) → ror2Str esc b ≠ Gen.emptyMarker := by
    intro esc hclean heq
    unfold ror2Str at heq
    have hbe : b.isEmpty = false := by cases b <;> simp_all
    simp only [hbe, Bool.false_eq_true, ↓reduceIte] at heq
    have := hclean 39 (by rw [heq]; decide)
    exact this (by decide)
  exact ⟨key _ hc.1, key _ hc.2.1, key _ hc.2.2⟩

open Json in
/-- JSON strings: every ASCII byte is either copied (and is then neither a quote, a backslash nor
a control character) or written as an escape sequence that starts with a backslash -/
theorem c03_json_ascii_bytes (c : UInt8) :
    (asciiSafe c = true → c ≠ 34 ∧ c ≠ 92 ∧ 32 ≤ c) ∧
    (asciiSafe c = false → (escapeAscii c).head? = some 92) := by
  constructor
  · intro h
    simp only [asciiSafe, Bool.and_eq_true, decide_eq_true_eq, bne_iff_ne, ne_eq] at h
    exact ⟨h.1.1.1.1.2, h.2, h.1.1.1.1.1⟩
  · intro _
    unfold escapeAscii
    repeat' split
    all_goals rfl

/-- **every compact JSON document the library emits is well-formed and denotes its tree**: the
strict RFC 8259 parser accepts `renderJson d` and returns exactly `treeOf jsonEnc d` (keys are the
field names / map keys / member aliases as written, bytes one code point per byte, enums their
symbols, NaN and the infinities the three reserved strings, integers and finite floats number
tokens), for every document whose strings and keys are valid UTF-8; `NumLaws` is the assumption
that strconv's float text is one JSON number token -/
theorem c03_json_output_parses_to_its_tree (N : NumLaws) (d : Doc) (hok : DocTextOK d) :
    Json.parse (renderJson d) = some (treeOf jsonEnc d) :=
  parse_renderJson N d hok

/-- the same for the pretty writer: its output parses to the same tree as the compact one -/
theorem c03_json_pretty_output_parses_to_its_tree (N : NumLaws) (d : Doc) (hok : DocTextOK d) :
    Json.parse (renderPretty 0 d) = some (treeOf jsonEnc d) :=
  parse_renderPretty N d hok

/-- the JSON string writer against the strict parser, for every valid UTF-8 byte string and
whatever follows: quotes, backslashes, control characters, `<`, `>`, `&`, U+2028/U+2029 and all
multi-byte sequences come back byte for byte -/
theorem c03_json_string_roundtrip (s rest : Bytes) (fuel : Nat) (hv : Utf8.validUtf8 s = true) :
    Json.parseValue (fuel + 1) (Json.jsonString s ++ rest) = some (.str s, rest) :=
  Json.parseValue_jsonString s rest fuel hv

/-- **every ROR2 document the library emits follows the grammar**: it is the rendering
(`(k:v,…)`, `List(…)`, tokens) of a raw-token tree all of whose tokens and keys are non-empty and
free of raw structural bytes, in any flavour whose tables are sound -/
theorem c03_ror2_output_is_wellformed_tree (t : Tables) (ht : TablesOk t) (F : FloatLaws) (doc : Doc) :
    (renderRor2 (escapeWith t.pathSafe) doc = renderRaw (rawOf (escapeWith t.pathSafe) doc) ∧
      RawWF (rawOf (escapeWith t.pathSafe) doc)) ∧
    (renderRor2 (escapeWith t.querySafe) doc = renderRaw (rawOf (escapeWith t.querySafe) doc) ∧
      RawWF (rawOf (escapeWith t.querySafe) doc)) ∧
    (renderRor2 (replaceWith t.headerEscapes) doc = renderRaw (rawOf (replaceWith t.headerEscapes) doc) ∧
      RawWF (rawOf (replaceWith t.headerEscapes) doc)) :=
  ⟨⟨renderRor2_eq_renderRaw _ doc, rawOf_wf _ false (escLaws_path t ht) F doc⟩,
   ⟨renderRor2_eq_renderRaw _ doc, rawOf_wf _ true (escLaws_query t ht) F doc⟩,
   ⟨renderRor2_eq_renderRaw _ doc, rawOf_wf _ false (escLaws_header t ht) F doc⟩⟩

/-! the independent strict parser rejects near misses (closed examples) -/
example : (match Json.parse (Json.jsonString [97, 34, 92, 10, 0, 60, 0xC3, 0xA9]) with
    | some (.str b) => b == [97, 34, 92, 10, 0, 60, 0xC3, 0xA9] | _ => false) = true := by decide
example : (Json.parse [123, 34, 97, 34, 58, 49, 44, 125]).isNone = true := by decide     -- trailing comma
example : (Json.parse [48, 49]).isNone = true := by decide                               -- leading zero

end Restli.Codec
