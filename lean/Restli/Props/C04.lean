import Restli.Proofs.NoPanic
import Restli.Proofs.Fuel
/-! # C04 — decoder robustness (ROR2 readers and generated unmarshalers)

The reader model transliterates every Go index expression `u.data[u.pos]` / slice as a match
whose out-of-range branch is `.panic`. The theorem says no input of any kind reaches such a
branch: for **every** byte string, schema, type, exclusion spec and ignore count the modelled
`NewRor2ReaderWithExcludedFields(data, …)` + generated `UnmarshalRestLi` returns a value or an
error. (Before the bounds-check repair in `/repo` this was false: `"("`, `"(a:(b:1)"`, `"(a:1,"`.)

Termination: the model's recursion is bounded by fuel, and `c04_ror2_never_out_of_fuel` shows
the bound is never hit. JSON lexing safety is easyjson's and is only observed (harness), not proved; the HTTP-level
clauses (4xx, no resource invocation) belong to the routing/end-to-end models. -/
namespace Restli.Codec

/-- no byte string makes the ROR2 reader or a generated unmarshaler index outside its input -/
theorem c04_ror2_never_panics (c : RCfg) (ty : Ty) (data : Bytes) :
    unmarshalRor2 c ty data ≠ .panic :=
  unmarshalRor2_ne_panic c ty data

/-- the same for a reader positioned anywhere inside a document, with any amount of fuel: none
of the six mutually recursive reader functions can panic -/
theorem c04_ror2_reader_functions_never_panic (c : RCfg) (fuel : Nat) : NoPanicAt c fuel :=
  noPanicAt c fuel

/-- the path-spec matcher never panics when the scope is non-empty, which is how both the writer
and the tracker call it -/
theorem c04_pathspec_never_panics (p : PathSpec) (path : List Bytes) (h : path ≠ []) :
    gmatches p path ≠ .panic :=
  gmatches_ne_panic p path h

/-- **no input makes the reader model run forever**: the fuel `unmarshalRor2` starts with is never
exhausted, for any byte string, schema, type or spec — every recursive call either descends one
level of generated code or consumes input, and input is never pushed back (`Proofs/Fuel.lean`:
an explicit measure `2·remaining + k` per function, proved by mutual induction). The model is
therefore a total function whose outcomes are a value, an error, or — for hexadecimal float syntax
only — the model declining. -/
theorem c04_ror2_never_out_of_fuel (c : RCfg) (ty : Ty) (data : Bytes) :
    unmarshalRor2 c ty data ≠ .fuel :=
  unmarshalRor2_ne_fuel c ty data

/-- … and a successful read never leaves more input than it was given, at any position, for all
six reader functions, whenever the fuel is at least `2·remaining + 5` -/
theorem c04_ror2_reader_functions_consume (c : RCfg) (fuel : Nat) : FuelOK c fuel :=
  fuelOK c fuel

/-- the one way `genericMatches` *can* panic: an empty path against a non-empty spec (Go indexes
`path[0]`); no caller does this -/
example : gmatches (.node [([97], .node [])]) [] = .panic := by rfl

/-! non-vacuity: the formerly panicking inputs are errors now -/
def cfg0 : RCfg := { env := [("R", .record [] [{ name := [97], ty := .prim .i32, optional := true, dflt := none }])],
                     tracker := { excl := .empty, ignore := 0 }, plus := false }
example : (match unmarshalRor2 cfg0 (.ref "R") [40] with | .err .syntax => true | _ => false) = true := by rfl
example : (match unmarshalRor2 cfg0 (.ref "R") [40, 97, 58, 49, 44] with | .err .syntax => true | _ => false) = true := by rfl
example : (match unmarshalRor2 cfg0 (.ref "R") [40, 97, 58, 49, 41] with | .ok (.record [([97], .i32 1)]) _ => true | _ => false) = true := by rfl

end Restli.Codec
