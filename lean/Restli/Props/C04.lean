import Restli.Proofs.NoPanic
import Restli.Proofs.Fuel
import Restli.Proofs.AnyReader
import Restli.Proofs.QueryParams
/-! # C04 — decoder robustness (ROR2 readers and generated unmarshalers)

The reader model transliterates every Go index expression `u.data[u.pos]` / slice as a match
whose out-of-range branch is `.panic`. The theorem says no input of any kind reaches such a
branch: for **every** byte string, schema, type, exclusion spec and ignore count the modelled
`NewRor2ReaderWithExcludedFields(data, …)` + generated `UnmarshalRestLi` returns a value or an
error. (Before the bounds-check repair in `/repo` this was false: `"("`, `"(a:(b:1)"`, `"(a:1,"`.)

Termination: the model's recursion is bounded by fuel, and `c04_ror2_never_out_of_fuel` shows
the bound is never hit. JSON lexing safety is easyjson's and is only observed (harness), not proved; the HTTP-level
clauses (4xx, no resource invocation) belong to the routing/end-to-end models. -/
namespace Restli.Codec

/-- no byte string makes the ROR2 reader or a generated unmarshaler index outside its input -/
theorem c04_ror2_never_panics (c : RCfg) (ty : Ty) (data : Bytes) :
    unmarshalRor2 c ty data ≠ .panic :=
  unmarshalRor2_ne_panic c ty data

/-- the same for a reader positioned anywhere inside a document, with any amount of fuel: none
of the six mutually recursive reader functions can panic -/
theorem c04_ror2_reader_functions_never_panic (c : RCfg) (fuel : Nat) : NoPanicAt c fuel :=
  noPanicAt c fuel

/-- the path-spec matcher never panics when the scope is non-empty, which is how both the writer
and the tracker call it -/
theorem c04_pathspec_never_panics (p : PathSpec) (path : List Bytes) (h : path ≠ []) :
    gmatches p path ≠ .panic :=
  gmatches_ne_panic p path h

/-- **no input makes the reader model run forever**: the fuel `unmarshalRor2` starts with is never
exhausted, for any byte string, schema, type or spec — every recursive call either descends one
level of generated code or consumes input, and input is never pushed back (`Proofs/Fuel.lean`:
an explicit measure `2·remaining + k` per function, proved by mutual induction). The model is
therefore a total function whose outcomes are a value, an error, or — for hexadecimal float syntax
only — the model declining. -/
theorem c04_ror2_never_out_of_fuel (c : RCfg) (ty : Ty) (data : Bytes) :
    unmarshalRor2 c ty data ≠ .fuel :=
  unmarshalRor2_ne_fuel c ty data

/-- … and a successful read never leaves more input than it was given, at any position, for all
six reader functions, whenever the fuel is at least `2·remaining + 5` -/
theorem c04_ror2_reader_functions_consume (c : RCfg) (fuel : Nat) : FuelOK c fuel :=
  fuelOK c fuel
/-- **the untyped-value reader** (`NewInterfaceReaderWithExcludedFields` over any tree of Go maps,
slices, scalars, nils and values of unsupported kinds) driving the generated unmarshalers never
takes a panic branch: any value, any schema, any type, any exclusion spec and ignore count. The
model is structurally recursive over the value, so it also terminates on every input. -/
theorem c04_untyped_reader_never_panics (env : Env) (tr : Tracker) (ty : Ty) (v : AnyVal) :
    unmarshalAny env tr ty v ≠ .panic :=
  unmarshalAny_ne_panic env tr ty v

/-- **the JSON reader on a parsed document**: no document the strict parser accepts makes the
generated unmarshalers take a panic branch (what the lexer does with the others is observed) -/
theorem c04_json_reader_never_panics (env : Env) (tr : Tracker) (ty : Ty) (data : Bytes) :
    unmarshalJson { env := env, tracker := tr } ty data ≠ some .panic :=
  unmarshalJson_ne_panic _ rfl ty data

/-- **the query-parameters reader** (`ParseQueryParams` + `QueryParamsReader.ReadRecord` driving a
record's generated `UnmarshalField`, every parameter read by its own ROR2 reader): on every query
string, for every schema and record type, a value or an error — no panic branch, never out of fuel -/
theorem c04_query_reader_total (env : Env) (n : TName) (q : Bytes) :
    unmarshalQuery env n q ≠ .panic ∧ unmarshalQuery env n q ≠ .fuel :=
  unmarshalQuery_total env n q

/-- the tree reader with any leaf semantics that does not panic itself -/
theorem c04_tree_reader_never_panics (c : TCfg) (hs : SemNoPanic c.sem) (t : Json.JVal) (top : Bool)
    (scope : List Seg) (ty : Ty) : treeRead c top scope ty t ≠ .panic :=
  treeRead_ne_panic c hs t top scope ty


/-- the one way `genericMatches` *can* panic: an empty path against a non-empty spec (Go indexes
`path[0]`); no caller does this -/
example : gmatches (.node [([97], .node [])]) [] = .panic := by rfl

/-! non-vacuity: the formerly panicking inputs are errors now -/
def cfg0 : RCfg := { env := [("R", .record [] [{ name := [97], ty := .prim .i32, optional := true, dflt := none }])],
                     tracker := { excl := .empty, ignore := 0 }, plus := false }
example : (match unmarshalRor2 cfg0 (.ref "R") [40] with | .err .syntax => true | _ => false) = true := by rfl
example : (match unmarshalRor2 cfg0 (.ref "R") [40, 97, 58, 49, 44] with | .err .syntax => true | _ => false) = true := by rfl
example : (match unmarshalRor2 cfg0 (.ref "R") [40, 97, 58, 49, 41] with | .ok (.record [([97], .i32 1)]) _ => true | _ => false) = true := by rfl

/-- untyped values of the wrong shape are answered with an error (or the value, where Go converts) -/
example : (match unmarshalAny [("R", .record [] [⟨[97], .prim .i32, false, none⟩])] { excl := .empty, ignore := 0 } (.ref "R") .nil with
  | .err .syntax => true | _ => false) = true := by rfl
example : (match unmarshalAny [("R", .record [] [⟨[97], .prim .i32, false, none⟩])] { excl := .empty, ignore := 0 } (.ref "R")
    (.obj [([97], .arr [.nil])]) with | .err .syntax => true | _ => false) = true := by rfl
example : (match unmarshalAny [("R", .record [] [⟨[97], .prim .i32, false, none⟩])] { excl := .empty, ignore := 0 } (.ref "R")
    (.obj [([97], .str [52, 50]), ([98], .other)]) with | .ok (.record [([97], .i32 42)]) _ => true | _ => false) = true := by decide

end Restli.Codec
