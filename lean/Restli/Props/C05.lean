import Restli.Proofs.Routing
/-! # C05 — routing and Rest.li method inference send each request to exactly one method

Property theorems only (helper lemmas: `Proofs/Routing.lean`). The model is `Model/Routing.lean`
(`ServeHTTP`, `receive`, `Register*`, `Handler()`, `AddToMux` as written), the specification is
`Spec/Routing.lean` (a decision table written from the property text). Every statement is for all
resource trees (any nesting, any names, any method / finder / action subsets), all requests and all
validators `V` of keys and query values; `C` ranges over the constants of either module generation,
regenerated from source, and `Tied C` says that they are what the specification demands
(`c05_constants_tied_v2`, `c05_constants_tied_root`).

Where the code violates the property, the full statement is kept as a named proposition, the
theorem that holds is published as `…_partial` with the guard as a decidable predicate, and the
negation of the full statement is proved on a concrete witness. One finding is left:

* ACT  `receive` does not check entity-key presence for actions; the generated path decoder does,
       after the filters have run: an entity-level action without a key / a resource-level action
       with one is answered 400, but it counts as routed and the filters see it
                                                                          — guard `actionLevelMatches`

Repaired in /repo and therefore gone from this file (the model follows the repaired code):
F7 (malformed query → 400), F20 (malformed key → 400), F5 (`URL.EscapedPath()`), F6
(`NewPrefixedServer` keeps its prefix), MUX (`AddToMux` registers the subtree pattern too). -/
namespace Restli.Routing
open Spec

/-- The regenerated constants of the v2 module (header name, the thirteen method names, reserved
parameter names, statuses of the not-routed branches) are the ones the specification is written with. -/
theorem c05_constants_tied_v2 : Tied constsV2 := tied_v2

/-- The same for the root module. -/
theorem c05_constants_tied_root : Tied constsRoot := tied_root

/-! ## the model's decision is the specification's -/

/-- the guard forced by finding ACT -/
def Guards (roots : List Node) (req : Req) : Prop := actionLevelMatches roots req = true

instance (roots : List Node) (req : Req) : Decidable (Guards roots req) := by
  unfold Guards; infer_instance

/-- **Full statement** (false today, see `c05_route_eq_spec_cex_action_level`): on every request whose
outcome the property text determines, the routing decision of the code is the one of the decision table. -/
def RouteEqSpec (C : Consts) : Prop :=
  ∀ (V : String → Bool) (roots : List Node) (req : Req), nodesOk roots = true →
    specified V roots req = true → route C V roots req = Spec.decide V roots req

/-- For every tree `Register*` can build, every validator and every request the text determines —
outside the action-level finding — the code routes the request to the method the decision table
names, or refuses it with the status the table names (404 for unknown resources and sub-resources,
400 otherwise, malformed keys and query values included). -/
theorem c05_route_eq_spec_partial (C : Consts) (hC : Tied C) (V : String → Bool) (roots : List Node) (req : Req)
    (hroots : nodesOk roots = true) (hg : Guards roots req) (hs : specified V roots req = true) :
    route C V roots req = Spec.decide V roots req := by
  simp only [specified, Bool.and_eq_true, Bool.not_eq_eq_eq_not, Bool.not_true] at hs
  obtain ⟨⟨⟨⟨⟨h1, _⟩, h3⟩, h4⟩, h6⟩, h5⟩ := hs
  refine route_eq_decide C hC V roots req hroots hg h1 h3 h4 h6 ?_
  intro t ht
  simp only [ht, Bool.and_eq_true, Bool.not_eq_eq_eq_not, Bool.not_true] at h5
  exact ⟨h5.1.1.2, h5.1.2⟩

/-- The agreement needs fewer exclusions than the text leaves open: a header that contradicts the
verb, an empty path segment and `q` together with `ids` are decided by the code exactly as the
table's uniform reading decides them (the header names the method; an empty segment is a segment;
`q` is looked at before `ids`). -/
theorem c05_route_eq_spec_wider (C : Consts) (hC : Tied C) (V : String → Bool) (roots : List Node) (req : Req)
    (hroots : nodesOk roots = true) (hg : Guards roots req)
    (h1 : unknownHeaderValue req = false) (h2 : emptyReservedValue req = false) (h3 : duplicateReserved req = false)
    (h5 : malformedAndUnknown V roots req = false)
    (h4 : ∀ t, locate roots req.path = some t → otherVerbWithHeaderOnSimple t req = false ∧ keyAndIds t req = false) :
    route C V roots req = Spec.decide V roots req :=
  route_eq_decide C hC V roots req hroots hg h1 h2 h3 h5 h4

/-! witnesses -/

/-- a collection with an entity-level and a resource-level action, a finder and a simple sub-resource -/
def witnessTree : List Node :=
  [.mk "coll" true [.get, .get_all, .create] ["byName"] [("resAct", false), ("entAct", true)]
     [.mk "sub" false [.get] [] [] []]]

def witnessReq (verb : Verb) (hdr : Option String) (path : List String) (query : List (String × String)) : Req :=
  { verb := verb, headers := hdr.toList.map (fun h => ("X-RestLi-Method", h)), path := path, query := query,
    decodes := Method.all, implOk := true }

/-- (ACT) `POST /coll/1?action=resAct` with `X-RestLi-Method: action`: a resource-level action called
with an entity key counts as routed in the code (the filters run; the generated path decoder then
answers 400); the table refuses it without touching anything. -/
theorem c05_route_eq_spec_cex_action_level : ¬ RouteEqSpec constsV2 := by
  intro h
  have := h validateRor2Input witnessTree (witnessReq .POST (some "action") ["coll", "1"] [("action", "resAct")])
    (by decide) (by decide)
  revert this; decide

/-- (was F7) a malformed query value is a bad request, for the code as for the table. -/
theorem c05_malformed_query_is_400 :
    route constsV2 validateRor2Input witnessTree (witnessReq .GET none ["coll", "1"] [("foo", ")")]) = .reject 400 ∧
    Spec.decide validateRor2Input witnessTree (witnessReq .GET none ["coll", "1"] [("foo", ")")]) = .reject 400 := by
  decide

/-- (was F20) a malformed entity key on a registered collection is a bad request, not a missing resource. -/
theorem c05_malformed_key_is_400 :
    route constsV2 validateRor2Input witnessTree (witnessReq .GET none ["coll", ")"] []) = .reject 400 ∧
    Spec.decide validateRor2Input witnessTree (witnessReq .GET none ["coll", ")"] []) = .reject 400 := by
  decide

/-- "A request is routed to a resource method if and only if its path names a registered resource
(walking parent keys and sub-resources), its Rest.li method is registered on that resource, and the
presence of an entity key matches what that method requires" — `Routable` spells the right-hand
side out (`Spec/Routing.lean`); the facts handed to filters and method are the ones it names. -/
theorem c05_routed_iff (C : Consts) (hC : Tied C) (V : String → Bool) (roots : List Node) (req : Req) (f : Facts)
    (hroots : nodesOk roots = true) (hg : Guards roots req) (hs : specified V roots req = true) :
    route C V roots req = .routed f ↔ Routable V roots req f := by
  rw [c05_route_eq_spec_partial C hC V roots req hroots hg hs, decide_routed_iff]

/-! ## exactly one method -/

/-- Whatever the tree, the filters and the request: resource code runs at most once per request, and
when it runs it is the method the request was routed to — "that one and no other". -/
theorem c05_exactly_one (C : Consts) (V : String → Bool) (h : Handler) (req : Req) :
    ((serveSegs C V h req).events.map Event.tag).count Tag.inv ≤ 1 ∧
    ∀ f' s, Event.invoke f' s ∈ (serveSegs C V h req).events → route C V h.roots req = .routed f' := by
  cases hr : route C V h.roots req with
  | reject st =>
    have := serveSegs_unrouted C V h req st hr
    simp [this.1]
  | routed f =>
    obtain ⟨o, e, hx⟩ := (route_routed_iff C V h.roots req f).mp hr
    obtain ⟨k, m, mid, _, _, ht, hmid, _, _, hf, _⟩ := serveSegs_routed_shape C V h req f o e hx
    constructor
    · rw [ht, List.count_append, List.count_append, count_inv_pre, count_inv_post]
      rcases hmid with rfl | ⟨s, rfl⟩ <;> simp [Event.tag]
    · intro f' s hmem
      have := hf _ hmem
      simp only [Event.facts?, reduceCtorEq, Option.some.injEq, false_or] at this
      rw [this]

/-- …and exactly once when nothing stands in the way: the request is routed, no filter refuses it,
and keys, parameters and body decode. -/
theorem c05_exactly_one_served (C : Consts) (V : String → Bool) (h : Handler) (req : Req) (f : Facts) (o e : Bool)
    (hx : routeX C V h.roots req = .routed f o e) (hfilters : h.filters.any refusesBefore = false)
    (hreach : reaches f o e req = true) :
    ((serveSegs C V h req).events.map Event.tag).count Tag.inv = 1 := by
  obtain ⟨k, m, mid, _, _, ht, hmid, _, _, _, hhappy⟩ := serveSegs_routed_shape C V h req f o e hx
  have hne := ((hhappy hfilters).2 hreach).1
  rw [ht, List.count_append, List.count_append, count_inv_pre, count_inv_post]
  rcases hmid with rfl | ⟨s, rfl⟩
  · exact absurd rfl hne
  · simp [Event.tag]

/-! ## requests that are not routed -/

/-- Every request that is not routed — specified by the text or not — receives a 4xx response (404
or 400) and touches neither filters nor resource code. -/
theorem c05_unrouted_is_4xx_and_untouched (C : Consts) (hC : Tied C) (V : String → Bool) (h : Handler)
    (req : Req) (st : Nat) (hr : route C V h.roots req = .reject st) :
    (serveSegs C V h req).events = [] ∧ (serveSegs C V h req).status = st ∧ (st = 404 ∨ st = 400) :=
  ⟨(serveSegs_unrouted C V h req st hr).1, (serveSegs_unrouted C V h req st hr).2,
   reject_4xx C hC V h.roots req st hr⟩

/-- 404 exactly for unknown resources and sub-resources, 400 otherwise — on every request that does
not combine a malformed path segment with an unknown resource (the text gives no order there). -/
theorem c05_unrouted_404_iff_unknown (C : Consts) (hC : Tied C) (V : String → Bool) (h : Handler)
    (req : Req) (st : Nat) (hs : malformedAndUnknown V h.roots req = false)
    (hr : route C V h.roots req = .reject st) :
    st = if (locate h.roots req.path).isNone then 404 else 400 :=
  reject_status C hC V h.roots req st hs hr

/-! ## filters -/

/-- For a routed request the filters' `PreRequest` run first, in registration order and without
gaps (`pre 0, pre 1, …`), then — only if all of them let the request through and keys, parameters
and body decode — the method, then — only if it succeeded — the filters' `PostRequest` in reverse
registration order (`post n-1, post n-2, …`). -/
theorem c05_filters_order (C : Consts) (V : String → Bool) (h : Handler) (req : Req) (f : Facts) (o e : Bool)
    (hx : routeX C V h.roots req = .routed f o e) :
    ∃ (k m : Nat) (mid : List Event), k ≤ h.filters.length ∧ m ≤ h.filters.length ∧
      (serveSegs C V h req).events.map Event.tag =
        (List.range k).map Tag.pre ++ mid.map Event.tag ++ ((List.range h.filters.length).reverse.take m).map Tag.post ∧
      (mid = [] ∨ ∃ s, mid = [.invoke f s]) ∧
      (mid ≠ [] → k = h.filters.length ∧ reaches f o e req = true) ∧
      (m ≠ 0 → mid ≠ [] ∧ req.implOk = true) := by
  obtain ⟨k, m, mid, hk, hm, ht, hmid, h1, h2, _, _⟩ := serveSegs_routed_shape C V h req f o e hx
  exact ⟨k, m, mid, hk, hm, ht, hmid, h1, h2⟩

/-- When no filter refuses, the request decodes and the method succeeds, that is the whole story:
every filter before, the method, every filter after in reverse order. -/
theorem c05_filters_order_served (C : Consts) (V : String → Bool) (h : Handler) (req : Req) (f : Facts) (o e : Bool)
    (hx : routeX C V h.roots req = .routed f o e)
    (hpre : h.filters.any refusesBefore = false) (hpost : h.filters.any (· == .failPost) = false)
    (hreach : reaches f o e req = true) (himpl : req.implOk = true) :
    (serveSegs C V h req).events.map Event.tag =
      (List.range h.filters.length).map Tag.pre ++ [Tag.inv] ++ (List.range h.filters.length).reverse.map Tag.post := by
  obtain ⟨k, m, mid, _, _, ht, hmid, _, _, _, hhappy⟩ := serveSegs_routed_shape C V h req f o e hx
  obtain ⟨hk, hrest⟩ := hhappy hpre
  obtain ⟨hne, hm⟩ := hrest hreach
  have hm' := hm himpl hpost
  rcases hmid with rfl | ⟨s, rfl⟩
  · exact absurd rfl hne
  · rw [ht, hk, hm']
    simp only [List.map_cons, List.map_nil, Event.tag, List.map_reverse, List.append_assoc]
    rw [List.take_of_length_le (by simp)]
    simp

/-- Filters and the method see exactly the routed facts: every `PreRequest` and the resource method
find in the context the method, resource path, entity keys and finder / action name the request was
routed with — and nothing is shown to anyone when the request is not routed. -/
theorem c05_filters_see_routed_facts (C : Consts) (V : String → Bool) (h : Handler) (req : Req) :
    ∀ ev ∈ (serveSegs C V h req).events, ∀ f', ev.facts? = some f' → route C V h.roots req = .routed f' := by
  intro ev hev f' hf'
  cases hr : route C V h.roots req with
  | reject st =>
    have := (serveSegs_unrouted C V h req st hr).1
    rw [this] at hev; cases hev
  | routed f =>
    obtain ⟨o, e, hx⟩ := (route_routed_iff C V h.roots req f).mp hr
    obtain ⟨_, _, _, _, _, _, _, _, _, hf, _⟩ := serveSegs_routed_shape C V h req f o e hx
    rcases hf ev hev with hnone | hsome
    · rw [hnone] at hf'; cases hf'
    · rw [hsome] at hf'; cases hf'; rfl

/-! ## mounting -/

/-- Bare handler: a request whose escaped path is `/` + the segments joined by `/` is served as the
routing model says for those segments. -/
theorem c05_mounting_invariant_bare (C : Consts) (V : String → Bool) (h : Handler) (req : Req) (urlPath : String)
    (hp : h.pfx = "/") (hne : req.path ≠ []) (hns : req.path.all noSlash = true) :
    serveHTTP C V h ⟨String.ofList ('/' :: joinSlash req.path), urlPath, req⟩ = serveSegs C V h req :=
  serveHTTP_bare C V h req urlPath hp hne hns

/-- Path prefix: a server built with `NewPrefixedServer(p)` answers a request under the (normalised)
prefix exactly as the plain server answers the request without it — whatever the prefix, the
filters and the registrations. -/
theorem c05_mounting_invariant_prefix (C : Consts) (hlit : C.prefixIsLiteral = false)
    (V : String → Bool) (p : String) (fs : List FilterKind) (regs : List (List Seg × Reg)) (req : Req) (urlPath : String)
    (hne : req.path ≠ []) (hns : req.path.all noSlash = true) :
    serveHTTP C V (registerAll (newPrefixedServer C p fs) regs).handler
        ⟨String.ofList ((normalisePrefix p).toList ++ joinSlash req.path), urlPath, req⟩ =
      serveSegs C V (registerAll (newServer C fs) regs).handler req := by
  have hpfx : (newPrefixedServer C p fs).pfx = normalisePrefix p := by simp [newPrefixedServer, hlit]
  rw [prefixed_handler, hpfx]
  have h1 := serveHTTP_under_prefix C V { (registerAll (newServer C fs) regs).handler with pfx := normalisePrefix p }
    req urlPath hne hns
  exact h1

/-- ServeMux: mounted through `AddToMux` (exact and subtree pattern per root resource), the server
answers every request without empty or dot segments as the bare handler does. -/
theorem c05_mounting_invariant_mux (C : Consts) (ht : C.muxPatterns = [false, true])
    (V : String → Bool) (s : Server) (req : Req)
    (hp : s.pfx = "/") (hne : req.path ≠ []) (hns : req.path.all noSlash = true)
    (hseg : ∀ x ∈ req.path, x ≠ "" ∧ x ≠ "." ∧ x ≠ "..") :
    ((addToMux C s).serve C V ⟨String.ofList ('/' :: joinSlash req.path), String.ofList ('/' :: joinSlash req.path), req⟩).outcome =
      some (serveSegs C V s.handler req) :=
  mux_all C V s req hp ht hne hns hseg

/-- (was F6) `NewPrefixedServer("/api")` with a collection `coll`: `GET /api/coll/1` is served, `GET /coll/1` is not. -/
theorem c05_prefix_witness :
    (serveHTTP constsV2 validateRor2Input
      (registerAll (newPrefixedServer constsV2 "/api" []) [([("coll", true)], .method .get)]).handler
      ⟨"/api/coll/1", "/api/coll/1", witnessReq .GET none [] []⟩).status = 200 ∧
    (serveHTTP constsV2 validateRor2Input
      (registerAll (newPrefixedServer constsV2 "/api" []) [([("coll", true)], .method .get)]).handler
      ⟨"/coll/1", "/coll/1", witnessReq .GET none [] []⟩).status = 404 := by
  decide +kernel

/-- (was MUX) a collection `coll` mounted through `AddToMux`: `GET /coll/1` reaches the handler. -/
theorem c05_mux_witness :
    (((addToMux constsV2 (registerAll (newServer constsV2 []) [([("coll", true)], .method .get)])).serve constsV2
      validateRor2Input ⟨"/coll/1", "/coll/1", witnessReq .GET none [] []⟩).outcome.map Outcome.status) = some 200 := by
  decide +kernel

/-! ## `Handler()` is a snapshot -/

/-- the handler serves the tree as it was when `Handler()` was called -/
theorem c05_handler_is_snapshot (s : Server) : s.handler.roots = s.roots := handler_roots s

/-- Resources registered after a handler was obtained do not affect that handler: whatever is
registered on the server afterwards, the handler obtained before answers every request as it did.
(In this value model a handler cannot change by construction; that the Go `clone` shares no map
with the server is what the harness checks on the real objects.) -/
theorem c05_late_registration_invisible (C : Consts) (V : String → Bool) (s : Server)
    (late : List (List Seg × Reg)) (req : Req) :
    let h := s.handler
    let _s' := registerAll s late
    serveSegs C V h req = serveSegs C V s.handler req ∧ h.roots = s.roots :=
  ⟨rfl, handler_roots s⟩

/-! ## non-vacuity -/

example : nodesOk witnessTree = true := by decide
/-- GET /coll/1 is routed to `get` with key `1` -/
example : route constsV2 validateRor2Input witnessTree (witnessReq .GET none ["coll", "1"] []) =
    .routed ⟨.get, [("coll", true)], ["1"], none, none⟩ := by decide
example : Guards witnessTree (witnessReq .GET none ["coll", "1"] []) := by decide
example : specified validateRor2Input witnessTree (witnessReq .GET none ["coll", "1"] []) = true := by decide
/-- GET /coll?q=byName is routed to the finder, the sub-resource is reached through the key -/
example : route constsV2 validateRor2Input witnessTree (witnessReq .GET none ["coll"] [("q", "byName")]) =
    .routed ⟨.finder, [("coll", true)], [], some "byName", none⟩ := by decide
example : route constsRoot validateRor2Input witnessTree (witnessReq .GET none ["coll", "7", "sub"] []) =
    .routed ⟨.get, [("coll", true), ("sub", false)], ["7"], none, none⟩ := by decide
/-- POST without the header is refused with 400, an unknown sub-resource with 404 -/
example : route constsV2 validateRor2Input witnessTree (witnessReq .POST none ["coll"] []) = .reject 400 := by decide
example : route constsV2 validateRor2Input witnessTree (witnessReq .GET none ["coll", "7", "nosuch"] []) = .reject 404 := by decide
/-- two filters, the second adding a context value: pre 0, pre 1, the method, post 1, post 0 -/
example : (serveSegs constsV2 validateRor2Input ⟨"/", [.pass, .ctx], witnessTree⟩
    (witnessReq .GET none ["coll", "1"] [])).events.map Event.tag =
    [.pre 0, .pre 1, .inv, .post 1, .post 0] := by decide
/-- a refusing filter ends the request before the method -/
example : (serveSegs constsV2 validateRor2Input ⟨"/", [.pass, .failPre, .ctx], witnessTree⟩
    (witnessReq .GET none ["coll", "1"] [])).events.map Event.tag = [.pre 0, .pre 1] := by decide
/-- the guards of the mounting theorems are satisfiable -/
example : constsV2.prefixIsLiteral = false ∧ constsRoot.prefixIsLiteral = false := by decide
example : constsV2.muxPatterns = [false, true] ∧ constsRoot.muxPatterns = [false, true] := by decide
example : normalisePrefix "/api" = "/api/" := by decide

end Restli.Routing
