import Restli.Proofs.Routing
/-! # C05 — routing and Rest.li method inference send each request to exactly one method

Property theorems only (helper lemmas: `Proofs/Routing.lean`). The model is `Model/Routing.lean`
(`ServeHTTP`, `receive`, `Register*`, `Handler()`, `AddToMux` as written), the specification is
`Spec/Routing.lean` (a decision table written from the property text). Every statement is for all
resource trees (any nesting, any names, any method / finder / action subsets), all requests and all
validators `V` of keys and query values; `C` ranges over the constants of either module generation,
regenerated from source, and `Tied C` says that they are what the specification demands
(`c05_constants_tied_v2`, `c05_constants_tied_root`).

Where the code on the unchanged tree violates the property, the full statement is kept as a named
proposition, the theorem that holds is published as `…_partial` with the guard as a decidable
predicate, and the negation of the full statement is proved on a concrete witness. Findings:

* F7   a malformed query value is answered 500 (plain text), not 400          — guard `queryValid`
* F20  a malformed entity key on a registered collection is answered 404      — guard `keysValid`
* ACT  entity-key presence is not checked for actions                          — guard `actionLevelMatches`
* F6   `NewPrefixedServer` discards its prefix                                 — guard `normalisePrefix p = "/"`
* MUX  `AddToMux` registers exact patterns: only `/root` reaches the handler   — guard: one path segment
* F5   the path is split after percent-decoding when it is canonically escaped — outside this model's
       request type (`RawReq` carries what `net/http` delivers); witnessed by the harness -/
namespace Restli.Routing
open Spec

/-- The regenerated constants of the v2 module (header name, the thirteen method names, reserved
parameter names, statuses of the not-routed branches) are the ones the specification is written with. -/
theorem c05_constants_tied_v2 : Tied constsV2 := tied_v2

/-- The same for the root module. -/
theorem c05_constants_tied_root : Tied constsRoot := tied_root

/-! ## the model's decision is the specification's -/

/-- the three guards forced by findings F7, F20 and ACT -/
def Guards (V : String → Bool) (roots : List Node) (req : Req) : Prop :=
  queryValid V req = true ∧ keysValid V req = true ∧ actionLevelMatches roots req = true

instance (V : String → Bool) (roots : List Node) (req : Req) : Decidable (Guards V roots req) := by
  unfold Guards; infer_instance

/-- **Full statement** (false today, see the three `…_cex` theorems): on every request whose outcome
the property text determines, the routing decision of the code is the one of the decision table. -/
def RouteEqSpec (C : Consts) : Prop :=
  ∀ (V : String → Bool) (roots : List Node) (req : Req), nodesOk roots = true →
    specified roots req = true → route C V roots req = Spec.decide V roots req

/-- For every tree `Register*` can build, every validator and every request the text determines —
outside the three findings — the code routes the request to the method the decision table names, or
refuses it with the status the table names. -/
theorem c05_route_eq_spec_partial (C : Consts) (hC : Tied C) (V : String → Bool) (roots : List Node) (req : Req)
    (hroots : nodesOk roots = true) (hg : Guards V roots req) (hs : specified roots req = true) :
    route C V roots req = Spec.decide V roots req := by
  simp only [specified, Bool.and_eq_true, Bool.not_eq_eq_eq_not, Bool.not_true] at hs
  obtain ⟨⟨⟨⟨h1, _⟩, h3⟩, h4⟩, h5⟩ := hs
  refine route_eq_decide C hC V roots req hroots hg.1 hg.2.1 hg.2.2 h1 h3 h4 ?_
  intro t ht
  simp only [ht, Bool.and_eq_true, Bool.not_eq_eq_eq_not, Bool.not_true] at h5
  exact ⟨h5.1.1.2, h5.1.2⟩

/-- The agreement needs fewer exclusions than the text leaves open: a header that contradicts the
verb, an empty path segment and `q` together with `ids` are decided by the code exactly as the
table's uniform reading decides them (the header names the method; an empty segment is a segment;
`q` is looked at before `ids`). -/
theorem c05_route_eq_spec_wider (C : Consts) (hC : Tied C) (V : String → Bool) (roots : List Node) (req : Req)
    (hroots : nodesOk roots = true) (hg : Guards V roots req)
    (h1 : unknownHeaderValue req = false) (h2 : emptyReservedValue req = false) (h3 : duplicateReserved req = false)
    (h4 : ∀ t, locate roots req.path = some t → otherVerbWithHeaderOnSimple t req = false ∧ keyAndIds t req = false) :
    route C V roots req = Spec.decide V roots req :=
  route_eq_decide C hC V roots req hroots hg.1 hg.2.1 hg.2.2 h1 h2 h3 h4

/-! witnesses -/

/-- a collection with an entity-level and a resource-level action, a finder and a simple sub-resource -/
def witnessTree : List Node :=
  [.mk "coll" true [.get, .get_all, .create] ["byName"] [("resAct", false), ("entAct", true)]
     [.mk "sub" false [.get] [] [] []]]

def witnessReq (verb : Verb) (hdr : Option String) (path : List String) (query : List (String × String)) : Req :=
  { verb := verb, headers := hdr.toList.map (fun h => ("X-RestLi-Method", h)), path := path, query := query,
    decodes := Method.all, implOk := true }

/-- (F7) `GET /coll/1?foo=)`: the code answers 500, the table says 400. -/
theorem c05_route_eq_spec_cex_malformed_query : ¬ RouteEqSpec constsV2 := by
  intro h
  have := h validateRor2Input witnessTree (witnessReq .GET none ["coll", "1"] [("foo", ")")]) (by decide) (by decide)
  revert this; decide

/-- (F20) `GET /coll/)`: the code answers 404 although `/coll` is registered; the table says 400.
The other two guards hold on this request, so the guard `keysValid` cannot be dropped. -/
theorem c05_route_eq_spec_cex_malformed_key :
    ¬ (∀ (V : String → Bool) (roots : List Node) (req : Req), nodesOk roots = true → specified roots req = true →
        queryValid V req = true → actionLevelMatches roots req = true →
        route constsV2 V roots req = Spec.decide V roots req) := by
  intro h
  have := h validateRor2Input witnessTree (witnessReq .GET none ["coll", ")"] []) (by decide) (by decide)
    (by decide) (by decide)
  revert this; decide

/-- (ACT) `POST /coll/1?action=resAct` with `X-RestLi-Method: action`: a resource-level action called
with an entity key is routed by the code; the table refuses it with 400. The other two guards hold. -/
theorem c05_route_eq_spec_cex_action_level :
    ¬ (∀ (V : String → Bool) (roots : List Node) (req : Req), nodesOk roots = true → specified roots req = true →
        queryValid V req = true → keysValid V req = true →
        route constsV2 V roots req = Spec.decide V roots req) := by
  intro h
  have := h validateRor2Input witnessTree (witnessReq .POST (some "action") ["coll", "1"] [("action", "resAct")])
    (by decide) (by decide) (by decide) (by decide)
  revert this; decide

/-- "A request is routed to a resource method if and only if its path names a registered resource
(walking parent keys and sub-resources), its Rest.li method is registered on that resource, and the
presence of an entity key matches what that method requires" — `Routable` spells the right-hand
side out (`Spec/Routing.lean`); the facts handed to filters and method are the ones it names. -/
theorem c05_routed_iff (C : Consts) (hC : Tied C) (V : String → Bool) (roots : List Node) (req : Req) (f : Facts)
    (hroots : nodesOk roots = true) (hg : Guards V roots req) (hs : specified roots req = true) :
    route C V roots req = .routed f ↔ Routable V roots req f := by
  rw [c05_route_eq_spec_partial C hC V roots req hroots hg hs, decide_routed_iff]

/-! ## exactly one method -/

/-- Whatever the tree, the filters and the request: resource code runs at most once per request, and
when it runs it is the method the request was routed to — "that one and no other". -/
theorem c05_exactly_one (C : Consts) (V : String → Bool) (h : Handler) (req : Req) :
    ((serveSegs C V h req).events.map Event.tag).count Tag.inv ≤ 1 ∧
    ∀ f' s, Event.invoke f' s ∈ (serveSegs C V h req).events → route C V h.roots req = .routed f' := by
  cases hr : route C V h.roots req with
  | reject st =>
    have := serveSegs_unrouted C V h req st hr
    simp [this.1]
  | routed f =>
    obtain ⟨o, e, hx⟩ := (route_routed_iff C V h.roots req f).mp hr
    obtain ⟨k, m, mid, _, _, ht, hmid, _, _, hf, _⟩ := serveSegs_routed_shape C V h req f o e hx
    constructor
    · rw [ht, List.count_append, List.count_append, count_inv_pre, count_inv_post]
      rcases hmid with rfl | ⟨s, rfl⟩ <;> simp [Event.tag]
    · intro f' s hmem
      have := hf _ hmem
      simp only [Event.facts?, reduceCtorEq, Option.some.injEq, false_or] at this
      rw [this]

/-- …and exactly once when nothing stands in the way: the request is routed, no filter refuses it,
and keys, parameters and body decode. -/
theorem c05_exactly_one_served (C : Consts) (V : String → Bool) (h : Handler) (req : Req) (f : Facts) (o e : Bool)
    (hx : routeX C V h.roots req = .routed f o e) (hfilters : h.filters.any refusesBefore = false)
    (hreach : reaches f o e req = true) :
    ((serveSegs C V h req).events.map Event.tag).count Tag.inv = 1 := by
  obtain ⟨k, m, mid, _, _, ht, hmid, _, _, _, hhappy⟩ := serveSegs_routed_shape C V h req f o e hx
  have hne := ((hhappy hfilters).2 hreach).1
  rw [ht, List.count_append, List.count_append, count_inv_pre, count_inv_post]
  rcases hmid with rfl | ⟨s, rfl⟩
  · exact absurd rfl hne
  · simp [Event.tag]

/-! ## requests that are not routed -/

/-- **Full statement** (false today: F7, F20): a request that is not routed gets 404 when its path
names no registered resource and 400 otherwise, and touches neither filters nor resource code. -/
def UnroutedIs4xx (C : Consts) : Prop :=
  ∀ (V : String → Bool) (h : Handler) (req : Req) (st : Nat), route C V h.roots req = .reject st →
    (serveSegs C V h req).events = [] ∧ (serveSegs C V h req).status = st ∧
    st = if (locate h.roots req.path).isNone then 404 else 400

/-- Outside F7 and F20: every request that is not routed — specified by the text or not — is
answered 404 exactly when its path names no registered resource or sub-resource and 400 otherwise.
No filter and no resource code runs (this half needs no guard at all). -/
theorem c05_unrouted_is_4xx_and_untouched_partial (C : Consts) (hC : Tied C) (V : String → Bool) (h : Handler)
    (req : Req) (st : Nat) (hqv : queryValid V req = true) (hkv : keysValid V req = true)
    (hr : route C V h.roots req = .reject st) :
    (serveSegs C V h req).events = [] ∧ (serveSegs C V h req).status = st ∧
    st = if (locate h.roots req.path).isNone then 404 else 400 :=
  ⟨(serveSegs_unrouted C V h req st hr).1, (serveSegs_unrouted C V h req st hr).2,
   reject_status C hC V h.roots req st hqv hkv hr⟩

/-- No guard is needed for "without touching resource code or filters". -/
theorem c05_unrouted_untouched (C : Consts) (V : String → Bool) (h : Handler) (req : Req) (st : Nat)
    (hr : route C V h.roots req = .reject st) :
    (serveSegs C V h req).events = [] ∧ (serveSegs C V h req).status = st :=
  serveSegs_unrouted C V h req st hr

/-- (F7) `GET /coll/1?foo=)` is answered 500. -/
theorem c05_unrouted_is_4xx_cex_malformed_query : ¬ UnroutedIs4xx constsV2 := by
  intro h
  have := h validateRor2Input ⟨"/", [], witnessTree⟩ (witnessReq .GET none ["coll", "1"] [("foo", ")")]) 500 (by decide)
  revert this; decide

/-- (F20) `GET /coll/)` is answered 404 although `/coll` is a registered resource. -/
theorem c05_unrouted_is_4xx_cex_malformed_key :
    ¬ (∀ (V : String → Bool) (h : Handler) (req : Req) (st : Nat), queryValid V req = true →
        route constsV2 V h.roots req = .reject st →
        st = if (locate h.roots req.path).isNone then 404 else 400) := by
  intro h
  have := h validateRor2Input ⟨"/", [], witnessTree⟩ (witnessReq .GET none ["coll", ")"] []) 404 (by decide) (by decide)
  revert this; decide

/-! ## filters -/

/-- For a routed request the filters' `PreRequest` run first, in registration order and without
gaps (`pre 0, pre 1, …`), then — only if all of them let the request through and keys, parameters
and body decode — the method, then — only if it succeeded — the filters' `PostRequest` in reverse
registration order (`post n-1, post n-2, …`). -/
theorem c05_filters_order (C : Consts) (V : String → Bool) (h : Handler) (req : Req) (f : Facts) (o e : Bool)
    (hx : routeX C V h.roots req = .routed f o e) :
    ∃ (k m : Nat) (mid : List Event), k ≤ h.filters.length ∧ m ≤ h.filters.length ∧
      (serveSegs C V h req).events.map Event.tag =
        (List.range k).map Tag.pre ++ mid.map Event.tag ++ ((List.range h.filters.length).reverse.take m).map Tag.post ∧
      (mid = [] ∨ ∃ s, mid = [.invoke f s]) ∧
      (mid ≠ [] → k = h.filters.length ∧ reaches f o e req = true) ∧
      (m ≠ 0 → mid ≠ [] ∧ req.implOk = true) := by
  obtain ⟨k, m, mid, hk, hm, ht, hmid, h1, h2, _, _⟩ := serveSegs_routed_shape C V h req f o e hx
  exact ⟨k, m, mid, hk, hm, ht, hmid, h1, h2⟩

/-- When no filter refuses, the request decodes and the method succeeds, that is the whole story:
every filter before, the method, every filter after in reverse order. -/
theorem c05_filters_order_served (C : Consts) (V : String → Bool) (h : Handler) (req : Req) (f : Facts) (o e : Bool)
    (hx : routeX C V h.roots req = .routed f o e)
    (hpre : h.filters.any refusesBefore = false) (hpost : h.filters.any (· == .failPost) = false)
    (hreach : reaches f o e req = true) (himpl : req.implOk = true) :
    (serveSegs C V h req).events.map Event.tag =
      (List.range h.filters.length).map Tag.pre ++ [Tag.inv] ++ (List.range h.filters.length).reverse.map Tag.post := by
  obtain ⟨k, m, mid, _, _, ht, hmid, _, _, _, hhappy⟩ := serveSegs_routed_shape C V h req f o e hx
  obtain ⟨hk, hrest⟩ := hhappy hpre
  obtain ⟨hne, hm⟩ := hrest hreach
  have hm' := hm himpl hpost
  rcases hmid with rfl | ⟨s, rfl⟩
  · exact absurd rfl hne
  · rw [ht, hk, hm']
    simp only [List.map_cons, List.map_nil, Event.tag, List.map_reverse, List.append_assoc]
    rw [List.take_of_length_le (by simp)]
    simp

/-- Filters and the method see exactly the routed facts: every `PreRequest` and the resource method
find in the context the method, resource path, entity keys and finder / action name the request was
routed with — and nothing is shown to anyone when the request is not routed. -/
theorem c05_filters_see_routed_facts (C : Consts) (V : String → Bool) (h : Handler) (req : Req) :
    ∀ ev ∈ (serveSegs C V h req).events, ∀ f', ev.facts? = some f' → route C V h.roots req = .routed f' := by
  intro ev hev f' hf'
  cases hr : route C V h.roots req with
  | reject st =>
    have := (serveSegs_unrouted C V h req st hr).1
    rw [this] at hev; cases hev
  | routed f =>
    obtain ⟨o, e, hx⟩ := (route_routed_iff C V h.roots req f).mp hr
    obtain ⟨_, _, _, _, _, _, _, _, _, hf, _⟩ := serveSegs_routed_shape C V h req f o e hx
    rcases hf ev hev with hnone | hsome
    · rw [hnone] at hf'; cases hf'
    · rw [hsome] at hf'; cases hf'; rfl

/-! ## mounting -/

/-- Bare handler: a request whose URL path is `/` + the segments joined by `/` (delivered in
`URL.Path`, `RawPath` empty) is served as the routing model says for those segments. -/
theorem c05_mounting_invariant_bare (C : Consts) (V : String → Bool) (h : Handler) (req : Req)
    (hp : h.pfx = "/") (hne : req.path ≠ []) (hns : req.path.all noSlash = true) :
    serveHTTP C V h ⟨"", String.ofList ('/' :: joinSlash req.path), req⟩ = serveSegs C V h req :=
  serveHTTP_bare C V h req hp hne hns

/-- **Full statement** (false today: F6): a server built with a path prefix answers a request under
the prefix as the plain server answers the request without it. -/
def MountPrefixOk (C : Consts) : Prop :=
  ∀ (V : String → Bool) (p : String) (fs : List FilterKind) (regs : List (List Seg × Reg)) (req : Req),
    req.path ≠ [] → req.path.all noSlash = true →
    serveHTTP C V (registerAll (newPrefixedServer C p fs) regs).handler
        ⟨"", String.ofList ((normalisePrefix p).toList ++ joinSlash req.path), req⟩ =
      serveSegs C V (registerAll (newServer C fs) regs).handler req

/-- It holds for the prefixes that normalise to `/` (that is: `NewServer`, `NewPrefixedServer("")`,
`NewPrefixedServer("/")`). -/
theorem c05_mounting_invariant_prefix_partial (C : Consts) (hlit : C.prefixIsLiteral = true → C.prefixLiteral = "/")
    (V : String → Bool) (p : String) (fs : List FilterKind) (regs : List (List Seg × Reg)) (req : Req)
    (hnorm : normalisePrefix p = "/") (hne : req.path ≠ []) (hns : req.path.all noSlash = true) :
    serveHTTP C V (registerAll (newPrefixedServer C p fs) regs).handler
        ⟨"", String.ofList ((normalisePrefix p).toList ++ joinSlash req.path), req⟩ =
      serveSegs C V (registerAll (newServer C fs) regs).handler req := by
  have hpfx : ∀ q, normalisePrefix q = "/" → (newPrefixedServer C q fs).pfx = "/" := by
    intro q hq
    simp only [newPrefixedServer]
    split
    · exact hlit (by assumption)
    · exact hq
  rw [prefixed_handler, hnorm, slash_toList]
  have h1 := serveHTTP_bare C V { (registerAll (newServer C fs) regs).handler with pfx := (newPrefixedServer C p fs).pfx }
    req (hpfx p hnorm) hne hns
  have h2 : ∀ (h : Handler) (q : String), serveSegs C V { h with pfx := q } req = serveSegs C V h req := by
    intro h q; rfl
  rw [h2] at h1
  exact h1

/-- (F6) `NewPrefixedServer("/api")` with a collection `coll`: `GET /api/coll/1` is answered 404. -/
theorem c05_mounting_prefix_cex : ¬ MountPrefixOk constsV2 := by
  intro h
  have := h validateRor2Input "/api" [] [([("coll", true)], .method .get)]
    (witnessReq .GET none ["coll", "1"] []) (by decide) (by decide)
  have hs := congrArg Outcome.status this
  revert hs; decide +kernel

/-- **Full statement** (false today: MUX): mounted through `AddToMux`, the server answers every
request as the bare handler does. -/
def MountMuxOk (C : Consts) : Prop :=
  ∀ (V : String → Bool) (s : Server) (req : Req), s.pfx = "/" → req.path ≠ [] → req.path.all noSlash = true →
    (∀ x ∈ req.path, x ≠ "" ∧ x ≠ "." ∧ x ≠ "..") →
    ((addToMux C s).serve C V ⟨"", String.ofList ('/' :: joinSlash req.path), req⟩).outcome =
      some (serveSegs C V s.handler req)

/-- It holds for requests that name a root resource and nothing more (one path segment). -/
theorem c05_mounting_invariant_mux_partial (C : Consts) (ht : C.muxPatternTrailingSlash = false)
    (V : String → Bool) (s : Server) (r : String) (req : Req)
    (hp : s.pfx = "/") (hpath : req.path = [r]) (hr : noSlash r = true) (hdot : r ≠ "." ∧ r ≠ "..") :
    ((addToMux C s).serve C V ⟨"", String.ofList ('/' :: joinSlash req.path), req⟩).outcome =
      some (serveSegs C V s.handler req) := by
  have : joinSlash req.path = r.toList := by simp [hpath, joinSlash]
  rw [this]
  exact mux_single C V s r req hp ht hpath hr hdot

/-- (MUX) a collection `coll` mounted through `AddToMux`: `GET /coll/1` gets ServeMux's own 404. -/
theorem c05_mounting_mux_cex : ¬ MountMuxOk constsV2 := by
  intro h
  have := h validateRor2Input (registerAll (newServer constsV2 []) [([("coll", true)], .method .get)])
    (witnessReq .GET none ["coll", "1"] []) (by decide) (by decide) (by decide) (by decide)
  have hs := congrArg (fun o => o.map Outcome.status) this
  revert hs; decide +kernel

/-! ## `Handler()` is a snapshot -/

/-- the handler serves the tree as it was when `Handler()` was called -/
theorem c05_handler_is_snapshot (s : Server) : s.handler.roots = s.roots := handler_roots s

/-- Resources registered after a handler was obtained do not affect that handler: whatever is
registered on the server afterwards, the handler obtained before answers every request as it did.
(In this value model a handler cannot change by construction; that the Go `clone` shares no map
with the server is what the harness checks on the real objects.) -/
theorem c05_late_registration_invisible (C : Consts) (V : String → Bool) (s : Server)
    (late : List (List Seg × Reg)) (req : Req) :
    let h := s.handler
    let _s' := registerAll s late
    serveSegs C V h req = serveSegs C V s.handler req ∧ h.roots = s.roots :=
  ⟨rfl, handler_roots s⟩

/-! ## non-vacuity -/

example : nodesOk witnessTree = true := by decide
/-- GET /coll/1 is routed to `get` with key `1` -/
example : route constsV2 validateRor2Input witnessTree (witnessReq .GET none ["coll", "1"] []) =
    .routed ⟨.get, [("coll", true)], ["1"], none, none⟩ := by decide
example : Guards validateRor2Input witnessTree (witnessReq .GET none ["coll", "1"] []) := by decide
example : specified witnessTree (witnessReq .GET none ["coll", "1"] []) = true := by decide
/-- GET /coll?q=byName is routed to the finder, the sub-resource is reached through the key -/
example : route constsV2 validateRor2Input witnessTree (witnessReq .GET none ["coll"] [("q", "byName")]) =
    .routed ⟨.finder, [("coll", true)], [], some "byName", none⟩ := by decide
example : route constsRoot validateRor2Input witnessTree (witnessReq .GET none ["coll", "7", "sub"] []) =
    .routed ⟨.get, [("coll", true), ("sub", false)], ["7"], none, none⟩ := by decide
/-- POST without the header is refused with 400, an unknown sub-resource with 404 -/
example : route constsV2 validateRor2Input witnessTree (witnessReq .POST none ["coll"] []) = .reject 400 := by decide
example : route constsV2 validateRor2Input witnessTree (witnessReq .GET none ["coll", "7", "nosuch"] []) = .reject 404 := by decide
/-- two filters, the second adding a context value: pre 0, pre 1, the method, post 1, post 0 -/
example : (serveSegs constsV2 validateRor2Input ⟨"/", [.pass, .ctx], witnessTree⟩
    (witnessReq .GET none ["coll", "1"] [])).events.map Event.tag =
    [.pre 0, .pre 1, .inv, .post 1, .post 0] := by decide
/-- a refusing filter ends the request before the method -/
example : (serveSegs constsV2 validateRor2Input ⟨"/", [.pass, .failPre, .ctx], witnessTree⟩
    (witnessReq .GET none ["coll", "1"] [])).events.map Event.tag = [.pre 0, .pre 1] := by decide
/-- the guards of the mounting theorems are satisfiable -/
example : normalisePrefix "" = "/" := by decide
example : constsV2.muxPatternTrailingSlash = false := by decide
example : constsV2.prefixIsLiteral = true → constsV2.prefixLiteral = "/" := by decide

end Restli.Routing
