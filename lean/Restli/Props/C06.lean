import Restli.Model.TreeReader
import Restli.Proofs.NoPanic
import Restli.Proofs.MissingSpec
import Restli.Proofs.AnyReader
import Restli.Proofs.QueryParams
/-! # C06 — required-field accounting and unknown-field tolerance

Every reader finishes a record through `finishRecord` (the model of `readRecord`'s epilogue in
reader.go + missing_fields.go): the statements here are about that shared function and about the
JSON reader's member loop, for every schema and document. The document-level statement ("the
reported set equals the set of absent-or-null required fields at any depth") is decided on
every run by the harness against an independently computed set; its Lean proof over whole
documents is the next step of this file. -/
namespace Restli.Codec

theorem contains_perm (l₁ l₂ : List Bytes) (hp : l₁.Perm l₂) (r : Bytes) : l₁.contains r = l₂.contains r := by
  have := hp.mem_iff (a := r)
  cases h1 : l₁.contains r <;> cases h2 : l₂.contains r <;> simp_all [List.contains_iff_mem]

/-- the missing fields a record reports do not depend on the order in which its members
appeared in the document -/
theorem c06_missing_order_independent (tr : Tracker) (scope : List Seg) (fields : List Field)
    (seen₁ seen₂ m₀ : List Bytes) (hp : seen₁.Perm seen₂) :
    missingAfter tr scope fields seen₁ m₀ = missingAfter tr scope fields seen₂ m₀ := by
  unfold missingAfter remainingRequired
  have : (fun r => !seen₁.contains r) = (fun r => !seen₂.contains r) := by
    funext r; rw [contains_perm seen₁ seen₂ hp r]
  rw [this]

/-- exactly the required (non-optional, non-defaulted) fields that were not seen and are not
excluded are added, each under the full path of the enclosing scope; optional and defaulted
fields never are -/
theorem c06_reports_exactly_unseen_required (tr : Tracker) (scope : List Seg) (fields : List Field)
    (seen m₀ : List Bytes) (p : Bytes) :
    p ∈ (missingAfter tr scope fields seen m₀) ↔
      p ∈ m₀ ∨ ∃ f ∈ fields, f.optional = false ∧ f.dflt = none ∧ f.name ∉ seen ∧
        tr.check (scope ++ [.key f.name]) ≠ .yes ∧
        p = (let sc := scopeString scope; if sc.isEmpty then sc else sc ++ [46]) ++ f.name := by
  unfold missingAfter remainingRequired
  simp only [List.mem_append, List.mem_map, List.mem_filter, bne_iff_ne, ne_eq,
    Bool.not_eq_eq_eq_not, Bool.not_true, Field.optOrDefault, Bool.or_eq_false_iff,
    List.contains_iff_mem, decide_eq_false_iff_not]
  constructor
  · rintro (h | ⟨r, ⟨⟨⟨f, ⟨hf, ho, hd⟩, rfl⟩, hns⟩, hx⟩, rfl⟩)
    · exact Or.inl h
    · refine Or.inr ⟨f, hf, ho, ?_, ?_, hx, rfl⟩
      · cases hdd : f.dflt with
        | none => rfl
        | some d => simp [hdd] at hd
      · simpa using hns
  · rintro (h | ⟨f, hf, ho, hd, hns, hx, rfl⟩)
    · exact Or.inl h
    · exact Or.inr ⟨f.name, ⟨⟨⟨f, ⟨hf, ho, by simp [hd]⟩, rfl⟩, by simpa using hns⟩, hx⟩, rfl⟩

/-- at the top level the reader fails iff something is missing, and then with the whole list in
one error; nothing is reported when nothing is missing -/
theorem c06_top_level_single_error (env : Env) (tr : Tracker) (scope : List Seg)
    (fields own : List Field) (fs : List (Bytes × Value)) (seen m₀ : List Bytes)
    (hnp : finishPanics tr scope fields seen = false) :
    finishRecord env tr scope true fields own fs seen m₀ =
      if (missingAfter tr scope fields seen m₀).isEmpty
      then .ok (.record (populateDefaults own (fillRequired env fields fs))) []
      else .missingErr (missingAfter tr scope fields seen m₀) (.record (fillRequired env fields fs)) := by
  unfold finishRecord
  simp only [hnp, Bool.false_eq_true, ↓reduceIte, Bool.true_and]
  cases h : (missingAfter tr scope fields seen m₀).isEmpty with
  | true =>
    have : missingAfter tr scope fields seen m₀ = [] := by simpa using h
    simp [this]
  | false => simp

/-- below the top level a record never fails for missing fields: it passes them up -/
theorem c06_nested_never_fails (env : Env) (tr : Tracker) (scope : List Seg)
    (fields own : List Field) (fs : List (Bytes × Value)) (seen m₀ : List Bytes)
    (hnp : finishPanics tr scope fields seen = false) :
    finishRecord env tr scope false fields own fs seen m₀ =
      .ok (.record (populateDefaults own (fillRequired env fields fs))) (missingAfter tr scope fields seen m₀) := by
  unfold finishRecord
  simp [hnp]

/-- JSON: an unknown member of any shape is skipped without touching what was read so far or
what follows -/
theorem c06_json_unknown_member_skipped (c : TCfg) (scope : List Seg) (fields : List Field)
    (acc : List (Bytes × Value)) (seen : List Bytes) (k : Bytes) (v : Json.JVal)
    (rest : List (Bytes × Json.JVal)) (hkey : c.sem.key k = some k) (hk : findField fields k = none)
    (hx : c.tracker.check (scope ++ [.key k]) = .no) :
    treeReadEntries c scope (.record fields) acc seen ((k, v) :: rest) =
      (match v with
       | .null => treeReadEntries c scope (.record fields) acc seen rest
       | _ => treeReadEntries c scope (.record fields) acc (seen ++ [k]) rest) := by
  cases v <;> simp [treeReadEntries, treeCallbackWith, hkey, hk, hx, bindT] <;>
    (cases treeReadEntries c scope (.record fields) acc (seen ++ [k]) rest <;> simp)

/-- JSON: a null member counts as absent — it is skipped before the callback and is not "seen" -/
theorem c06_json_null_member_is_absent (c : TCfg) (scope : List Seg) (mode : MapMode)
    (acc : List (Bytes × Value)) (seen : List Bytes) (k : Bytes) (rest : List (Bytes × Json.JVal)) :
    treeReadEntries c scope mode acc seen ((k, .null) :: rest) = treeReadEntries c scope mode acc seen rest := by
  simp [treeReadEntries]

/-! non-vacuity: a nested document with one field missing at depth, read through the JSON model -/
def envN : Env :=
  [("In", .record [] [{ name := [105], ty := .prim .i32, optional := false, dflt := none },
                      { name := [110], ty := .prim .str, optional := true, dflt := none }]),
   ("Out", .record [] [{ name := [120], ty := .ref "In", optional := false, dflt := none },
                       { name := [97], ty := .arr (.ref "In"), optional := false, dflt := none }])]
def cfgN : TCfg := { env := envN, tracker := { excl := .empty, ignore := 0 } }
-- {"a":[{"i":1},{"n":"q","u":[1]}],"x":{}}  →  missing a[1].i and x.i
unseal Strconv.digitsOfNat in
example : (match treeRead cfgN true [] (.ref "Out")
      (.obj [([97], .arr [.obj [([105], .num [49])], .obj [([110], .str [113]), ([117], .arr [.num [49]])]]), ([120], .obj [])]) with
    | .err (.missing ps _) => ps | _ => []) = [[97, 91, 49, 93, 46, 105], [120, 46, 105]] := by rfl

/-! ## whole documents, any depth

`specMissing` (Proofs/MissingSpec.lean) is the specification: by recursion on the document, the
required fields each record along the way does not carry — absent, or present with a null value —
under the full scope (field names, map keys, `[i]` for array items), skipping unknown members, never
looking at a value. Nothing else about the reader (accumulators, repeated members, defaults,
zero values of missing required fields) appears in it. -/

/-- **every reader, every document, every schema**: whatever a value read below the top level
reports as missing is exactly the specification's list, in the specification's order -/
theorem c06_missing_is_exactly_the_spec (c : TCfg) (hc : SemClean c.sem) (t : Json.JVal) (scope : List Seg)
    (ty : Ty) (v : Value) (m : List Bytes) (h : treeRead c false scope ty t = .ok v m) :
    m = specMissing c scope ty t :=
  read_missing c hc t scope ty v m h

/-- … the JSON reader and the ROR2 readers are two instances (same code path after the leaves) -/
theorem c06_json_and_ror2_leaves_report_nothing (plus : Bool) : SemClean jsonSem ∧ SemClean (ror2Sem plus) :=
  ⟨jsonSem_clean, ror2Sem_clean plus⟩

/-- … and the untyped-value reader (`any_reader.go`) is a third: its leaves report nothing either,
so on every Go value what it reports as missing is the specification's list for the value's tree -/
theorem c06_untyped_reader_reports_the_spec (env : Env) (tr : Tracker) (av : AnyVal) (scope : List Seg)
    (ty : Ty) (v : Value) (m : List Bytes)
    (h : treeRead { env := env, tracker := tr, sem := anySem } false scope ty (anyToTree false av) = .ok v m) :
    m = specMissing { env := env, tracker := tr, sem := anySem } scope ty (anyToTree false av) :=
  read_missing _ anySem_clean _ scope ty v m h

/-- **top level**: when the members decode, the outcome is decided by the specification's list:
empty ⇒ the value (own defaults filled), nothing reported; non-empty ⇒ one
missing-required-fields error carrying exactly that list and the partially filled value -/
theorem c06_top_level_outcome (c : TCfg) (hc : SemClean c.sem) (n : TName) (incs : List TName) (own : List Field)
    (hfind : c.env.find n = some (.record incs own)) (kvs : List (Bytes × Json.JVal))
    (r : List (Bytes × Value) × List Bytes) (m0 : List Bytes)
    (hent : treeReadEntries c [] (.record (allFields c.env (includeFuel c.env) n)) [] [] kvs = .ok r m0) :
    treeRead c true [] (.ref n) (.obj kvs) =
      (if specMissing c [] (.ref n) (.obj kvs) = [] then
        .ok (.record (populateDefaults own (fillRequired c.env (allFields c.env (includeFuel c.env) n) r.1))) []
       else .err (.missing (specMissing c [] (.ref n) (.obj kvs))
         (.record (fillRequired c.env (allFields c.env (includeFuel c.env) n) r.1)))) :=
  read_top_record c hc n incs own hfind kvs r m0 hent

/-- **the query-parameters reader** (`QueryParamsReader.ReadRecord` driving the generated
`UnmarshalField`, one ROR2 reader per parameter) on parameters whose values are renderings of
raw-token trees and whose names need no unescaping **is the tree reader, at top level, on the object
whose members are the parameters**: the fourth reader is an instance of the same reader too -/
theorem c06_query_reader_is_the_tree_reader (env : Env) (n : TName) (incs : List TName) (own : List Field)
    (hfind : env.find n = some (.record incs own)) (ps : List (Bytes × Json.JVal))
    (hps : ∀ e ∈ ps, RawWF e.2 ∧ PlainKey e.1) :
    decodeQueryParams env n (ps.map (fun e => (e.1, renderRaw e.2))) =
      liftT (treeRead (tcOf (qpCfg env)) true [] (.ref n) (.obj ps)) qpEnd :=
  decodeQueryParams_eq_tree env n incs own hfind ps hps

/-- … hence its outcome, when the parameters decode, is the specification's: nothing missing ⇒ the
record (own defaults filled); otherwise ONE error carrying exactly the specification's list — nested
paths start with the parameter's name — and the partially filled record -/
theorem c06_query_reader_outcome (env : Env) (n : TName) (incs : List TName) (own : List Field)
    (hfind : env.find n = some (.record incs own)) (ps : List (Bytes × Json.JVal))
    (hps : ∀ e ∈ ps, RawWF e.2 ∧ PlainKey e.1)
    (r : List (Bytes × Value) × List Bytes) (m0 : List Bytes)
    (hent : treeReadEntries (tcOf (qpCfg env)) [] (.record (allFields env (includeFuel env) n)) [] [] ps = .ok r m0) :
    decodeQueryParams env n (ps.map (fun e => (e.1, renderRaw e.2))) =
      (if specMissing (tcOf (qpCfg env)) [] (.ref n) (.obj ps) = [] then
        .ok (.record (populateDefaults own (fillRequired env (allFields env (includeFuel env) n) r.1))) qpEnd
       else .err (.missing (specMissing (tcOf (qpCfg env)) [] (.ref n) (.obj ps))
         (.record (fillRequired env (allFields env (includeFuel env) n) r.1)))) := by
  rw [decodeQueryParams_eq_tree env n incs own hfind ps hps,
    read_top_record (tcOf (qpCfg env)) (ror2Sem_clean true) n incs own hfind ps r m0 hent]
  split <;> simp [liftT, qpEnd, tcOf, qpCfg]

/-- **the ROR2 cursor reader reports the same**: on the rendering of any well-formed raw-token tree,
at any position inside a document, what it adds to the missing list is the specification's list
for that tree (the bridge theorem composed with the above) -/
theorem c06_ror2_cursor_reader_reports_the_spec (rc : RCfg) (t : Json.JVal) (hw : RawWF t) (fuel : Nat)
    (scope : List Seg) (ty : Ty) (d : UInt8) (rest : Bytes) (ms : List Bytes) (hd : isDelim d = true)
    (hf : needT t ≤ fuel) (v : Value) (s' : RS)
    (h : readTy rc fuel scope ty { rest := renderRaw t ++ d :: rest, start := false, missing := ms } = .ok v s') :
    s'.missing = ms ++ specMissing (tcOf rc) scope ty t := by
  rw [bridge rc t hw fuel scope ty d rest ms hd hf] at h
  cases hr : treeRead (tcOf rc) false scope ty t with
  | ok v' m =>
    rw [hr] at h
    simp only [liftT, Res.ok.injEq] at h
    rw [← h.2, read_missing (tcOf rc) (ror2Sem_clean rc.plus) t scope ty v' m hr]
  | err e => rw [hr] at h; simp [liftT] at h
  | panic => rw [hr] at h; simp [liftT] at h
  | unmodelled => rw [hr] at h; simp [liftT] at h

/-! non-vacuity: the nested example above against the specification -/
unseal Strconv.digitsOfNat in
example : specMissing cfgN [] (.ref "Out")
    (.obj [([97], .arr [.obj [([105], .num [49])], .obj [([110], .str [113]), ([117], .arr [.num [49]])]]), ([120], .obj [])])
    = [[97, 91, 49, 93, 46, 105], [120, 46, 105]] := by rfl

end Restli.Codec
