import Restli.Model.Encode
import Restli.Model.TreeReader
import Restli.Proofs.NoPanic
import Restli.Proofs.Patch
import Restli.Proofs.PathSpecSem
/-! # C07 — read-only / create-only field exclusion (codec level)

Writer: `WriteMap` consults the exclusion spec once per key, under the scope extended by that
key, and drops the entry with its whole subtree. Reader: `enterMapScope` consults it once per
key it is about to read and fails the whole decode. Both go through `gmatches`
(= `genericMatches`). The wire-level clauses (which spec and leading scope each generated method
passes) belong to the end-to-end model.

Known deviations of the current code, each with a witness below and in the harness: a
directive whose last segment stands for *array items* is never enforced (items are not checked,
only keys), and a map key that is literally `$set`/`$delete` is skipped by the matcher. -/
namespace Restli.Codec

/-- the writer emits exactly the non-excluded keys, in visiting order: nothing else is dropped,
nothing excluded is kept (one object level; nested objects are encoded by the same function) -/
theorem c07_writer_keeps_exactly_nonexcluded (excluded : Bytes → Bool)
    (enc : Bytes → Value → Except EncErr Doc) :
    ∀ (l : List (Bytes × Value)) r, encodeKeyed excluded enc l = .ok r →
      r.map (·.1) = (l.map (·.1)).filter (fun k => !excluded k) := by
  intro l
  induction l with
  | nil => intro r h; simp [encodeKeyed] at h; subst h; rfl
  | cons x xs ih =>
    obtain ⟨k, v⟩ := x
    intro r h
    simp only [encodeKeyed, bind, Except.bind] at h
    cases hd : enc k v with
    | error e => simp [hd] at h
    | ok d =>
      cases hm : encodeKeyed excluded enc xs with
      | error e => simp [hd, hm] at h
      | ok more =>
        simp only [hd, hm] at h
        by_cases hx : excluded k = true
        · simp only [hx, ↓reduceIte, pure, Except.pure, Except.ok.injEq] at h
          subst h; simp [hx, ih more hm]
        · simp only [hx, Bool.false_eq_true, ↓reduceIte, pure, Except.pure, Except.ok.injEq] at h
          subst h; simp [hx, ih more hm]

/-- the same for record fields and union members (typed entries) -/
theorem c07_writer_keeps_exactly_nonexcluded_fields (excluded : Bytes → Bool)
    (enc : Bytes → Ty → Value → Except EncErr Doc) :
    ∀ (l : List (Bytes × Ty × Value)) r, encodeTyped excluded enc l = .ok r →
      r.map (·.1) = (l.map (·.1)).filter (fun k => !excluded k) := by
  intro l
  induction l with
  | nil => intro r h; simp [encodeTyped] at h; subst h; rfl
  | cons x xs ih =>
    obtain ⟨k, t, v⟩ := x
    intro r h
    simp only [encodeTyped, bind, Except.bind] at h
    cases hd : enc k t v with
    | error e => simp [hd] at h
    | ok d =>
      cases hm : encodeTyped excluded enc xs with
      | error e => simp [hd, hm] at h
      | ok more =>
        simp only [hd, hm] at h
        by_cases hx : excluded k = true
        · simp only [hx, ↓reduceIte, pure, Except.pure, Except.ok.injEq] at h
          subst h; simp [hx, ih more hm]
        · simp only [hx, Bool.false_eq_true, ↓reduceIte, pure, Except.pure, Except.ok.injEq] at h
          subst h; simp [hx, ih more hm]

/-- reader: a key whose path matches the spec makes the JSON reader fail with the excluded-field
error before the value is looked at, whatever follows in the document -/
theorem c07_reader_rejects_excluded_key (c : TCfg) (scope : List Seg) (mode : MapMode)
    (acc : List (Bytes × Value)) (seen : List Bytes) (k : Bytes) (v : Json.JVal)
    (rest : List (Bytes × Json.JVal)) (hv : v ≠ .null) (hkey : c.sem.key k = some k)
    (hx : c.tracker.check (scope ++ [.key k]) = .yes) :
    treeReadEntries c scope mode acc seen ((k, v) :: rest) = .err (.excluded (scopeString (scope ++ [.key k]))) := by
  cases v <;> simp_all [treeReadEntries]

/-- reader: what a record adds to the missing list is exactly the required fields that were
not seen **and are not excluded** (each under the current scope prefix): excluded required
fields are never reported missing -/
theorem c07_excluded_required_not_reported (tr : Tracker) (scope : List Seg) (fields : List Field)
    (seen m₀ : List Bytes) :
    ∃ reported : List Bytes, missingAfter tr scope fields seen m₀ =
        m₀ ++ reported.map ((let sc := scopeString scope; if sc.isEmpty then sc else sc ++ [46]) ++ ·) ∧
      ∀ r ∈ reported, tr.check (scope ++ [.key r]) ≠ .yes ∧ r ∈ remainingRequired fields seen := by
  refine ⟨(remainingRequired fields seen).filter (fun r => tr.check (scope ++ [.key r]) != .yes), rfl, ?_⟩
  intro r hr
  simp only [List.mem_filter, bne_iff_ne, ne_eq] at hr
  exact ⟨hr.2, hr.1⟩

/-! ## deviations, with witnesses (replayed on the real code by the harness) -/

/-- a directive `arr/*` aimed at the items of an array never fires on the reader side: the
scope path of an item ends in the wildcard segment, but items are entered with
`enterArrayScope`, which does not consult the spec -/
theorem c07_array_item_directive_not_enforced_cex :
    let spec := newPathSpec [[97, 47, 42]]          -- "a/*"
    -- the matcher itself would say yes for the item path …
    gmatches spec [[97], [42]] = .yes ∧
    -- … but the field `a` (an array) is entered as a key: path `a` alone does not match
    gmatches spec [[97]] = .no := by
  constructor <;> rfl

/-- a map key literally named `$delete` is skipped by the matcher: the directive `m/$delete`
does not match the path `m`,`$delete` -/
theorem c07_patch_operator_key_cex :
    gmatches (newPathSpec [[109, 47, 36, 100, 101, 108, 101, 116, 101]]) [[109], [36, 100, 101, 108, 101, 116, 101]] = .no := by
  rfl

/-- non-vacuity: an ordinary directive does match, at any depth and through wildcards -/
example : gmatches (newPathSpec [[97, 47, 42, 47, 98]]) [[97], [42], [98]] = .yes := by rfl
example : gmatches (newPathSpec [[97, 47, 42, 47, 98]]) [[97], [107], [98], [99]] = .yes := by rfl
example : gmatches (newPathSpec [[97, 47, 42, 47, 98]]) [[97], [107], [99]] = .no := by rfl
/-- after the repair a directive that is a prefix of another is kept, in either order -/
example : gmatches (newPathSpec [[97], [97, 47, 98]]) [[97]] = .yes := by rfl
example : gmatches (newPathSpec [[97, 47, 98], [97]]) [[97]] = .yes := by rfl

/-! ## the matcher against its specification -/

/-- **`NewPathSpec(directives…)` + `genericMatches` decide exactly prefix matching**: for every list
of directives (any bytes, any number of segments, nested prefixes and duplicates in any order —
the trie's subsumption rules are invisible) and every non-empty path, the path is excluded iff
some directive matches a prefix of it segment by segment, `*` standing for any one segment, one
leading `$set`/`$delete` of the remaining path being passed over at each step -/
theorem c07_pathspec_is_prefix_match (dirs : List Bytes) (path : List Bytes) (hp : path ≠ []) :
    (newPathSpec dirs).matchesB path = true ↔ ∃ d ∈ dirs, dirMatches (splitSlash d) path = true := by
  unfold PathSpec.matchesB
  rw [beq_iff_eq]
  exact newPathSpec_sem dirs path hp

/-- for paths that contain no `$set`/`$delete` segment this is plain prefix matching with
wildcards — the property's definition -/
theorem c07_pathspec_plain_paths (dirs : List Bytes) (path : List Bytes) (hp : path ≠ [])
    (hno : ∀ x ∈ path, isOp x = false) :
    (newPathSpec dirs).matchesB path = true ↔ ∃ d ∈ dirs, prefixMatches (splitSlash d) path = true := by
  rw [c07_pathspec_is_prefix_match dirs path hp]
  constructor
  · rintro ⟨d, hd, h⟩
    exact ⟨d, hd, by rw [← dirMatches_plain _ _ (splitSlash_ne_nil d) hno]; exact h⟩
  · rintro ⟨d, hd, h⟩
    exact ⟨d, hd, by rw [dirMatches_plain _ _ (splitSlash_ne_nil d) hno]; exact h⟩

/-! ## partial updates -/

/-- **client side**: a partial update that deletes, sets or patches a field (own or inherited, at
the top or inside any nested patch scope) which the writer's exclusion spec matches is never
emitted by `MarshalRestLiPatch`: the call fails before anything is written -/
theorem c07_pu_touching_excluded_refused (c : EncCfg) (fuel : Nat) (scope : List Bytes) (n : TName) (pu : PU)
    (f : Field) (hf : f ∈ allFields c.env (includeFuel c.env) n) (ht : pu.touches c.env f = true)
    (hx : c.excl.matchesB (scope ++ [f.name]) = true) : ∀ d, marshalPatch c fuel scope n pu ≠ .ok d := by
  intro d h
  have := (checkFields_ok_iff c.env n pu _).1 (marshalPatch_ok_checked c fuel scope n pu d h) f hf
  simp [fieldLegal, ht, hx] at this

/-- **server side**: `UnmarshalRestLiPatch` never returns a partial update that touches a field the
reader's exclusion spec matches (with the leading `patch` scope ignored, the path is relative to
the entity) -/
theorem c07_pu_reader_rejects_excluded (c : TCfg) (fuel : Nat) (scope : List Seg) (n : TName) (pu₀ pu : PU)
    (t : Json.JVal) (m : List Bytes) (h : unmarshalPatch c fuel scope n pu₀ t = .ok pu m)
    (f : Field) (hf : f ∈ allFields c.env (includeFuel c.env) n) (ht : pu.touches c.env f = true) :
    c.tracker.check (scope ++ [.key f.name]) ≠ .yes := by
  have := (checkFields_ok_iff c.env n pu _).1 (unmarshalPatch_ok_checked c fuel scope n pu₀ pu t m h) f hf
  simp only [fieldLegal, ht, Bool.not_true, Bool.false_or, Bool.and_eq_true, Bool.not_eq_eq_eq_not,
    Bool.not_true, beq_eq_false_iff_ne] at this
  exact this.1

/-- deviation (known finding): when the entity itself has an excluded field that is literally
named `patch`, the envelope key is looked up in the exclusion spec, matches, and every partial
update of that entity — whatever it touches — is serialised as `{}` without an error -/
theorem c07_field_named_patch_cex :
    marshalPU { env := [("R", .record [] [⟨patchKey, .prim .str, true, none⟩, ⟨[120], .prim .i32, true, none⟩])],
                excl := newPathSpec [patchKey], sortKeys := true } 5 "R" (.mk [] [([120], .i32 1)] [])
      = .ok (.obj []) := by rfl

end Restli.Codec
