import Restli.Model.ErrorFlow
/-! # C08 — error and status propagation from resource code to the calling client

Property theorems only. The model is `Model/ErrorFlow.lean` (the `Register*` wrappers, the closures
of `registerMethod` / `registerFinder` / `registerAction`, the deferred `recover` of `receive`, the
tail of `ServeHTTP`, `IsErrorResponse`). All statements are for every `Register*` kind, every
outcome of the implementation and every `http.StatusText`; `C` ranges over the constants of either
module generation and `TiedErr C` says they are what the property demands.

No finding is left on the repaired tree: an empty `*ErrorResponse` no longer drops the connection
(was F8a), the resource's error object is no longer completed in place (was F8b), a nil result
without an error is a 500 for every method kind (was F9). The theorems below are full strength.

Not modelled (said here rather than guessed): per-key errors inside batch responses (C16 owns the
key correlation; the envelope is the codec's), concurrent sharing of error objects (C17). -/
namespace Restli.ErrorFlow
open Restli.Routing

/-- a failure status -/
def failure (st : Nat) : Bool := 400 ≤ st && st < 600

/-- the protocol's default status per method: 201 for create, 204 for update / delete / partial
update without return entity, 200 otherwise -/
def protocolDefault : Kind → Nat
  | .create | .createWithReturnEntity => 201
  | .delete | .update | .partialUpdate => 204
  | _ => 200

/-- what the property demands of the regenerated constants -/
structure TiedErr (C : Consts) : Prop where
  nilStatus : C.srvNilStatus = 500
  recover : C.recoverStatus = 500
  wrap : ∀ k : Kind, failure (wrapStatus C k) = true
  nilResult : ∀ k : Kind, failure (nilResultStatus C k) = true
  preset : ∀ k : Kind, presetStatus C k = protocolDefault k

/-- The v2 constants (statuses in `ServeHTTP`, `receive`, the closures and the `Register*` wrappers,
regenerated from source) are what the property demands. -/
theorem c08_constants_tied_v2 : TiedErr constsV2 := by
  constructor
  · decide
  · decide
  · intro k; cases k <;> decide
  · intro k; cases k <;> decide
  · intro k; cases k <;> decide

/-- The same for the root module. -/
theorem c08_constants_tied_root : TiedErr constsRoot := by
  constructor
  · decide
  · decide
  · intro k; cases k <;> decide
  · intro k; cases k <;> decide
  · intro k; cases k <;> decide

/-! ## a Rest.li error response reaches the client -/

/-- what "delivered faithfully" means for error response `e` returned through kind `k`: the HTTP
status is `e`'s (500 when unset), the error header is set, the body is `e` (with the message filled
in when it was unset), and the client's `*restli.Error` carries it with the status filled in -/
def Delivered (C : Consts) (statusText : Nat → String) (k : Kind) (e : ErrResp) : Prop :=
  ∃ e', (serveOutcome C statusText k (.errResp e)).1 = .response (e.status.getD 500) true (.error e') ∧
    e'.status = e.status ∧ e'.rest = e.rest ∧ (e.message.isSome → e'.message = e.message) ∧
    clientView (serveOutcome C statusText k (.errResp e)).1 = .restliError { e' with status := some (e.status.getD 500) }

/-- Every error response — with or without a status, with or without a message — is delivered to
the client as a `*restli.Error` carrying the same status (500 when unset), message and remaining
fields, over an HTTP response with that status and the error header. -/
theorem c08_error_response_delivered (C : Consts) (hC : TiedErr C) (statusText : Nat → String)
    (k : Kind) (e : ErrResp) : Delivered C statusText k e := by
  obtain ⟨st, msg, rest⟩ := e
  cases st <;> cases msg <;>
    simp_all [Delivered, serveOutcome, receiveImpl, respondTail, clientView, hC.nilStatus]

/-! ## every other failure becomes an error response -/

/-- "any other error, a panic, or a missing (nil) entity returned without an error" -/
def otherFailure (k : Kind) : ImplOutcome → Option String
  | .otherErr msg => some msg
  | .panic msg => some msg
  | .typedNil =>
    match k.shape with
    | .derefInWrapper => some "nil pointer dereference"
    | .marshalledBody => some "nil result"
    | _ => none
  | _ => none

/-- the request is answered with a well-formed error response: failure status, error header, a
message, and the client sees a `*restli.Error` with that status -/
def BecomesErrorResponse (C : Consts) (statusText : Nat → String) (k : Kind) (o : ImplOutcome) (msg : String) : Prop :=
  ∃ st rest, failure st = true ∧
    (serveOutcome C statusText k o).1 = .response st true (.error ⟨some st, some msg, rest⟩) ∧
    clientView (serveOutcome C statusText k o).1 = .restliError ⟨some st, some msg, rest⟩

/-- An ordinary error, a panic and a nil result returned without an error — for every method kind
that has a result — are answered with an error response carrying a failure status and a message. -/
theorem c08_other_outcomes_become_error_responses (C : Consts) (hC : TiedErr C) (statusText : Nat → String)
    (k : Kind) (o : ImplOutcome) (msg : String) (ho : otherFailure k o = some msg) :
    BecomesErrorResponse C statusText k o msg := by
  cases o with
  | otherErr m =>
    simp only [otherFailure, Option.some.injEq] at ho; subst ho
    exact ⟨wrapStatus C k, libRest, hC.wrap k, by simp [serveOutcome, receiveImpl, respondTail], by
      simp [serveOutcome, receiveImpl, respondTail, clientView]⟩
  | panic m =>
    simp only [otherFailure, Option.some.injEq] at ho; subst ho
    exact ⟨C.recoverStatus, libRest, by rw [hC.recover]; decide, by simp [serveOutcome, receiveImpl, respondTail], by
      simp [serveOutcome, receiveImpl, respondTail, clientView]⟩
  | typedNil =>
    cases hsh : k.shape <;> simp [otherFailure, hsh] at ho
    · subst ho
      exact ⟨C.recoverStatus, libRest, by rw [hC.recover]; decide, by simp [serveOutcome, receiveImpl, respondTail, hsh], by
        simp [serveOutcome, receiveImpl, respondTail, clientView, hsh]⟩
    · subst ho
      exact ⟨nilResultStatus C k, libRest, hC.nilResult k, by simp [serveOutcome, receiveImpl, respondTail, hsh], by
        simp [serveOutcome, receiveImpl, respondTail, clientView, hsh]⟩
  | value => simp [otherFailure] at ho
  | errResp e => simp [otherFailure] at ho
  | statusOverride n => simp [otherFailure] at ho

/-- "Never a crashed connection": whatever the implementation does, the client gets a response. -/
theorem c08_connection_never_dropped (C : Consts) (statusText : Nat → String) (k : Kind) (o : ImplOutcome) :
    (serveOutcome C statusText k o).1 ≠ .connectionDropped := by
  cases o <;> cases hsh : k.shape <;> simp [serveOutcome, receiveImpl, respondTail, hsh] <;>
    split <;> simp [respondTail]

/-- Whatever goes wrong, the client is never told that the call succeeded: an error response, an
ordinary error or a panic never reach the client as a 2xx result. -/
theorem c08_failure_never_looks_like_success (C : Consts) (statusText : Nat → String) (k : Kind)
    (o : ImplOutcome) (ho : (∃ e, o = .errResp e ∧ (∀ st, e.status = some st → failure st = true)) ∨
      (∃ m, o = .otherErr m) ∨ (∃ m, o = .panic m)) :
    ∀ st, clientView (serveOutcome C statusText k o).1 ≠ .ok st := by
  intro st
  rcases ho with ⟨e, rfl, _⟩ | ⟨m, rfl⟩ | ⟨m, rfl⟩
  · obtain ⟨s, msg, rest⟩ := e
    cases s <;> cases msg <;> simp [serveOutcome, receiveImpl, respondTail, clientView]
  · simp [serveOutcome, receiveImpl, respondTail, clientView]
  · simp [serveOutcome, receiveImpl, respondTail, clientView]

/-! ## error objects are not modified -/

/-- Error objects returned by resource code are not modified: after the call the implementation's
error response is exactly what it returned, so it may be shared between requests. -/
theorem c08_error_object_unchanged (C : Consts) (statusText : Nat → String) (k : Kind) (e : ErrResp) :
    (serveOutcome C statusText k (.errResp e)).2 = some e := by
  simp [serveOutcome, receiveImpl, respondTail]

/-! ## successful calls -/

/-- A successful call never carries the error header and uses the protocol's default status for the
method: 200, 201 for create, 204 for update, delete and partial update. -/
theorem c08_success_statuses (C : Consts) (hC : TiedErr C) (statusText : Nat → String) (k : Kind) :
    ∃ body, (serveOutcome C statusText k .value).1 = .response (protocolDefault k) false body ∧
      clientView (serveOutcome C statusText k .value).1 = .ok (protocolDefault k) := by
  have hp := hC.preset k
  cases k <;> simp [serveOutcome, receiveImpl, respondTail, clientView, Kind.shape, hp, protocolDefault]

/-- …unless the implementation overrides it: then the status is the one it chose. -/
theorem c08_success_status_override (C : Consts) (statusText : Nat → String) (k : Kind) (n : Nat) (hn : n ≠ 0) :
    ∃ body, (serveOutcome C statusText k (.statusOverride n)).1 = .response n false body := by
  cases k <;> simp [serveOutcome, receiveImpl, respondTail, Kind.shape, hn]

/-! ## non-vacuity -/

example : Delivered constsV2 (fun _ => "Not Found") .get ⟨some 404, none, 3⟩ :=
  c08_error_response_delivered constsV2 c08_constants_tied_v2 _ .get _
/-- (was F8a) `&ErrorResponse{}` is a 500 with the default message -/
example : (serveOutcome constsV2 (fun _ => "Internal Server Error") .get (.errResp ⟨none, none, 0⟩)).1 =
    .response 500 true (.error ⟨none, some "Internal Server Error", 0⟩) := by decide
/-- (was F8b) the resource's object keeps its missing message -/
example : (serveOutcome constsV2 (fun _ => "Not Found") .get (.errResp ⟨some 404, none, 0⟩)).2 = some ⟨some 404, none, 0⟩ := by decide
/-- (was F9) `get` returning `(nil, nil)` is a 500 -/
example : (serveOutcome constsV2 (fun _ => "") .get .typedNil).1 =
    .response 500 true (.error ⟨some 500, some "nil result", 0⟩) := by decide
example : (serveOutcome constsV2 (fun _ => "Not Found") .get (.errResp ⟨some 404, none, 3⟩)).1 =
    .response 404 true (.error ⟨some 404, some "Not Found", 3⟩) := by decide
example : (serveOutcome constsV2 (fun _ => "") .action (.otherErr "boom")).1 =
    .response 400 true (.error ⟨some 400, some "boom", 0⟩) := by decide
example : (serveOutcome constsV2 (fun _ => "") .finder (.otherErr "boom")).1 =
    .response 500 true (.error ⟨some 500, some "boom", 0⟩) := by decide
example : (serveOutcome constsV2 (fun _ => "") .create .typedNil).1 =
    .response 500 true (.error ⟨some 500, some "nil pointer dereference", 0⟩) := by decide
example : (serveOutcome constsRoot (fun _ => "") .create .value).1 = .response 201 false .empty := by decide
example : clientView (serveOutcome constsV2 (fun _ => "") .batchGet .typedNil).1 = .restliError ⟨some 500, some "nil result", 0⟩ := by decide

end Restli.ErrorFlow
