import Restli.Model.ErrorFlow
/-! # C08 — error and status propagation from resource code to the calling client

Property theorems only. The model is `Model/ErrorFlow.lean` (the `Register*` wrappers, the closures
of `registerMethod` / `registerFinder` / `registerAction`, the deferred `recover` of `receive`, the
tail of `ServeHTTP`, `IsErrorResponse`). All statements are for every `Register*` kind, every
outcome of the implementation and every `http.StatusText`; `C` ranges over the constants of either
module generation and `TiedErr C` says they are what the property demands.

Findings on the unchanged tree (full statements kept, `_partial` published, negation proved):

* F8a  an `*ErrorResponse` with neither status nor message: nil dereference in `ServeHTTP`, outside
       any `recover` — the connection is dropped                       — guard `e.status.isSome ∨ e.message.isSome`
* F8b  an `*ErrorResponse` with a status and no message is completed **in place**: the
       implementation's (possibly shared) object is modified           — guard `e.message.isSome ∨ e.status.isNone`
* F9   a nil result returned without an error by a method whose result is marshalled by `ServeHTTP`
       (get, batch_*, get_all, finder, action with results, partial update with return entity):
       `MarshalRestLi` on a nil receiver, outside any `recover` — the connection is dropped
                                                                        — guard `k.shape ≠ .marshalledBody`

Not modelled (said here rather than guessed): per-key errors inside batch responses (C16 owns the
key correlation; the envelope is the codec's), concurrent sharing of error objects (C17). -/
namespace Restli.ErrorFlow
open Restli.Routing

/-- a failure status -/
def failure (st : Nat) : Bool := 400 ≤ st && st < 600

/-- the protocol's default status per method: 201 for create, 204 for update / delete / partial
update without return entity, 200 otherwise -/
def protocolDefault : Kind → Nat
  | .create | .createWithReturnEntity => 201
  | .delete | .update | .partialUpdate => 204
  | _ => 200

/-- what the property demands of the regenerated constants -/
structure TiedErr (C : Consts) : Prop where
  nilStatus : C.srvNilStatus = 500
  recover : C.recoverStatus = 500
  wrap : ∀ k : Kind, failure (wrapStatus C k) = true
  preset : ∀ k : Kind, presetStatus C k = protocolDefault k

/-- The v2 constants (statuses in `ServeHTTP`, `receive`, the closures and the `Register*` wrappers,
regenerated from source) are what the property demands. -/
theorem c08_constants_tied_v2 : TiedErr constsV2 := by
  constructor
  · decide
  · decide
  · intro k; cases k <;> decide
  · intro k; cases k <;> decide

/-- The same for the root module. -/
theorem c08_constants_tied_root : TiedErr constsRoot := by
  constructor
  · decide
  · decide
  · intro k; cases k <;> decide
  · intro k; cases k <;> decide

/-! ## a Rest.li error response reaches the client -/

/-- what "delivered faithfully" means for error response `e` returned through kind `k`: the HTTP
status is `e`'s (500 when unset), the error header is set, the body is `e` (with the message filled
in when it was unset), and the client's `*restli.Error` carries it with the status filled in -/
def Delivered (C : Consts) (statusText : Nat → String) (k : Kind) (e : ErrResp) : Prop :=
  ∃ e', (serveOutcome C statusText k (.errResp e)).1 = .response (e.status.getD 500) true (.error e') ∧
    e'.status = e.status ∧ e'.rest = e.rest ∧ (e.message.isSome → e'.message = e.message) ∧
    clientView (serveOutcome C statusText k (.errResp e)).1 = .restliError { e' with status := some (e.status.getD 500) }

/-- **Full statement** (false today: F8a). -/
def ErrorResponseDelivered (C : Consts) : Prop :=
  ∀ (statusText : Nat → String) (k : Kind) (e : ErrResp), Delivered C statusText k e

/-- An error response with a status or a message (or both) is delivered to the client as a
`*restli.Error` carrying the same status (500 when unset), message and remaining fields, over an HTTP
response with that status and the error header. -/
theorem c08_error_response_delivered_partial (C : Consts) (hC : TiedErr C) (statusText : Nat → String)
    (k : Kind) (e : ErrResp) (hg : e.status.isSome = true ∨ e.message.isSome = true) :
    Delivered C statusText k e := by
  obtain ⟨st, msg, rest⟩ := e
  cases st <;> cases msg <;>
    simp_all [Delivered, serveOutcome, receiveImpl, respondTail, clientView, hC.nilStatus]

/-- (F8a) `&ErrorResponse{}`: the connection is dropped. -/
theorem c08_error_response_cex_empty : ¬ ErrorResponseDelivered constsV2 := by
  intro h
  obtain ⟨e', hw, _⟩ := h (fun _ => "") .get ⟨none, none, 0⟩
  revert hw; simp [serveOutcome, receiveImpl, respondTail]

/-! ## every other failure becomes an error response -/

/-- "any other error, a panic, or a missing (nil) entity returned without an error" -/
def otherFailure (k : Kind) : ImplOutcome → Option String
  | .otherErr msg => some msg
  | .panic msg => some msg
  | .typedNil => if k.shape = .derefInWrapper ∨ k.shape = .marshalledBody then some "nil pointer dereference" else none
  | _ => none

/-- the request is answered with a well-formed error response: failure status, error header, a
message, and the client sees a `*restli.Error` with that status -/
def BecomesErrorResponse (C : Consts) (statusText : Nat → String) (k : Kind) (o : ImplOutcome) (msg : String) : Prop :=
  ∃ st rest, failure st = true ∧
    (serveOutcome C statusText k o).1 = .response st true (.error ⟨some st, some msg, rest⟩) ∧
    clientView (serveOutcome C statusText k o).1 = .restliError ⟨some st, some msg, rest⟩

/-- **Full statement** (false today: F9). -/
def OtherFailuresReported (C : Consts) : Prop :=
  ∀ (statusText : Nat → String) (k : Kind) (o : ImplOutcome) (msg : String),
    otherFailure k o = some msg → BecomesErrorResponse C statusText k o msg

/-- An ordinary error and a panic always, and a nil result wherever the `Register*` wrapper itself
touches it, are answered with an error response carrying a failure status and the error's message. -/
theorem c08_other_outcomes_become_error_responses_partial (C : Consts) (hC : TiedErr C) (statusText : Nat → String)
    (k : Kind) (o : ImplOutcome) (msg : String) (ho : otherFailure k o = some msg)
    (hg : o = .typedNil → k.shape ≠ .marshalledBody) :
    BecomesErrorResponse C statusText k o msg := by
  cases o with
  | otherErr m =>
    simp only [otherFailure, Option.some.injEq] at ho; subst ho
    exact ⟨wrapStatus C k, libRest, hC.wrap k, by simp [serveOutcome, receiveImpl, respondTail], by
      simp [serveOutcome, receiveImpl, respondTail, clientView]⟩
  | panic m =>
    simp only [otherFailure, Option.some.injEq] at ho; subst ho
    exact ⟨C.recoverStatus, libRest, by rw [hC.recover]; decide, by simp [serveOutcome, receiveImpl, respondTail], by
      simp [serveOutcome, receiveImpl, respondTail, clientView]⟩
  | typedNil =>
    have hs := hg rfl
    cases hsh : k.shape <;> simp_all [otherFailure]
    subst ho
    exact ⟨C.recoverStatus, libRest, by rw [hC.recover]; decide, by simp [serveOutcome, receiveImpl, respondTail, hsh], by
      simp [serveOutcome, receiveImpl, respondTail, clientView, hsh]⟩
  | value => simp [otherFailure] at ho
  | errResp e => simp [otherFailure] at ho
  | statusOverride n => simp [otherFailure] at ho

/-- (F9) `get` returning `(nil, nil)`: the connection is dropped. -/
theorem c08_other_outcomes_cex_typed_nil : ¬ OtherFailuresReported constsV2 := by
  intro h
  obtain ⟨st, rest, _, hw, _⟩ := h (fun _ => "") .get .typedNil "nil pointer dereference" (by decide)
  revert hw; simp [serveOutcome, receiveImpl, respondTail, Kind.shape]

/-- Whatever goes wrong, the client is never told that the call succeeded: an error response, an
ordinary error or a panic never reach the client as a 2xx result. -/
theorem c08_failure_never_looks_like_success (C : Consts) (statusText : Nat → String) (k : Kind)
    (o : ImplOutcome) (ho : (∃ e, o = .errResp e ∧ (∀ st, e.status = some st → failure st = true)) ∨
      (∃ m, o = .otherErr m) ∨ (∃ m, o = .panic m)) :
    ∀ st, clientView (serveOutcome C statusText k o).1 ≠ .ok st := by
  intro st
  rcases ho with ⟨e, rfl, _⟩ | ⟨m, rfl⟩ | ⟨m, rfl⟩
  · obtain ⟨s, msg, rest⟩ := e
    cases s <;> cases msg <;> simp [serveOutcome, receiveImpl, respondTail, clientView]
  · simp [serveOutcome, receiveImpl, respondTail, clientView]
  · simp [serveOutcome, receiveImpl, respondTail, clientView]

/-! ## error objects are not modified -/

/-- **Full statement** (false today: F8b): the implementation's error object is the same afterwards. -/
def ErrorObjectUnchanged (C : Consts) : Prop :=
  ∀ (statusText : Nat → String) (k : Kind) (e : ErrResp), (serveOutcome C statusText k (.errResp e)).2 = some e

/-- The error object returned by resource code is left as it was whenever it carries a message (or
no status: then the server fails before it gets to write). -/
theorem c08_error_object_unchanged_partial (C : Consts) (statusText : Nat → String) (k : Kind) (e : ErrResp)
    (hg : e.message.isSome = true ∨ e.status.isNone = true) :
    (serveOutcome C statusText k (.errResp e)).2 = some e := by
  obtain ⟨st, msg, rest⟩ := e
  cases st <;> cases msg <;> simp_all [serveOutcome, receiveImpl, respondTail]

/-- (F8b) `&ErrorResponse{Status: 404}`: the object has a message afterwards. -/
theorem c08_error_object_cex_message_written : ¬ ErrorObjectUnchanged constsV2 := by
  intro h
  have := h (fun _ => "Not Found") .get ⟨some 404, none, 0⟩
  revert this; simp [serveOutcome, receiveImpl, respondTail]

/-! ## successful calls -/

/-- A successful call never carries the error header and uses the protocol's default status for the
method: 200, 201 for create, 204 for update, delete and partial update. -/
theorem c08_success_statuses (C : Consts) (hC : TiedErr C) (statusText : Nat → String) (k : Kind) :
    ∃ body, (serveOutcome C statusText k .value).1 = .response (protocolDefault k) false body ∧
      clientView (serveOutcome C statusText k .value).1 = .ok (protocolDefault k) := by
  have hp := hC.preset k
  cases k <;> simp [serveOutcome, receiveImpl, respondTail, clientView, Kind.shape, hp, protocolDefault]

/-- …unless the implementation overrides it: then the status is the one it chose. -/
theorem c08_success_status_override (C : Consts) (statusText : Nat → String) (k : Kind) (n : Nat) (hn : n ≠ 0) :
    ∃ body, (serveOutcome C statusText k (.statusOverride n)).1 = .response n false body := by
  cases k <;> simp [serveOutcome, receiveImpl, respondTail, Kind.shape, hn]

/-! ## non-vacuity -/

example : Delivered constsV2 (fun _ => "Not Found") .get ⟨some 404, none, 3⟩ :=
  c08_error_response_delivered_partial constsV2 c08_constants_tied_v2 _ .get _ (Or.inl rfl)
example : (serveOutcome constsV2 (fun _ => "Not Found") .get (.errResp ⟨some 404, none, 3⟩)).1 =
    .response 404 true (.error ⟨some 404, some "Not Found", 3⟩) := by decide
example : (serveOutcome constsV2 (fun _ => "") .action (.otherErr "boom")).1 =
    .response 400 true (.error ⟨some 400, some "boom", 0⟩) := by decide
example : (serveOutcome constsV2 (fun _ => "") .finder (.otherErr "boom")).1 =
    .response 500 true (.error ⟨some 500, some "boom", 0⟩) := by decide
example : (serveOutcome constsV2 (fun _ => "") .create .typedNil).1 =
    .response 500 true (.error ⟨some 500, some "nil pointer dereference", 0⟩) := by decide
example : (serveOutcome constsRoot (fun _ => "") .create .value).1 = .response 201 false .empty := by decide
example : clientView (serveOutcome constsV2 (fun _ => "") .batchGet .typedNil).1 = .transportError := by decide

end Restli.ErrorFlow
