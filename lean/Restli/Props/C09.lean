import Restli.Proofs.SortKeys
import Restli.Model.Encode
/-! # C09 — deterministic, canonical serialization (v2)

The writer model sorts the entries of every object by key (`EncCfg.sortKeys`, what v2's
`WriteMap` does). These theorems say that the sorted output is a function of the *set* of
entries (Go's map iteration order, or the order in which fields were produced, is a permutation
of it), and that keys come out strictly ascending in byte order. Go maps have distinct keys and
well-formed schemas distinct field names: that is the `KeysNodup` hypothesis. -/
namespace Restli.Codec

/-- the emitted member order does not depend on the order in which the entries were produced -/
theorem c09_sorted_entries_perm_invariant {α : Type} (l₁ l₂ : List (Bytes × α)) (hp : l₁.Perm l₂)
    (hn : KeysNodup l₁) : sortByKey l₁ = sortByKey l₂ :=
  sortByKey_perm l₁ l₂ hp hn

/-- object keys appear in strictly ascending byte order -/
theorem c09_keys_ascending {α : Type} (l : List (Bytes × α)) (hn : KeysNodup l) :
    SortedKeys (sortByKey l) :=
  sortByKey_sorted l hn

theorem encodeKeyed_perm (excluded : Bytes → Bool) (enc : Bytes → Value → Except EncErr Doc)
    (l₁ l₂ : List (Bytes × Value)) (hp : l₁.Perm l₂) :
    ∀ r₁, encodeKeyed excluded enc l₁ = .ok r₁ → ∃ r₂, encodeKeyed excluded enc l₂ = .ok r₂ ∧ r₁.Perm r₂ := by
  induction hp with
  | nil => intro r h; exact ⟨r, h, List.Perm.refl _⟩
  | cons x hp ih =>
    obtain ⟨k, v⟩ := x
    intro r h
    simp only [encodeKeyed, bind, Except.bind] at h ⊢
    cases hd : enc k v with
    | error e => simp [hd] at h
    | ok d =>
      simp only [hd] at h ⊢
      rename_i la lb
      cases hm : encodeKeyed excluded enc la with
      | error e => simp [hm] at h
      | ok more =>
        simp only [hm] at h
        obtain ⟨more2, h2, hperm⟩ := ih more hm
        simp only [h2]
        by_cases hx : excluded k = true
        · simp only [hx, ↓reduceIte, pure, Except.pure, Except.ok.injEq] at h ⊢
          subst h; exact ⟨more2, rfl, hperm⟩
        · simp only [hx, Bool.false_eq_true, ↓reduceIte, pure, Except.pure, Except.ok.injEq] at h ⊢
          subst h; exact ⟨(k, d) :: more2, rfl, hperm.cons _⟩
  | swap x y l =>
    obtain ⟨k1, v1⟩ := x
    obtain ⟨k2, v2⟩ := y
    intro r h
    simp only [encodeKeyed, bind, Except.bind] at h ⊢
    cases hd2 : enc k2 v2 with
    | error e => simp [hd2] at h
    | ok d2 =>
      cases hd1 : enc k1 v1 with
      | error e => simp [hd2, hd1] at h
      | ok d1 =>
        cases hm : encodeKeyed excluded enc l with
        | error e => simp [hd2, hd1, hm] at h
        | ok more =>
          simp only [hd2, hd1, hm] at h ⊢
          by_cases hx1 : excluded k1 = true <;> by_cases hx2 : excluded k2 = true <;>
            simp only [hx1, hx2, Bool.false_eq_true, ↓reduceIte, pure, Except.pure, Except.ok.injEq] at h ⊢ <;>
            subst h
          · exact ⟨_, rfl, List.Perm.refl _⟩
          · exact ⟨_, rfl, List.Perm.refl _⟩
          · exact ⟨_, rfl, List.Perm.refl _⟩
          · exact ⟨_, rfl, List.Perm.swap _ _ _⟩
  | trans _ _ ih1 ih2 =>
    intro r h
    obtain ⟨r2, h2, p2⟩ := ih1 r h
    obtain ⟨r3, h3, p3⟩ := ih2 r2 h2
    exact ⟨r3, h3, p2.trans p3⟩

theorem encodeKeyed_keys (excluded : Bytes → Bool) (enc : Bytes → Value → Except EncErr Doc) :
    ∀ (l : List (Bytes × Value)) r, encodeKeyed excluded enc l = .ok r →
      (r.map (·.1)).Sublist (l.map (·.1)) := by
  intro l
  induction l with
  | nil => intro r h; simp [encodeKeyed] at h; subst h; simp
  | cons x xs ih =>
    obtain ⟨k, v⟩ := x
    intro r h
    simp only [encodeKeyed, bind, Except.bind] at h
    cases hd : enc k v with
    | error e => simp [hd] at h
    | ok d =>
      cases hm : encodeKeyed excluded enc xs with
      | error e => simp [hd, hm] at h
      | ok more =>
        simp only [hd, hm] at h
        by_cases hx : excluded k = true
        · simp only [hx, ↓reduceIte, pure, Except.pure, Except.ok.injEq] at h
          subst h; exact (ih more hm).cons _
        · simp only [hx, Bool.false_eq_true, ↓reduceIte, pure, Except.pure, Except.ok.injEq] at h
          subst h; simpa using (ih more hm).cons_cons k

/-- **map-typed values at any depth**: encoding a map does not depend on the order in which the
runtime enumerates its entries — same document, hence same bytes in every format. -/
theorem c09_map_encoding_order_independent (c : EncCfg) (hs : c.sortKeys = true) (fuel : Nat)
    (scope : List Bytes) (t : Ty) (es₁ es₂ : List (Bytes × Value)) (hp : es₁.Perm es₂)
    (hn : KeysNodup es₁) (d : Doc)
    (h : encode c (fuel + 1) scope (.map t) (.map es₁) = .ok d) :
    encode c (fuel + 1) scope (.map t) (.map es₂) = .ok d := by
  simp only [encode, bind, Except.bind] at h ⊢
  cases h1 : encodeKeyed (fun k => c.excl.matchesB (scope ++ [k])) (fun k v => if c.excl.matchesB (scope ++ [k]) then encodeNoop c.env t v
      else encode c fuel (scope ++ [k]) t v) es₁ with
  | error e => simp [h1] at h
  | ok r₁ =>
    obtain ⟨r₂, h2, hperm⟩ := encodeKeyed_perm _ _ es₁ es₂ hp r₁ h1
    simp only [h1, pure, Except.pure, Except.ok.injEq] at h
    simp only [h2, pure, Except.pure, Except.ok.injEq]
    rw [← h]
    simp only [EncCfg.finish, hs, ↓reduceIte, Doc.obj.injEq]
    have hn1 : KeysNodup r₁ := by
      unfold KeysNodup at hn ⊢
      exact (encodeKeyed_keys _ _ es₁ r₁ h1).nodup hn
    exact (sortByKey_perm r₁ r₂ hperm hn1).symm

/-- every object the v2 writer model emits for a map has strictly ascending keys -/
theorem c09_map_keys_ascending (c : EncCfg) (hs : c.sortKeys = true) (fuel : Nat)
    (scope : List Bytes) (t : Ty) (es : List (Bytes × Value)) (hn : KeysNodup es) (kvs : List (Bytes × Doc))
    (h : encode c (fuel + 1) scope (.map t) (.map es) = .ok (.obj kvs)) : SortedKeys kvs := by
  simp only [encode, bind, Except.bind] at h
  cases h1 : encodeKeyed (fun k => c.excl.matchesB (scope ++ [k])) (fun k v => if c.excl.matchesB (scope ++ [k]) then encodeNoop c.env t v
      else encode c fuel (scope ++ [k]) t v) es with
  | error e => simp [h1] at h
  | ok r =>
    simp only [h1, pure, Except.pure, Except.ok.injEq, EncCfg.finish, hs, ↓reduceIte, Doc.obj.injEq] at h
    rw [← h]
    apply sortByKey_sorted
    unfold KeysNodup at hn ⊢
    exact (encodeKeyed_keys _ _ es r h1).nodup hn

/-! non-vacuity -/
example : sortByKey [(([98] : Bytes), 1), ([97], 2), ([66], 3), ([97, 0], 4)]
    = [([66], 3), ([97], 2), ([97, 0], 4), ([98], 1)] := by decide
example : KeysNodup [(([98] : Bytes), 1), ([97], 2), ([66], 3), ([97, 0], 4)] := by unfold KeysNodup; decide

end Restli.Codec
