import Restli.Proofs.EncodePerm
import Restli.Proofs.EqualEncode
import Restli.Proofs.GenEqualsFuel
import Restli.Proofs.EncodeFuel
/-! # C09 — deterministic, canonical serialization (v2)

The writer model sorts the entries of every object by key (`EncCfg.sortKeys`, what v2's
`WriteMap` does). These theorems say that the sorted output is a function of the *set* of
entries (Go's map iteration order, or the order in which fields were produced, is a permutation
of it), and that keys come out strictly ascending in byte order. Go maps have distinct keys and
well-formed schemas distinct field names: that is the `KeysNodup` hypothesis. -/
namespace Restli.Codec

/-- the emitted member order does not depend on the order in which the entries were produced -/
theorem c09_sorted_entries_perm_invariant {α : Type} (l₁ l₂ : List (Bytes × α)) (hp : l₁.Perm l₂)
    (hn : KeysNodup l₁) : sortByKey l₁ = sortByKey l₂ :=
  sortByKey_perm l₁ l₂ hp hn

/-- object keys appear in strictly ascending byte order -/
theorem c09_keys_ascending {α : Type} (l : List (Bytes × α)) (hn : KeysNodup l) :
    SortedKeys (sortByKey l) :=
  sortByKey_sorted l hn

/-- **map-typed values at any depth**: encoding a map does not depend on the order in which the
runtime enumerates its entries — same document, hence same bytes in every format. -/
theorem c09_map_encoding_order_independent (c : EncCfg) (hs : c.sortKeys = true) (fuel : Nat)
    (scope : List Bytes) (t : Ty) (es₁ es₂ : List (Bytes × Value)) (hp : es₁.Perm es₂)
    (hn : KeysNodup es₁) (d : Doc)
    (h : encode c (fuel + 1) scope (.map t) (.map es₁) = .ok d) :
    encode c (fuel + 1) scope (.map t) (.map es₂) = .ok d := by
  simp only [encode, bind, Except.bind] at h ⊢
  cases h1 : encodeKeyed (fun k => c.excl.matchesB (scope ++ [k])) (fun k v => if c.excl.matchesB (scope ++ [k]) then encodeNoop c.env t v
      else encode c fuel (scope ++ [k]) t v) es₁ with
  | error e => simp [h1] at h
  | ok r₁ =>
    obtain ⟨r₂, h2, hperm⟩ := encodeKeyed_perm _ _ es₁ es₂ hp r₁ h1
    simp only [h1, pure, Except.pure, Except.ok.injEq] at h
    simp only [h2, pure, Except.pure, Except.ok.injEq]
    rw [← h]
    simp only [EncCfg.finish, hs, ↓reduceIte, Doc.obj.injEq]
    have hn1 : KeysNodup r₁ := by
      unfold KeysNodup at hn ⊢
      exact (encodeKeyed_keys _ _ es₁ r₁ h1).nodup hn
    exact (sortByKey_perm r₁ r₂ hperm hn1).symm

/-- every object the v2 writer model emits for a map has strictly ascending keys -/
theorem c09_map_keys_ascending (c : EncCfg) (hs : c.sortKeys = true) (fuel : Nat)
    (scope : List Bytes) (t : Ty) (es : List (Bytes × Value)) (hn : KeysNodup es) (kvs : List (Bytes × Doc))
    (h : encode c (fuel + 1) scope (.map t) (.map es) = .ok (.obj kvs)) : SortedKeys kvs := by
  simp only [encode, bind, Except.bind] at h
  cases h1 : encodeKeyed (fun k => c.excl.matchesB (scope ++ [k])) (fun k v => if c.excl.matchesB (scope ++ [k]) then encodeNoop c.env t v
      else encode c fuel (scope ++ [k]) t v) es with
  | error e => simp [h1] at h
  | ok r =>
    simp only [h1, pure, Except.pure, Except.ok.injEq, EncCfg.finish, hs, ↓reduceIte, Doc.obj.injEq] at h
    rw [← h]
    apply sortByKey_sorted
    unfold KeysNodup at hn ⊢
    exact (encodeKeyed_keys _ _ es r h1).nodup hn

/-! non-vacuity -/
example : sortByKey [(([98] : Bytes), 1), ([97], 2), ([66], 3), ([97, 0], 4)]
    = [([66], 3), ([97], 2), ([97, 0], 4), ([98], 1)] := by decide
example : KeysNodup [(([98] : Bytes), 1), ([97], 2), ([66], 3), ([97, 0], 4)] := by unfold KeysNodup; decide

/-! ## Equal values encode identically

`valueEqZ` is the generated `Equals` (`Model/GenEquals.lean`, tied to the generated code by the
`geq` correspondence op) with "and the two do not differ in the sign of a zero" at the float
leaves. `ValOK` says the value is a Go value: integers and float bit patterns fit their width,
maps have distinct keys. -/

/-- the premise is Equal-and-more: it implies the generated `Equals` -/
theorem c09_equalZ_implies_equal (env : Env) (f : Nat) (ty : Ty) (a b : Value) (ha : ValOK a) (hb : ValOK b)
    (h : valueEqZ env f ty a b = true) : valueEq env f ty a b = true :=
  valueEqZ_valueEq env f ty a b (mapsOK_of_valOK a ha) (mapsOK_of_valOK b hb) h

/-- and what it adds is exactly the zero-sign case: floats that are `==` but differ in their bit
pattern are both zeros -/
theorem c09_equal_floats_differ_only_in_zero_sign :
    (∀ a b : UInt32, Equals.floatEq32 a b = true → a ≠ b → Equals.isZero32 a = true ∧ Equals.isZero32 b = true) ∧
    (∀ a b : UInt64, Equals.floatEq64 a b = true → a ≠ b → Equals.isZero64 a = true ∧ Equals.isZero64 b = true) :=
  ⟨floatEq32_bits, floatEq64_bits⟩

/-- **Equal values that do not differ in the sign of a zero serialize to the same document** —
every schema, every type, every nesting depth, any exclusion spec and writer scope; map entries
may be enumerated in any order on either side, record fields may have been set in any order. The
document is what every renderer (JSON compact/pretty, ROR2 path/query/header) is a function of. -/
theorem c09_equal_values_encode_identically (c : EncCfg) (hs : c.sortKeys = true) (f : Nat)
    (scope : List Bytes) (ty : Ty) (a b : Value) (d : Doc) (ha : ValOK a) (hb : ValOK b)
    (he : valueEqZ c.env f ty a b = true) (h : encode c f scope ty a = .ok d) :
    encode c f scope ty b = .ok d :=
  encCong c hs f scope ty a b d ha hb he h

/-- **one value, one document**: the writer model's depth budget is not part of the result — a
document produced at some budget is produced at every larger one (the Go writer has no budget) -/
theorem c09_encoding_independent_of_budget (c : EncCfg) (f g : Nat) (hfg : f ≤ g) (scope : List Bytes)
    (ty : Ty) (v : Value) (d : Doc) (h : encode c f scope ty v = .ok d) :
    encode c g scope ty v = .ok d :=
  encode_fuel_mono c f g hfg scope ty v d h

/-- hence any two successful evaluations of the writer on one value agree -/
theorem c09_encoding_unique (c : EncCfg) (f g : Nat) (scope : List Bytes) (ty : Ty) (v : Value)
    (d₁ d₂ : Doc) (h₁ : encode c f scope ty v = .ok d₁) (h₂ : encode c g scope ty v = .ok d₂) :
    d₁ = d₂ := by
  rcases Nat.le_total f g with hfg | hgf
  · have := encode_fuel_mono c f g hfg scope ty v d₁ h₁
    rw [h₂] at this; exact (Except.ok.inj this).symm
  · have := encode_fuel_mono c g f hgf scope ty v d₂ h₂
    rw [h₁] at this; exact Except.ok.inj this

/-- the depth budgets of the two models are independent artefacts: equality judged at any budget
`f` gives the same document at any writer budget `g ≥ f` -/
theorem c09_equal_values_encode_identically_any_fuel (c : EncCfg) (hs : c.sortKeys = true) (f g : Nat)
    (hfg : f ≤ g) (scope : List Bytes) (ty : Ty) (a b : Value) (d : Doc) (ha : ValOK a) (hb : ValOK b)
    (he : valueEqZ c.env f ty a b = true) (h : encode c g scope ty a = .ok d) :
    encode c g scope ty b = .ok d :=
  encCong c hs g scope ty a b d ha hb
    (valueEqZ_fuel_mono c.env f g hfg ty a b (mapsOK_of_valOK a ha) (mapsOK_of_valOK b hb) he) h

/-- hence byte-identical output, whatever the renderer -/
theorem c09_equal_values_same_bytes {β : Type} (render : Doc → β) (c : EncCfg) (hs : c.sortKeys = true)
    (f : Nat) (scope : List Bytes) (ty : Ty) (a b : Value) (d : Doc) (ha : ValOK a) (hb : ValOK b)
    (he : valueEqZ c.env f ty a b = true) (h : encode c f scope ty a = .ok d) :
    (encode c f scope ty b).toOption.map render = some (render d) := by
  rw [c09_equal_values_encode_identically c hs f scope ty a b d ha hb he h]; rfl

/-- two representations of one value: fields set in another order, map entries enumerated in
another order at two levels -/
def exEnv9 : Env :=
  [("E", .enum [[65], [66]]),
   ("B", .record [] [⟨[120], .prim .f32, false, none⟩]),
   ("R", .record ["B"] [⟨[114], .prim .i32, false, none⟩, ⟨[111], .prim .str, true, none⟩,
        ⟨[109], .map (.map (.prim .f64)), false, none⟩, ⟨[101], .ref "E", false, none⟩])]
def exA9 : Value :=
  .record [([120], .f32 0x80000000), ([114], .i32 (-5)),
    ([109], .map [([122], .map [([97], .f64 0), ([98], .f64 1)]), ([], .map [])]), ([101], .enum 2)]
def exB9 : Value :=
  .record [([101], .enum 2), ([114], .i32 (-5)), ([120], .f32 0x80000000),
    ([109], .map [([], .map []), ([122], .map [([98], .f64 1), ([97], .f64 0)])])]
example : valueEqZ exEnv9 5 (.ref "R") exA9 exB9 = true := by decide
example : ValOK exA9 ∧ ValOK exB9 := by
  simp [exA9, exB9, ValOK, ValOKKvs, KeysNodup]
example : ∃ d, encode ⟨exEnv9, .empty, true⟩ 5 [] (.ref "R") exA9 = .ok d ∧
    encode ⟨exEnv9, .empty, true⟩ 5 [] (.ref "R") exB9 = .ok d := ⟨_, rfl, rfl⟩
/-- a zero of the other sign is Equal but not `valueEqZ`, and is written differently -/
example : valueEq exEnv9 2 (.prim .f64) (.f64 0) (.f64 0x8000000000000000) = true ∧
    valueEqZ exEnv9 2 (.prim .f64) (.f64 0) (.f64 0x8000000000000000) = false := by decide

end Restli.Codec
