import Restli.Proofs.Equals
import Restli.Proofs.GenEquals
import Restli.Proofs.GenEqualsFuel
/-! # C10 — Equals / hash contract, library level

Scope of this file: the hand-written library the generated code calls — `fnv1a/hasher.go`
(`Model/Fnv.lean`) and `restli/equals/*.go` (`Model/Equals.lean`) — for **both** module generations
(the files are identical; the hasher constants come from `Restli.Gen`/`Restli.GenRoot` through
`Fnv.Params`, and every theorem holds for all `Params`). The generated-record level (Equals /
ComputeHash of schema-derived types, `Model/GenEquals.lean`: every schema, every type, every
nesting depth) is built on top of these lemmas by instantiating the abstract element equality `eq`
and the abstract hasher `hasher` with the induction hypothesis — see the last section,
`c10_generated_*`.

Reusable lemmas for the schema level (abstract element type, laws as *membership-restricted*
hypotheses so that they can be discharged by an induction hypothesis about sub-values):

* equality:  `c10_array_equals_{refl,symm,trans}`, `c10_map_equals_{refl,symm,trans}`,
  `c10_pointer_equals_{refl,symm,trans}`, `c10_map_equals_perm_invariant`,
  `c10_array_equals_iff_pointwise`, `c10_map_equals_iff_same_keys_equal_values`,
  `c10_pointer_equals_iff_presence_and_value`;
* hash:      `c10_addMap_perm_invariant`, `c10_array_equal_implies_same_hash`,
  `c10_hashable_array_equal_implies_same_hash`, `c10_map_equal_implies_same_hash`,
  `c10_hashable_map_equal_implies_same_hash`, `c10_pointer_equal_implies_same_hash`,
  `c10_bytes_equal_implies_same_hash`, and for the primitive leaves `c10_prim_equal_implies_same_hash`.

Guards. Only `Prim.nanFree` (NaN ≠ NaN, so Equals is not reflexive on NaN — by IEEE, not a
defect). The former guard `sameZeroSigns` (F15: `+0 == −0` but the hash was taken over the bit
pattern) is gone: since `fix: hash -0.0 like +0.0` the hasher normalises zero, and
`c10_prim_*_equal_implies_same_hash` hold at full strength. Where a schema-level proof needs a
positional side condition `g`, instantiate the abstract lemmas with `fun a b => eq a b && g a b`. -/
namespace Restli.Equals
open Restli Restli.EqualsSpec Restli.Fnv

/-! ## hash side -/

/-- The hash of a map does not depend on the order in which the runtime iterates over it: any
permutation of the entries gives the same `AddMap` result, for every hasher and start value. -/
theorem c10_addMap_perm_invariant {α : Type} (P : Params) (hasher : Hash → α → Hash) (h : Hash)
    (m m' : List (Bytes × α)) (hp : m.Perm m') : addMap P hasher h m = addMap P hasher h m' :=
  addMap_perm P hasher h hp

/-- A hash is a function of the value alone. In the model this is true *by construction* (the
hash functions are Lean functions of the value and never receive an address, a clock or a seed),
so the statement is trivial; the content is in the correspondence run, which compares hash
*values* computed by the real code in different processes and on fresh copies with the model.
Stated for two pointers with different addresses and the same pointee. -/
theorem c10_hash_pure {α : Type} (hasher : Hash → α → Hash) (h : Hash) (p q : Ptr α)
    (hv : p.val = q.val) : addOpt hasher h (some p.val) = addOpt hasher h (some q.val) := by
  rw [hv]

/-! ## Equals is an equivalence (on NaN-free values), order- and nil/empty-insensitive -/

/-- `GenericArray` is reflexive on sequences whose elements equal themselves (no NaN). -/
theorem c10_array_equals_refl {α : Type} (eq : α → α → Bool) (l : List α)
    (h : ∀ a ∈ l, eq a a = true) : genericArray eq l l = true :=
  (genericArray_iff eq l l).2 (ArrRel.refl_on l h)

/-- `GenericArray` is symmetric when the element equality is (on the elements involved). -/
theorem c10_array_equals_symm {α : Type} (eq : α → α → Bool) (l r : List α)
    (hs : ∀ a ∈ l, ∀ b ∈ r, eq a b = true → eq b a = true)
    (h : genericArray eq l r = true) : genericArray eq r l = true :=
  (genericArray_iff eq r l).2 (((genericArray_iff eq l r).1 h).symm_on hs)

/-- `GenericArray` is transitive when the element equality is (on the elements involved). -/
theorem c10_array_equals_trans {α : Type} (eq : α → α → Bool) (l m r : List α)
    (ht : ∀ a ∈ l, ∀ b ∈ m, ∀ c ∈ r, eq a b = true → eq b c = true → eq a c = true)
    (h₁ : genericArray eq l m = true) (h₂ : genericArray eq m r = true) :
    genericArray eq l r = true :=
  (genericArray_iff eq l r).2
    (((genericArray_iff eq l m).1 h₁).trans_on ((genericArray_iff eq m r).1 h₂) ht)

/-- `GenericMap` is reflexive on maps whose values equal themselves. -/
theorem c10_map_equals_refl {α : Type} (eq : α → α → Bool) (m : List (Bytes × α))
    (hn : KeysNodup m) (h : ∀ kv ∈ m, eq kv.2 kv.2 = true) : genericMap eq m m = true :=
  (genericMap_iff eq m m hn hn).2 (MapRel.refl_on m h)

/-- `GenericMap` is symmetric (this needs the pigeonhole argument: the code only checks
`len(left) == len(right)` and `left ⊆ right`). -/
theorem c10_map_equals_symm {α : Type} (eq : α → α → Bool) (l r : List (Bytes × α))
    (hl : KeysNodup l) (hr : KeysNodup r)
    (hs : ∀ a ∈ l, ∀ b ∈ r, eq a.2 b.2 = true → eq b.2 a.2 = true)
    (h : genericMap eq l r = true) : genericMap eq r l = true :=
  (genericMap_iff eq r l hr hl).2 (((genericMap_iff eq l r hl hr).1 h).symm_on hs)

/-- `GenericMap` is transitive. -/
theorem c10_map_equals_trans {α : Type} (eq : α → α → Bool) (l m r : List (Bytes × α))
    (hl : KeysNodup l) (hm : KeysNodup m) (hr : KeysNodup r)
    (ht : ∀ a ∈ l, ∀ b ∈ m, ∀ c ∈ r, eq a.2 b.2 = true → eq b.2 c.2 = true → eq a.2 c.2 = true)
    (h₁ : genericMap eq l m = true) (h₂ : genericMap eq m r = true) :
    genericMap eq l r = true :=
  (genericMap_iff eq l r hl hr).2
    (((genericMap_iff eq l m hl hm).1 h₁).trans_on ((genericMap_iff eq m r hm hr).1 h₂) ht)

/-- The verdict of `GenericMap` is the same for every iteration / insertion order of either map. -/
theorem c10_map_equals_perm_invariant {α : Type} (eq : α → α → Bool)
    (l l' r r' : List (Bytes × α)) (hl : l.Perm l') (hr : r.Perm r')
    (hnl : KeysNodup l) (hnr : KeysNodup r) : genericMap eq l r = genericMap eq l' r' :=
  genericMap_perm eq hl hr hnl hnr

/-- `GenericPointer` is reflexive **unconditionally**: identical pointers are equal without
`equals` being called (so a pointer to NaN equals itself, but not a copy of itself). -/
theorem c10_pointer_equals_refl {α : Type} (eq : α → α → Bool) (p : Option (Ptr α)) :
    genericPointer eq p p = true := by
  cases p <;> simp [genericPointer]

/-- `GenericPointer` is symmetric when the pointee equality is. -/
theorem c10_pointer_equals_symm {α : Type} (eq : α → α → Bool) (p q : Option (Ptr α))
    (hs : ∀ a ∈ p, ∀ b ∈ q, eq a.val b.val = true → eq b.val a.val = true)
    (h : genericPointer eq p q = true) : genericPointer eq q p = true := by
  cases p with
  | none => cases q <;> simp_all [genericPointer]
  | some a =>
    cases q with
    | none => simp [genericPointer] at h
    | some b =>
      simp only [genericPointer] at h ⊢
      by_cases hab : a.addr = b.addr
      · simp [hab]
      · have hba : ¬ b.addr = a.addr := fun e => hab e.symm
        simp only [hab, hba, ↓reduceIte] at h ⊢
        exact hs a rfl b rfl h

/-- `GenericPointer` is transitive when the pointee equality is; pointers into one heap
(`Coherent`: same address ⇒ same pointee). -/
theorem c10_pointer_equals_trans {α : Type} (eq : α → α → Bool) (p q r : Option (Ptr α))
    (hpq : ∀ a ∈ p, ∀ b ∈ q, Ptr.Coherent a b) (hqr : ∀ b ∈ q, ∀ c ∈ r, Ptr.Coherent b c)
    (ht : ∀ a ∈ p, ∀ b ∈ q, ∀ c ∈ r, eq a.val b.val = true → eq b.val c.val = true →
      eq a.val c.val = true)
    (h₁ : genericPointer eq p q = true) (h₂ : genericPointer eq q r = true) :
    genericPointer eq p r = true := by
  cases p with
  | none => cases q <;> cases r <;> simp_all [genericPointer]
  | some a =>
    cases q with
    | none => simp [genericPointer] at h₁
    | some b =>
      cases r with
      | none => simp [genericPointer] at h₂
      | some c =>
        simp only [genericPointer] at h₁ h₂ ⊢
        by_cases hac : a.addr = c.addr
        · simp [hac]
        · simp only [hac, ↓reduceIte]
          by_cases hab : a.addr = b.addr
          · have hv : a.val = b.val := hpq a rfl b rfl hab
            have hbc : ¬ b.addr = c.addr := fun e => hac (hab.trans e)
            simp only [hbc, ↓reduceIte] at h₂
            rw [hv]; exact h₂
          · simp only [hab, ↓reduceIte] at h₁
            by_cases hbc : b.addr = c.addr
            · have hv : b.val = c.val := hqr b rfl c rfl hbc
              rw [← hv]; exact h₁
            · simp only [hbc, ↓reduceIte] at h₂
              exact ht a rfl b rfl c rfl h₁ h₂

/-- With a reflexive pointee equality the address shortcut is invisible: `GenericPointer` is
"both nil, or both non-nil and equal pointees". -/
theorem c10_pointer_equals_iff_presence_and_value {α : Type} (eq : α → α → Bool)
    (p q : Option (Ptr α)) (hc : ∀ a ∈ p, ∀ b ∈ q, Ptr.Coherent a b)
    (hr : ∀ a ∈ p, eq a.val a.val = true) :
    genericPointer eq p q = true ↔ OptRel eq (p.map Ptr.val) (q.map Ptr.val) := by
  rw [genericPointer_eq_optEq eq p q hc hr, optEq_iff]

/-- nil and empty collections are Equal — arrays, maps and byte strings — and hash alike;
whereas a nil *pointer* and a pointer to an empty collection differ (optional presence). This is
what the helpers really do (confirmed on the real code by the harness). -/
theorem c10_nil_empty_equal {α : Type} (eq : α → α → Bool) (P : Params) (hasher : Hash → α → Hash)
    (h : Hash) (addr : Nat) :
    objectArray eq .nil (.mk []) = true ∧ objectArray eq (.mk []) .nil = true ∧
    objectMap eq .nil (.mk []) = true ∧ objectMap eq (.mk []) .nil = true ∧
    bytes .nil (.mk []) = true ∧ bytes (.mk []) .nil = true ∧
    addArray hasher h (GoSlice.nil : GoSlice α).elems = addArray hasher h (GoSlice.mk []).elems ∧
    addMap P hasher h (GoMap.nil : GoMap α).elems = addMap P hasher h (GoMap.mk []).elems ∧
    addBytes P h (GoSlice.nil : GoSlice UInt8).elems = addBytes P h (GoSlice.mk []).elems ∧
    genericArrayPointer eq none (some ⟨addr, .mk []⟩) = false ∧
    genericMapPointer eq none (some ⟨addr, .mk []⟩) = false := by
  simp [objectArray, objectMap, bytes, bytesEq, genericArray, genericMap, arrayLoop, GoSlice.elems,
    GoMap.elems, genericArrayPointer, genericMapPointer, genericPointer]

/-! ## Equals distinguishes: it decides exactly the specification's relations -/

/-- `GenericArray` holds iff the two sequences have the same length and are equal at every
position — a difference in any element, or in length, is seen. Never panics. -/
theorem c10_array_equals_iff_pointwise {α : Type} (eq : α → α → Bool) (l r : List α) :
    (genericArray eq l r = true ↔ ArrRel eq l r) ∧
    genericArrayP eq l r = some (genericArray eq l r) :=
  ⟨genericArray_iff eq l r, genericArrayP_eq eq l r⟩

/-- `GenericMap` holds iff the two maps have the same key set and equal values under every key. -/
theorem c10_map_equals_iff_same_keys_equal_values {α : Type} (eq : α → α → Bool)
    (l r : List (Bytes × α)) (hl : KeysNodup l) (hr : KeysNodup r) :
    genericMap eq l r = true ↔ MapRel eq l r :=
  genericMap_iff eq l r hl hr

/-- `equals.Bytes` is byte-sequence identity. -/
theorem c10_bytes_equals_iff (l r : GoSlice UInt8) : bytes l r = true ↔ l.elems = r.elems := by
  simp [bytes, bytesEq]

/-- Go `==` on the comparable primitives is an equivalence on NaN-free values. -/
theorem c10_prim_eq_equivalence :
    (∀ a : Prim, a.nanFree = true → Prim.eq a a = true) ∧
    (∀ a b : Prim, Prim.eq a b = Prim.eq b a) ∧
    (∀ a b c : Prim, Prim.eq a b = true → Prim.eq b c = true → Prim.eq a c = true) :=
  ⟨Prim.eq_refl, Prim.eq_symm, Prim.eq_trans⟩

/-! ## Equal ⇒ same hash -/

/-- Equal arrays hash alike whenever Equal elements do (`AddArray` with any hasher). -/
theorem c10_array_equal_implies_same_hash {α : Type} (eq : α → α → Bool) (hasher : Hash → α → Hash)
    (l r : List α) (hc : ∀ a ∈ l, ∀ b ∈ r, eq a b = true → ∀ h, hasher h a = hasher h b)
    (h : genericArray eq l r = true) (h0 : Hash) : addArray hasher h0 l = addArray hasher h0 r :=
  ((genericArray_iff eq l r).1 h).addArray_eq hasher hc h0

/-- `ObjectArray` + `AddHashableArray`: Equal arrays of hashable objects hash alike whenever
Equal objects have equal `ComputeHash`. -/
theorem c10_hashable_array_equal_implies_same_hash {α : Type} (P : Params) (eq : α → α → Bool)
    (computeHash : α → Hash) (l r : List α)
    (hc : ∀ a ∈ l, ∀ b ∈ r, eq a b = true → computeHash a = computeHash b)
    (h : genericArray eq l r = true) (h0 : Hash) :
    addHashableArray P computeHash h0 l = addHashableArray P computeHash h0 r :=
  c10_array_equal_implies_same_hash eq _ l r (fun a ha b hb e h => by rw [hc a ha b hb e]) h h0

/-- Equal maps hash alike whenever Equal values do — in whatever order either map is iterated. -/
theorem c10_map_equal_implies_same_hash {α : Type} (P : Params) (eq : α → α → Bool)
    (hasher : Hash → α → Hash) (l r : List (Bytes × α)) (hl : KeysNodup l) (hr : KeysNodup r)
    (hc : ∀ a ∈ l, ∀ b ∈ r, eq a.2 b.2 = true → ∀ h, hasher h a.2 = hasher h b.2)
    (h : genericMap eq l r = true) (h0 : Hash) : addMap P hasher h0 l = addMap P hasher h0 r :=
  ((genericMap_iff eq l r hl hr).1 h).addMap_eq hl hr P hasher hc h0

/-- `ObjectMap` + `AddHashableMap`. -/
theorem c10_hashable_map_equal_implies_same_hash {α : Type} (P : Params) (eq : α → α → Bool)
    (computeHash : α → Hash) (l r : List (Bytes × α)) (hl : KeysNodup l) (hr : KeysNodup r)
    (hc : ∀ a ∈ l, ∀ b ∈ r, eq a.2 b.2 = true → computeHash a.2 = computeHash b.2)
    (h : genericMap eq l r = true) (h0 : Hash) :
    addHashableMap P computeHash h0 l = addHashableMap P computeHash h0 r :=
  c10_map_equal_implies_same_hash P eq _ l r hl hr (fun a ha b hb e h => by rw [hc a ha b hb e]) h h0

/-- `equals.Bytes` + `AddBytes`. -/
theorem c10_bytes_equal_implies_same_hash (P : Params) (l r : GoSlice UInt8) (h : bytes l r = true)
    (h0 : Hash) : addBytes P h0 l.elems = addBytes P h0 r.elems := by
  rw [(c10_bytes_equals_iff l r).1 h]

/-- Equal optional (pointer) fields hash alike: both skipped when nil, pointee hashed otherwise. -/
theorem c10_pointer_equal_implies_same_hash {α : Type} (eq : α → α → Bool) (hasher : Hash → α → Hash)
    (p q : Option (Ptr α)) (hcoh : ∀ a ∈ p, ∀ b ∈ q, Ptr.Coherent a b)
    (hc : ∀ a ∈ p, ∀ b ∈ q, eq a.val b.val = true → ∀ h, hasher h a.val = hasher h b.val)
    (h : genericPointer eq p q = true) (h0 : Hash) :
    addOpt hasher h0 (p.map Ptr.val) = addOpt hasher h0 (q.map Ptr.val) := by
  cases p with
  | none => cases q <;> simp_all [genericPointer]
  | some a =>
    cases q with
    | none => simp [genericPointer] at h
    | some b =>
      simp only [genericPointer] at h
      simp only [Option.map_some, addOpt]
      by_cases hab : a.addr = b.addr
      · rw [hcoh a rfl b rfl hab]
      · simp only [hab, ↓reduceIte] at h
        exact hc a rfl b rfl h h0

/-- Go `==`-equal primitives hash alike into any running hash: ints, bools and strings because
they are identical, floats because `AddFloat32/64` normalise `−0` to `+0` before taking the bits
(and NaN is `==` to nothing). This is the element-level `hash_congr` of the comparable types. -/
theorem c10_prim_equal_implies_same_hash (P : Params) (a b : Prim) (h : Prim.eq a b = true)
    (h0 : Hash) : Prim.hashInto P h0 a = Prim.hashInto P h0 b :=
  Prim.hashInto_congr P a b h h0

/-- **Full strength, no guard**: `Comparable*`-Equal arrays of primitives hash alike (`AddArray`
with the primitive hasher), for all hasher constants — `[+0.0]` and `[−0.0]` included. -/
theorem c10_prim_array_equal_implies_same_hash (P : Params) (l r : List Prim) (h0 : Hash)
    (h : genericArray Prim.eq l r = true) :
    addArray (Prim.hashInto P) h0 l = addArray (Prim.hashInto P) h0 r :=
  c10_array_equal_implies_same_hash Prim.eq (Prim.hashInto P) l r
    (fun a _ b _ he h => Prim.hashInto_congr P a b he h) h h0

/-- **Full strength, no guard**: `ComparableMap`-Equal maps of primitives hash alike. -/
theorem c10_prim_map_equal_implies_same_hash (P : Params) (l r : List (Bytes × Prim)) (h0 : Hash)
    (hl : KeysNodup l) (hr : KeysNodup r) (h : genericMap Prim.eq l r = true) :
    addMap P (Prim.hashInto P) h0 l = addMap P (Prim.hashInto P) h0 r :=
  c10_map_equal_implies_same_hash P Prim.eq (Prim.hashInto P) l r hl hr
    (fun a _ b _ he h => Prim.hashInto_congr P a.2 b.2 he h) h h0

/-- **Full strength, no guard**: `ComparablePointer`-Equal optional primitives hash alike. -/
theorem c10_prim_pointer_equal_implies_same_hash (P : Params) (p q : Option (Ptr Prim)) (h0 : Hash)
    (hcoh : ∀ a ∈ p, ∀ b ∈ q, Ptr.Coherent a b) (h : genericPointer Prim.eq p q = true) :
    addOpt (Prim.hashInto P) h0 (p.map Ptr.val) = addOpt (Prim.hashInto P) h0 (q.map Ptr.val) :=
  c10_pointer_equal_implies_same_hash Prim.eq (Prim.hashInto P) p q hcoh
    (fun a _ b _ he h => Prim.hashInto_congr P a.val b.val he h) h h0

/-! ## Non-vacuity -/

/-- a map in two insertion orders: Equal, same hash -/
example : genericMap Prim.eq [([97], .i32 1), ([98], .f64 0x3FF0000000000000)]
    [([98], .f64 0x3FF0000000000000), ([97], .i32 1)] = true := by decide
example : addMap paramsV2 (Prim.hashInto paramsV2) (newHash paramsV2)
      [([97], .i32 1), ([98], .i32 2), ([], .i32 0)]
    = addMap paramsV2 (Prim.hashInto paramsV2) (newHash paramsV2)
      [([], .i32 0), ([98], .i32 2), ([97], .i32 1)] := by decide
example : KeysNodup [([97], Prim.i32 1), ([98], .i32 2)] := by
  simp [KeysNodup]
/-- the former counter-example: `[+0.0]` and `[−0.0]` are Equal and now hash alike -/
example : genericArray Prim.eq [.f64 0] [.f64 0x8000000000000000] = true := by decide
example : addArray (Prim.hashInto paramsV2) (newHash paramsV2) [.f64 0]
    = addArray (Prim.hashInto paramsV2) (newHash paramsV2) [.f64 0x8000000000000000] := by decide
example : Prim.hashInto paramsV2 (newHash paramsV2) (.f32 0x80000000)
    = Prim.hashInto paramsV2 (newHash paramsV2) (.f32 0) := by decide
/-- NaN: not reflexive by value, reflexive by pointer identity -/
example : genericArray Prim.eq [.f64 0x7FF8000000000001] [.f64 0x7FF8000000000001] = false := by decide
example : genericPointer Prim.eq (some ⟨1, .f64 0x7FF8000000000001⟩) (some ⟨1, .f64 0x7FF8000000000001⟩) = true := by decide
example : genericPointer Prim.eq (some ⟨1, .f64 0x7FF8000000000001⟩) (some ⟨2, .f64 0x7FF8000000000001⟩) = false := by decide
/-- differing element / missing key / optional presence are seen -/
example : genericArray Prim.eq [.i32 1, .i32 2] [.i32 1, .i32 3] = false := by decide
example : genericMap Prim.eq [([97], .i32 1)] [([98], .i32 1)] = false := by decide
example : genericPointer Prim.eq none (some ⟨1, .i32 0⟩) = false := by decide

/-! ## The generated code: every schema, every type, every pair of values

`Codec.valueEq` / `Codec.hashInto` / `Codec.computeHash` are the generated `Equals` and
`ComputeHash` of schema-derived types (records with flattened includes, unions, enums, fixed,
typerefs, arrays and maps at any nesting), tied to the real generated code by the `geq`/`ghash`
driver ops. `MapsOK` says only that a Go map has distinct keys, at every depth. -/
section Generated
open Restli.Codec

/-- **Equals ⇒ same hash, for every schema**: two values the generated `Equals` accepts are added
to any running hash identically — any environment, any type, any depth of nesting. -/
theorem c10_generated_equal_implies_same_hash (env : Env) (P : Params) (f : Nat) (ty : Ty) (a b : Value)
    (ha : MapsOK a) (hb : MapsOK b) (h : valueEq env f ty a b = true) (h0 : Hash) :
    hashInto env P f ty h0 a = hashInto env P f ty h0 b :=
  hashCong env P f ty a b ha hb h h0

/-- the same at the method level: `a.Equals(b)` ⇒ `a.ComputeHash() == b.ComputeHash()` for every
named type of every schema -/
theorem c10_generated_equal_implies_same_ComputeHash (env : Env) (P : Params) (f : Nat) (n : TName)
    (a b : Value) (ha : MapsOK a) (hb : MapsOK b) (h : valueEq env (f + 1) (.ref n) a b = true) :
    computeHash env P f n a = computeHash env P f n b :=
  namedEq_hash env P f (hashCong env P f) n a b ha hb (by simpa [valueEq] using h)

/-- generated `Equals` is symmetric -/
theorem c10_generated_equals_symm (env : Env) (f : Nat) (ty : Ty) (a b : Value)
    (ha : MapsOK a) (hb : MapsOK b) : valueEq env f ty a b = valueEq env f ty b a := by
  apply Bool.eq_iff_iff.2
  exact ⟨eqSymm env f ty a b ha hb, eqSymm env f ty b a hb ha⟩

/-- generated `Equals` is transitive -/
theorem c10_generated_equals_trans (env : Env) (f : Nat) (ty : Ty) (a b c : Value)
    (ha : MapsOK a) (hb : MapsOK b) (hc : MapsOK c)
    (h₁ : valueEq env f ty a b = true) (h₂ : valueEq env f ty b c = true) :
    valueEq env f ty a c = true :=
  eqTrans env f ty a b c ha hb hc h₁ h₂

/-- the use callers make of it: different `ComputeHash` results prove the values are not Equal -/
theorem c10_generated_hash_differs_implies_not_equal (env : Env) (P : Params) (f : Nat) (n : TName)
    (a b : Value) (ha : MapsOK a) (hb : MapsOK b)
    (h : computeHash env P f n a ≠ computeHash env P f n b) :
    valueEq env (f + 1) (.ref n) a b = false := by
  cases he : valueEq env (f + 1) (.ref n) a b with
  | false => rfl
  | true => exact absurd (c10_generated_equal_implies_same_ComputeHash env P f n a b ha hb he) h

/-- generated `Equals` is a partial equivalence: whatever is Equal to something is Equal to itself.
Plain reflexivity is false — a NaN field is not `==` itself in Go (`example` below) — and this is
the part of it that holds for every schema and value. -/
theorem c10_generated_equals_refl_on_domain (env : Env) (f : Nat) (ty : Ty) (a b : Value)
    (ha : MapsOK a) (hb : MapsOK b) (h : valueEq env f ty a b = true) :
    valueEq env f ty a a = true ∧ valueEq env f ty b b = true :=
  ⟨eqTrans env f ty a b a ha hb ha h (eqSymm env f ty a b ha hb h),
   eqTrans env f ty b a b hb ha hb (eqSymm env f ty a b ha hb h) h⟩

/-- the counter-witness to plain reflexivity: a record holding a NaN is not Equal to itself -/
theorem c10_generated_equals_not_refl_cex :
    valueEq [("B", .record [] [⟨[120], .prim .f64, false, none⟩])] 3 (.ref "B")
      (.record [([120], .f64 0x7FF8000000000001)]) (.record [([120], .f64 0x7FF8000000000001)]) = false := by
  decide

/-- the depth budget of the model is not part of the verdict: a pair the generated `Equals` accepts
at some budget is accepted at every larger one (the Go code has no budget at all) -/
theorem c10_generated_equals_fuel_irrelevant (env : Env) (f g : Nat) (hfg : f ≤ g) (ty : Ty) (a b : Value)
    (ha : MapsOK a) (hb : MapsOK b) (h : valueEq env f ty a b = true) :
    valueEq env g ty a b = true :=
  valueEq_fuel_mono env f g hfg ty a b ha hb h

/-- hence Equals ⇒ same hash also when the two are evaluated at different budgets -/
theorem c10_generated_equal_implies_same_hash_any_fuel (env : Env) (P : Params) (f g : Nat) (hfg : f ≤ g)
    (ty : Ty) (a b : Value) (ha : MapsOK a) (hb : MapsOK b) (h : valueEq env f ty a b = true) (h0 : Hash) :
    hashInto env P g ty h0 a = hashInto env P g ty h0 b :=
  hashCong env P g ty a b ha hb (valueEq_fuel_mono env f g hfg ty a b ha hb h) h0

/-- a schema with an include, a union, an enum and a map of arrays of doubles -/
def exEnvG : Env :=
  [("E", .enum [[65], [66]]),
   ("U", .union false [([97], .prim .i32), ([98], .prim .str)]),
   ("B", .record [] [⟨[120], .prim .f32, false, none⟩]),
   ("R", .record ["B"] [⟨[114], .prim .i32, false, none⟩, ⟨[111], .prim .str, true, none⟩,
        ⟨[117], .ref "U", false, none⟩, ⟨[109], .map (.arr (.prim .f64)), false, none⟩,
        ⟨[101], .ref "E", false, none⟩])]
/-- two representations of one value: map entries in another order, `+0`/`−0` -/
def exA : Value :=
  .record [([120], .f32 0), ([114], .i32 (-5)), ([117], .union [([98], .str [40])]),
    ([109], .map [([122], .arr [.f64 0, .f64 1]), ([], .arr [])]), ([101], .enum 2)]
def exB : Value :=
  .record [([101], .enum 2), ([120], .f32 0x80000000), ([114], .i32 (-5)), ([117], .union [([98], .str [40])]),
    ([109], .map [([], .arr []), ([122], .arr [.f64 0x8000000000000000, .f64 1])])]
example : valueEq exEnvG 5 (.ref "R") exA exB = true := by decide
example : MapsOK exA ∧ MapsOK exB := by
  simp [exA, exB, MapsOK, MapsOKKvs, MapsOKList, KeysNodup]
example : computeHash exEnvG paramsV2 4 "R" exA = computeHash exEnvG paramsV2 4 "R" exB :=
  c10_generated_equal_implies_same_ComputeHash exEnvG paramsV2 4 "R" exA exB
    (by simp [exA, MapsOK, MapsOKKvs, MapsOKList, KeysNodup])
    (by simp [exB, MapsOK, MapsOKKvs, MapsOKList, KeysNodup]) (by decide)
example : valueEq exEnvG 9 (.ref "R") exA exB = true :=
  c10_generated_equals_fuel_irrelevant exEnvG 5 9 (by decide) _ exA exB
    (by simp [exA, MapsOK, MapsOKKvs, MapsOKList, KeysNodup])
    (by simp [exB, MapsOK, MapsOKKvs, MapsOKList, KeysNodup]) (by decide)
/-- and a differing nested element is seen -/
example : valueEq exEnvG 5 (.ref "R") exA
    (.record [([120], .f32 0), ([114], .i32 (-5)), ([117], .union [([98], .str [40])]),
      ([109], .map [([122], .arr [.f64 0, .f64 2]), ([], .arr [])]), ([101], .enum 2)]) = false := by decide

end Generated

end Restli.Equals
