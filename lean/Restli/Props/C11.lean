import Restli.Model.Encode
import Restli.Model.Ror2Reader
import Restli.Model.TreeReader
import Restli.Proofs.Patch
/-! # C11 — schema validity constraints on encode and decode (unions, enums, fixed)

Statements about the generated marshalers/unmarshalers as modelled by `encode`, `readTy` (ROR2
cursor reader) and `treeRead` (JSON reader on a parsed document), for every schema, value and
input. Partial updates (`patch`/`$set`/`$delete`) are modelled in `Model/Patch.lean`; their
constraints are the last section. The round trip of partial updates in the patch shape is decided
on every run by correspondence and by the direct oracle, not by a theorem. -/
namespace Restli.Codec

/-- a union with two or more members set can never be encoded -/
theorem c11_union_two_members_rejected (c : EncCfg) (fuel : Nat) (scope : List Bytes) (n : TName)
    (hasNull : Bool) (members : List (Bytes × Ty)) (ms : List (Bytes × Value))
    (hd : c.env.find n = some (.union hasNull members)) (h : countSet ms members > 1) :
    encode c (fuel + 1) scope (.ref n) (.union ms) = .error .union := by
  simp [encode, hd, h]

/-- a non-nullable union with no member set can never be encoded -/
theorem c11_union_no_member_rejected (c : EncCfg) (fuel : Nat) (scope : List Bytes) (n : TName)
    (members : List (Bytes × Ty)) (ms : List (Bytes × Value))
    (hd : c.env.find n = some (.union false members)) (h : countSet ms members = 0) :
    encode c (fuel + 1) scope (.ref n) (.union ms) = .error .union := by
  simp [encode, hd, h]

/-- conversely, whenever a union encodes, exactly one member was set (or none, if nullable) -/
theorem c11_union_encodes_only_if_valid (c : EncCfg) (fuel : Nat) (scope : List Bytes) (n : TName)
    (hasNull : Bool) (members : List (Bytes × Ty)) (ms : List (Bytes × Value)) (d : Doc)
    (hd : c.env.find n = some (.union hasNull members))
    (h : encode c (fuel + 1) scope (.ref n) (.union ms) = .ok d) :
    countSet ms members = 1 ∨ (hasNull = true ∧ countSet ms members = 0) := by
  simp only [encode, hd] at h
  by_cases h1 : countSet ms members > 1
  · simp [h1] at h
  · by_cases h0 : countSet ms members = 0
    · cases hasNull with
      | false => simp [h0] at h
      | true => exact Or.inr ⟨rfl, h0⟩
    · exact Or.inl (by omega)

/-- an enum constant is written iff it is one of the declared symbols, and then as that symbol -/
theorem c11_enum_encode_iff (c : EncCfg) (fuel : Nat) (scope : List Bytes) (n : TName)
    (syms : List Bytes) (k : Int) (hd : c.env.find n = some (.enum syms)) (d : Doc) :
    encode c (fuel + 1) scope (.ref n) (.enum k) = .ok d ↔
      (1 ≤ k ∧ k ≤ syms.length ∧ ∃ s, syms[(k - 1).toNat]? = some s ∧ d = .str s) := by
  simp only [encode, hd]
  by_cases hk : 1 ≤ k ∧ k ≤ syms.length
  · simp only [hk, and_self, ↓reduceIte, true_and]
    cases hs : syms[(k - 1).toNat]? with
    | none => simp
    | some s => simp [eq_comm]
  · simp only [hk, ↓reduceIte]
    constructor
    · intro h; cases h
    · rintro ⟨a, b, _⟩; exact absurd ⟨a, b⟩ hk

/-- an out-of-range enum constant (including the `$UNKNOWN` value 0) is an encode error -/
theorem c11_enum_out_of_range_rejected (c : EncCfg) (fuel : Nat) (scope : List Bytes) (n : TName)
    (syms : List Bytes) (k : Int) (hd : c.env.find n = some (.enum syms))
    (hk : k < 1 ∨ k > syms.length) :
    encode c (fuel + 1) scope (.ref n) (.enum k) = .error .enum := by
  have : ¬ (1 ≤ k ∧ k ≤ syms.length) := by omega
  simp [encode, hd, this]

theorem idxOf?_some_getElem {l : List Bytes} {b : Bytes} {i : Nat} (h : l.idxOf? b = some i) :
    l[i]? = some b := by
  induction l generalizing i with
  | nil => simp [List.idxOf?] at h
  | cons x xs ih =>
    simp only [List.idxOf?, List.findIdx?_cons] at h
    by_cases hx : (x == b) = true
    · simp only [hx, ↓reduceIte, Option.some.injEq] at h
      subst h
      have : x = b := by simpa using hx
      simp [this]
    · simp only [hx, Bool.false_eq_true, ↓reduceIte, Option.map_eq_some_iff] at h
      obtain ⟨j, hj, rfl⟩ := h
      have := ih (i := j) (by simpa [List.idxOf?] using hj)
      simpa using this

/-- ROR2: a symbol read from the wire becomes that symbol's constant or the `$UNKNOWN` value 0 —
never another declared symbol -/
theorem c11_enum_decode_never_another_symbol (c : RCfg) (fuel : Nat) (scope : List Seg) (n : TName)
    (syms : List Bytes) (hd : c.env.find n = some (.enum syms)) (s s' : RS) (v : Value)
    (h : readTy c (fuel + 1) scope (.ref n) s = .ok v s') :
    ∃ b s₁, readString c s = .ok b s₁ ∧
      (v = .enum 0 ∧ b ∉ syms ∨ ∃ i : Nat, v = .enum ((i : Int) + 1) ∧ syms[i]? = some b) := by
  simp only [readTy, hd] at h
  cases hr : readString c s with
  | ok b s₁ =>
    refine ⟨b, s₁, rfl, ?_⟩
    simp only [hr, Res.ok.injEq] at h
    cases hi : syms.idxOf? b with
    | none =>
      left
      simp only [hi] at h
      refine ⟨h.1.symm, ?_⟩
      intro hm
      have : (syms.idxOf? b).isSome = true := by
        simp only [List.idxOf?, List.findIdx?_isSome, List.any_eq_true]
        exact ⟨b, hm, by simp⟩
      rw [hi] at this; exact absurd this (by decide)
    | some i =>
      right
      simp only [hi] at h
      exact ⟨i, h.1.symm, idxOf?_some_getElem hi⟩
  | err e => simp [hr] at h
  | panic => simp [hr] at h
  | fuel => simp [hr] at h
  | unmodelled => simp [hr] at h

/-- ROR2: a fixed is accepted only with exactly its declared size -/
theorem c11_fixed_decode_only_declared_size (c : RCfg) (fuel : Nat) (scope : List Seg) (n : TName)
    (size : Nat) (hd : c.env.find n = some (.fixed size)) (s s' : RS) (v : Value)
    (h : readTy c (fuel + 1) scope (.ref n) s = .ok v s') :
    ∃ b, v = .fixed b ∧ b.length = size := by
  simp only [readTy, hd] at h
  cases hr : readString c s with
  | ok b s₁ =>
    simp only [hr] at h
    by_cases hl : b.length = size
    · simp only [hl, ↓reduceIte, Res.ok.injEq] at h
      exact ⟨b, h.1.symm, hl⟩
    · simp [hl] at h
  | err e => simp [hr] at h
  | panic => simp [hr] at h
  | fuel => simp [hr] at h
  | unmodelled => simp [hr] at h

/-- ROR2: a fixed of any other size is the `fixed` error, whatever the bytes -/
theorem c11_fixed_decode_wrong_size_rejected (c : RCfg) (fuel : Nat) (scope : List Seg) (n : TName)
    (size : Nat) (hd : c.env.find n = some (.fixed size)) (s s₁ : RS) (b : Bytes)
    (hr : readString c s = .ok b s₁) (hl : b.length ≠ size) :
    readTy c (fuel + 1) scope (.ref n) s = .err .fixed := by
  simp [readTy, hd, hr, hl]

/-- JSON: a fixed is accepted only with exactly its declared size -/
theorem c11_json_fixed_only_declared_size (c : TCfg) (top : Bool) (scope : List Seg) (n : TName)
    (size : Nat) (hd : c.env.find n = some (.fixed size)) (t : Json.JVal) (v : Value) (m : List Bytes)
    (h : treeRead c top scope (.ref n) t = .ok v m) : ∃ b, v = .fixed b ∧ b.length = size := by
  simp only [treeRead, hd, bindT] at h
  cases hp : c.sem.prim .bytes t with
  | ok x mm =>
    simp only [hp] at h
    cases x <;> simp at h
    rename_i b
    by_cases hl : b.length = size
    · simp only [hl, ↓reduceIte, TRes.ok.injEq] at h
      exact ⟨b, h.1.symm, hl⟩
    · simp [hl] at h
  | err e => simp [hp] at h
  | panic => simp [hp] at h
  | unmodelled => simp [hp] at h

/-! non-vacuity: a concrete schema, a valid and two invalid union values -/
def envEx : Env := [("U", .union false [([105], .prim .i32), ([115], .prim .str)]), ("E", .enum [[65], [66]])]
def cfgEx : EncCfg := { env := envEx, excl := .empty, sortKeys := true }
example : encode cfgEx 5 [] (.ref "U") (.union [([105], .i32 7)]) = .ok (.obj [([105], .int 7)]) := by rfl
example : encode cfgEx 5 [] (.ref "U") (.union [([105], .i32 7), ([115], .str [120])]) = .error .union := by rfl
example : encode cfgEx 5 [] (.ref "U") (.union []) = .error .union := by rfl
example : encode cfgEx 5 [] (.ref "E") (.enum 2) = .ok (.str [66]) := by rfl
example : encode cfgEx 5 [] (.ref "E") (.enum 3) = .error .enum := by rfl

/-! ## partial updates (`Model/Patch.lean`: the generated `X_PartialUpdate` bindings) -/

/-- **encoding**: a partial update is emitted only if `CheckFields` accepts it, i.e. every field of
the record (own or inherited through any chain of includes) that it deletes, sets or patches is
not excluded at the writer's scope and carries exactly one of the three operations -/
theorem c11_pu_encoded_only_if_legal (c : EncCfg) (fuel : Nat) (scope : List Bytes) (n : TName) (pu : PU)
    (d : Doc) (h : marshalPatch c fuel scope n pu = .ok d) :
    ∀ f ∈ allFields c.env (includeFuel c.env) n,
      pu.touches c.env f = true →
        c.excl.matchesB (scope ++ [f.name]) = false ∧ pu.conflicts c.env f = false := by
  intro f hf ht
  have := (checkFields_ok_iff c.env n pu _).1 (marshalPatch_ok_checked c fuel scope n pu d h) f hf
  simp only [fieldLegal, ht, Bool.not_true, Bool.false_or, Bool.and_eq_true, Bool.not_eq_eq_eq_not] at this
  exact this

/-- set-and-delete, set-and-patch, delete-and-patch of one field: never encoded -/
theorem c11_pu_conflict_never_encoded (c : EncCfg) (fuel : Nat) (scope : List Bytes) (n : TName) (pu : PU)
    (f : Field) (hf : f ∈ allFields c.env (includeFuel c.env) n) (hc : pu.conflicts c.env f = true) :
    ∀ d, marshalPatch c fuel scope n pu ≠ .ok d := by
  intro d h
  have ht : pu.touches c.env f = true := by
    simp only [PU.conflicts, Bool.or_eq_true, Bool.and_eq_true] at hc
    simp only [PU.touches, Bool.or_eq_true]
    rcases hc with (⟨a, _⟩ | ⟨a, _⟩) | ⟨a, _⟩ <;> simp [a]
  have := (c11_pu_encoded_only_if_legal c fuel scope n pu d h f hf ht).2
  simp [hc] at this

/-- **decoding**: whatever `UnmarshalRestLiPatch` returns is legal in the same sense (so a document
that sets and deletes, sets and patches, or deletes and patches one field is rejected, whatever
the order of its members and however often they are repeated) -/
theorem c11_pu_decoded_only_if_legal (c : TCfg) (fuel : Nat) (scope : List Seg) (n : TName) (pu₀ pu : PU)
    (t : Json.JVal) (m : List Bytes) (h : unmarshalPatch c fuel scope n pu₀ t = .ok pu m) :
    ∀ f ∈ allFields c.env (includeFuel c.env) n,
      pu.touches c.env f = true →
        (c.tracker.check (scope ++ [.key f.name]) == .yes) = false ∧ pu.conflicts c.env f = false := by
  intro f hf ht
  have := (checkFields_ok_iff c.env n pu _).1 (unmarshalPatch_ok_checked c fuel scope n pu₀ pu t m h) f hf
  simp only [fieldLegal, ht, Bool.not_true, Bool.false_or, Bool.and_eq_true, Bool.not_eq_eq_eq_not] at this
  exact this

/-- a `$delete` list that names a required field (own or inherited) is refused -/
theorem c11_pu_delete_required_refused (c : TCfg) (fields : List Field) (pu : PU) (name : Bytes)
    (x : Json.JVal) (xs : List Json.JVal) (f : Field) (hx : c.sem.str x = .ok name [])
    (hf : findField fields name = some f) (hreq : f.optOrDefault = false) :
    readDeletes c fields pu (x :: xs) = .err (.pu (.cannotDelete name)) :=
  readDeletes_required c fields pu name x xs f hx hf hreq

/-- conversely a legal partial update passes `CheckFields` (nothing else in `MarshalRestLiPatch`
can fail but the encoding of the `$set` values and of nested patches) -/
theorem c11_pu_legal_passes_check (env : Env) (n : TName) (pu : PU) (excluded : Bytes → Bool)
    (h : ∀ f ∈ allFields env (includeFuel env) n, pu.touches env f = true →
      excluded f.name = false ∧ pu.conflicts env f = false) :
    ∃ fl, checkFields env n pu excluded = .ok fl := by
  apply (checkFields_ok_iff env n pu excluded).2
  intro f hf
  unfold fieldLegal
  cases ht : pu.touches env f with
  | false => simp
  | true =>
    obtain ⟨a, b⟩ := h f hf ht
    simp [a, b]

/-! non-vacuity: a record with an include, a partial update that deletes an inherited optional
field, sets an own field and patches a nested record — legal; the same with a second operation on
one field — refused -/
def envPU : Env :=
  [("In", .record [] [⟨[105], .prim .i32, false, none⟩, ⟨[110], .prim .str, true, none⟩]),
   ("B", .record [] [⟨[98], .prim .str, true, none⟩]),
   ("R", .record ["B"] [⟨[114], .prim .i32, false, none⟩, ⟨[120], .ref "In", true, none⟩])]
def cfgPU : EncCfg := { env := envPU, excl := .empty, sortKeys := true }
def puOk : PU := .mk [[98]] [([114], .i32 5)] [([120], .mk [[110]] [] [])]
example : marshalPU cfgPU 5 "R" puOk = .ok (.obj [(patchKey, .obj
    [(deleteKey, .arr [.str [98]]), (setKey, .obj [([114], .int 5)]),
     ([120], .obj [(deleteKey, .arr [.str [110]])])])]) := by rfl
example : marshalPU cfgPU 5 "R" (.mk [[98]] [([98], .str [])] []) = .error (.pu (.conflict [98])) := by rfl
example : marshalPU { cfgPU with excl := newPathSpec [[120, 47, 110]] } 5 "R" puOk = .error (.pu (.excluded [110])) := by rfl

end Restli.Codec
