import Restli.Proofs.Identifier
/-! # C12 — code generation total, deterministic, compilable: the proved fragments

The property as a whole is decided by translation validation (harness `c12`: the real generator on a
grammar-generated family of manifests, byte comparison across fresh processes, `go build` + `go vet`).
What is *proved* here are the pure fragments the emitted names and emission order rest on:
`ExportedIdentifier` (model `Model/Identifier.lean`, tied to the Go function by the `exportid`
correspondence ops and by the regenerated literals `Gen.ident*`) and the sorted field order.
All statements are for every name / every field list, and for every parameter set satisfying the
decidable facts `Good` (both module generations satisfy them: `paramsV2_good`, `paramsRoot_good`). -/
namespace Restli.Ident
open Restli

/-- For every legal name — non-empty, over `[A-Za-z0-9_$]` — `ExportedIdentifier` returns (no panic) a
non-empty exported Go identifier: it starts with an upper-case letter and continues with letters, digits
and underscores only. -/
theorem c12_exportedIdentifier_valid (P : Params) (g : Good P) (s : Bytes) (hs : Legal P s) :
    ∃ o, exportedIdentifier P s = .ok o ∧ exportedWord o = true := by
  have hw := expand_word P g s hs
  exact ⟨_, exported_eq P g s hs, mangle0_exported P g _ hw.1 hw.2⟩

/-- The same for the literals of the current v2 and root sources. -/
theorem c12_exportedIdentifier_valid_current (s : Bytes) :
    (Legal paramsV2 s → ∃ o, exportedIdentifier paramsV2 s = .ok o ∧ exportedWord o = true) ∧
    (Legal paramsRoot s → ∃ o, exportedIdentifier paramsRoot s = .ok o ∧ exportedWord o = true) :=
  ⟨c12_exportedIdentifier_valid _ paramsV2_good s, c12_exportedIdentifier_valid _ paramsRoot_good s⟩

/-- On ASCII input the function panics exactly when some character lies outside the alphabet
(`log.Panicf("Illegal identifier character …")`); it never answers `nonAscii` there. -/
theorem c12_exportedIdentifier_panics_iff (P : Params) (g : Good P) (s : Bytes)
    (hascii : ∀ c ∈ s, ¬ (128 ≤ c)) :
    (exportedIdentifier P s = .panic ↔ ∃ c ∈ s, identChar P c = false) ∧
      exportedIdentifier P s ≠ .nonAscii := by
  -- generalised over the loop state
  have key : ∀ (cs : Bytes) (first : Bool) (acc : Bytes), (∀ c ∈ cs, ¬ (128 ≤ c)) →
      (go P first cs acc = .panic ↔ ∃ c ∈ cs, identChar P c = false) ∧ go P first cs acc ≠ .nonAscii := by
    intro cs
    induction cs with
    | nil => intro first acc _; simp [go]
    | cons c cs ih =>
      intro first acc h
      have hc := h c (by simp)
      have hcs : ∀ x ∈ cs, ¬ (128 ≤ x) := fun x hx => h x (by simp [hx])
      by_cases hi : identChar P c = true
      · -- a legal character: the loop goes on
        have hstep : ∃ bs, step P first c = .emit bs := by
          by_cases hd : c = P.dollarChar
          · cases first
            · exact ⟨_, hd ▸ step_tail_dollar P g⟩
            · exact ⟨_, hd ▸ step_first_dollar P g⟩
          · cases first
            · exact ⟨_, step_tail_plain P g c hi hd⟩
            · exact ⟨_, step_first_plain P g c hi hd⟩
        obtain ⟨bs, hbs⟩ := hstep
        rw [go, hbs]
        simp only
        have := ih false (acc ++ bs) hcs
        constructor
        · rw [this.1]
          constructor
          · rintro ⟨x, hx, hxi⟩; exact ⟨x, by simp [hx], hxi⟩
          · rintro ⟨x, hx, hxi⟩
            simp only [List.mem_cons] at hx
            rcases hx with rfl | hx
            · rw [hi] at hxi; exact absurd hxi (by decide)
            · exact ⟨x, hx, hxi⟩
        · exact this.2
      · -- an illegal ASCII character: panic
        have hi' : identChar P c = false := by simpa using hi
        have hstep : step P first c = .panic := by
          simp only [identChar, Bool.or_eq_false_iff, beq_eq_false_iff_ne] at hi'
          simp [step, hc, hi'.1.1.1, hi'.1.1.2, hi'.1.2, hi'.2]
        rw [go, hstep]
        exact ⟨⟨fun _ => ⟨c, by simp, hi'⟩, fun _ => rfl⟩, by simp⟩
  exact key s true [] hascii

/-- Collision classes, complete: two legal names are mapped to the same identifier **iff**, once every
`$` is spelled out the way the function does (`expand`: `DOLLAR_` for a leading `$`, `_DOLLAR_` elsewhere),
the two spellings are equal, or differ only in the case of the first letter, or one is a digit-initial
name and the other the same name behind `_`, or one is letter-initial and spells out (up to the case of its
first letter) the prefix `Exported_` / `Exported` that the other, digit- or underscore-initial, receives. -/
theorem c12_exportedIdentifier_collision_classes (P : Params) (g : Good P) (a b : Bytes)
    (ha : Legal P a) (hb : Legal P b) :
    exportedIdentifier P a = exportedIdentifier P b ↔
      (expand P a = expand P b ∨ Cls P (expand P a) (expand P b) ∨ Cls P (expand P b) (expand P a)) := by
  rw [exported_eq P g a ha, exported_eq P g b hb]
  have wa := expand_word P g a ha
  have wb := expand_word P g b hb
  constructor
  · intro h
    exact cls_complete P g _ _ wa.1 wb.1 wa.2 wb.2 (by injection h)
  · rintro (h | h | h)
    · rw [h]
    · rw [cls_sound P g _ _ h]
    · rw [cls_sound P g _ _ h]

/-- A name without `$` is its own spelling, so for `$`-free names the classes above speak about the
names themselves; in particular `ExportedIdentifier` is injective on `$`-free names that start with a
letter and agree on the case of that letter … -/
theorem c12_expand_dollar_free (P : Params) (s : Bytes) (h : ∀ c ∈ s, c ≠ P.dollarChar) : expand P s = s :=
  expand_id P s h

/-- … precisely: two `$`-free, letter-initial legal names collide only if they differ at most in the case of
the first letter. -/
theorem c12_exportedIdentifier_injective_on_letter_initial (P : Params) (g : Good P) (x y : UInt8)
    (s t : Bytes) (hx : isLetter x = true) (hy : isLetter y = true)
    (ha : Legal P (x :: s)) (hb : Legal P (y :: t))
    (hda : ∀ c ∈ x :: s, c ≠ P.dollarChar) (hdb : ∀ c ∈ y :: t, c ≠ P.dollarChar)
    (h : exportedIdentifier P (x :: s) = exportedIdentifier P (y :: t)) :
    s = t ∧ toUpper x = toUpper y := by
  rw [exported_eq P g _ ha, exported_eq P g _ hb, expand_id P _ hda, expand_id P _ hdb] at h
  simp only [mangle0, headOf, hx, hy, ↓reduceIte, List.cons_append, List.nil_append, Out.ok.injEq,
    List.cons.injEq] at h
  exact ⟨h.2, h.1⟩

/-! Witnesses of every class, on the literals of the current sources (distinct names, same identifier). -/

/-- `foo` / `Foo` — first-letter case -/
theorem c12_collision_first_letter_case :
    exportedIdentifier paramsV2 [102, 111, 111] = exportedIdentifier paramsV2 [70, 111, 111] := by decide

/-- `1a` / `_1a` — leading digit vs. underscore + digit -/
theorem c12_collision_digit_underscore :
    exportedIdentifier paramsV2 [49, 97] = exportedIdentifier paramsV2 [95, 49, 97] := by decide

/-- `1a` / `exported_1a` — the digit prefix spelled out -/
theorem c12_collision_spelled_digit_prefix :
    exportedIdentifier paramsV2 [49, 97] =
      exportedIdentifier paramsV2 [101, 120, 112, 111, 114, 116, 101, 100, 95, 49, 97] := by decide

/-- `_x` / `Exported_x` — the underscore prefix spelled out -/
theorem c12_collision_spelled_underscore_prefix :
    exportedIdentifier paramsV2 [95, 120] =
      exportedIdentifier paramsV2 [69, 120, 112, 111, 114, 116, 101, 100, 95, 120] := by decide

/-- `a$b` / `a_DOLLAR_b` — `$` spelled out (equal spellings) -/
theorem c12_collision_dollar :
    exportedIdentifier paramsV2 [97, 36, 98] =
      exportedIdentifier paramsV2 [97, 95, 68, 79, 76, 76, 65, 82, 95, 98] := by decide

/-- `$a` / `dOLLAR_a` — leading `$`, and first-letter case on top -/
theorem c12_collision_leading_dollar :
    exportedIdentifier paramsV2 [36, 97] =
      exportedIdentifier paramsV2 [100, 79, 76, 76, 65, 82, 95, 97] := by decide

/-- Emission order is a function of the set of fields: sorting by name gives the same list for every
permutation of a field list with pairwise distinct names (`Record.SortedFields`, and likewise
`IdentifierSet.Range` over distinct full names). -/
theorem c12_sortedFields_perm_invariant {α : Type} (l₁ l₂ : List (Bytes × α)) (hp : l₁.Perm l₂)
    (hn : Codec.KeysNodup l₁) : sortedFields l₁ = sortedFields l₂ :=
  Codec.sortByKey_perm l₁ l₂ hp hn

/-- The sorted list has exactly the given fields and is strictly ascending by name. -/
theorem c12_sortedFields_sorted {α : Type} (l : List (Bytes × α)) (hn : Codec.KeysNodup l) :
    Codec.SortedKeys (sortedFields l) ∧ ∀ f, f ∈ sortedFields l ↔ f ∈ l :=
  ⟨Codec.sortByKey_sorted l hn, Codec.mem_sortByKey l⟩

/-! Non-vacuity: concrete inputs satisfy the hypotheses and exercise the non-trivial branches. -/

-- `$ref9` is legal and is mapped to `DOLLAR_ref9`
example : exportedIdentifier paramsV2 [36, 114, 101, 102, 57] = .ok [68, 79, 76, 76, 65, 82, 95, 114, 101, 102, 57] := by
  decide
example : Legal paramsV2 [36, 114, 101, 102, 57] := ⟨by simp, by decide⟩
-- `9_a$` ↦ `Exported_9_a_DOLLAR_`
example : exportedIdentifier paramsV2 [57, 95, 97, 36] =
    .ok [69, 120, 112, 111, 114, 116, 101, 100, 95, 57, 95, 97, 95, 68, 79, 76, 76, 65, 82, 95] := by decide
-- an illegal character panics, a non-ASCII byte is declined
example : exportedIdentifier paramsV2 [97, 45, 98] = .panic := by decide
example : exportedIdentifier paramsV2 [97, 195, 169] = .nonAscii := by decide
-- the witnesses above are pairs of different names
example : ([102, 111, 111] : Bytes) ≠ [70, 111, 111] := by decide
-- two different orders of three fields sort to the same list
example : sortedFields [([98], 1), ([97], 2), ([99], 3)] = sortedFields [([99], 3), ([98], 1), ([97], 2)] :=
  c12_sortedFields_perm_invariant _ _ (by decide) (by unfold Codec.KeysNodup; decide)

end Restli.Ident
