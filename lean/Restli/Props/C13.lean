import Restli.Model.Ror2Reader
import Restli.Model.TreeReader
import Restli.Model.Norm
import Restli.Proofs.RoundTrip3
import Restli.Proofs.RoundTripJson
/-! # C13 — schema default values

`populateDefaults` is the model of the generated `populateLocalDefaultValues`, which every
generated `UnmarshalRestLi` calls after `ReadRecord` whatever the reader (JSON, ROR2, untyped):
the same function appears in `readTy` and in `treeRead`. The statements below are for every
record, every field list and every set of decoded fields.

The property's clause about defaults *inherited through included records* is false of the
current code (the generated function only covers the record's own fields): the full statement
is kept, its negation is proved on a concrete schema, and the proved part is `…_partial`.
"Not shared between instances" is about Go aliasing; in the model every instance is a fresh
value by construction, so that clause is decided by the harness (mutating one instance and
re-inspecting another), not by a theorem. -/
namespace Restli.Codec

def hasKey (fs : List (Bytes × Value)) (k : Bytes) : Bool := fs.any (·.1 == k)

theorem lookup_append_of_hasKey (fs extra : List (Bytes × Value)) (k : Bytes) (h : hasKey fs k = true) :
    List.lookup k (fs ++ extra) = List.lookup k fs := by
  induction fs with
  | nil => simp [hasKey] at h
  | cons x xs ih =>
    obtain ⟨a, b⟩ := x
    simp only [List.cons_append, List.lookup]
    by_cases hk : (k == a) = true
    · simp [hk]
    · simp only [Bool.not_eq_true] at hk
      simp only [hk]
      apply ih
      simp only [hasKey, List.any_cons, Bool.or_eq_true] at h
      rcases h with h | h
      · have : (k == a) = true := by
          have e : a = k := by simpa using h
          subst e; simp
        rw [this] at hk; exact absurd hk (by decide)
      · exact h

theorem populateDefaults_step (own : List Field) (fs : List (Bytes × Value)) :
    ∀ k, hasKey fs k = true → List.lookup k (populateDefaults own fs) = List.lookup k fs := by
  induction own generalizing fs with
  | nil => intro k _; rfl
  | cons f rest ih =>
    intro k hk
    simp only [populateDefaults, List.foldl_cons]
    cases hd : f.dflt with
    | none => exact ih fs k hk
    | some d =>
      by_cases hp : (fs.any (·.1 == f.name)) = true
      · simp only [hp, ↓reduceIte]; exact ih fs k hk
      · simp only [hp, Bool.false_eq_true, ↓reduceIte]
        have hk' : hasKey (fs ++ [(f.name, d)]) k = true := by
          simp only [hasKey, List.any_append, Bool.or_eq_true]; exact Or.inl hk
        have := ih (fs ++ [(f.name, d)]) k hk'
        simp only [populateDefaults] at this
        rw [this, lookup_append_of_hasKey fs _ k hk]

/-- a value present in the document always wins over the default -/
theorem c13_present_wins (own : List Field) (fs : List (Bytes × Value)) (k : Bytes)
    (h : hasKey fs k = true) :
    List.lookup k (populateDefaults own fs) = List.lookup k fs :=
  populateDefaults_step own fs k h

theorem lookup_append_new (fs : List (Bytes × Value)) (k : Bytes) (d : Value) (h : hasKey fs k = false) :
    List.lookup k (fs ++ [(k, d)]) = some d := by
  induction fs with
  | nil => simp [List.lookup]
  | cons x xs ih =>
    obtain ⟨a, b⟩ := x
    simp only [hasKey, List.any_cons, Bool.or_eq_false_iff] at h
    have hka : (k == a) = false := by
      have : (a == k) = false := h.1
      cases hh : (k == a) with
      | false => rfl
      | true =>
        have e : k = a := by simpa using hh
        subst e; simp at this
    simp only [List.cons_append, List.lookup, hka]
    exact ih h.2

/-- an own defaulted field the document omitted carries exactly the schema's default literal
(field names of a record are distinct — part of schema well-formedness) -/
theorem c13_omitted_own_field_gets_default (own : List Field) (fs : List (Bytes × Value)) (f : Field)
    (d : Value) (hn : (own.map (·.name)).Nodup) (hf : f ∈ own) (hd : f.dflt = some d)
    (habs : hasKey fs f.name = false) :
    List.lookup f.name (populateDefaults own fs) = some d := by
  induction own generalizing fs with
  | nil => cases hf
  | cons g rest ih =>
    simp only [List.map_cons, List.nodup_cons] at hn
    simp only [populateDefaults, List.foldl_cons]
    rcases List.mem_cons.1 hf with rfl | hf'
    · have hp : (fs.any (·.1 == f.name)) = false := habs
      simp only [hd, hp, Bool.false_eq_true, ↓reduceIte]
      have hk' : hasKey (fs ++ [(f.name, d)]) f.name = true := by
        simp [hasKey]
      have := populateDefaults_step rest (fs ++ [(f.name, d)]) f.name hk'
      simp only [populateDefaults] at this
      rw [this]; exact lookup_append_new fs f.name d habs
    · have hsame : g.name ≠ f.name := by
        intro h; exact hn.1 (by rw [h]; exact List.mem_map_of_mem hf')
      cases hgd : g.dflt with
      | none => exact ih fs hn.2 hf' habs
      | some gd =>
        by_cases hp : (fs.any (·.1 == g.name)) = true
        · simp only [hp, ↓reduceIte]; exact ih fs hn.2 hf' habs
        · simp only [hp, Bool.false_eq_true, ↓reduceIte]
          apply ih (fs ++ [(g.name, gd)]) hn.2 hf'
          simp only [hasKey, List.any_append, Bool.or_eq_false_iff]
          refine ⟨habs, ?_⟩
          simp only [List.any_cons, List.any_nil, Bool.or_false]
          exact beq_eq_false_iff_ne.mpr hsame

/-- defaulted (and optional) fields are never among the required fields, hence never reported
missing -/
theorem c13_defaulted_never_required (fields : List Field) (f : Field) (hd : f.dflt.isSome = true)
    (hf : f ∈ fields.filter (fun g => !g.optOrDefault)) : False := by
  simp only [List.mem_filter, Field.optOrDefault, Bool.not_eq_eq_eq_not, Bool.not_true,
    Bool.or_eq_false_iff] at hf
  rw [hf.2.2] at hd; exact absurd hd (by decide)

/-- every reader finishes a record through the same `finishRecord`; whenever it succeeds, the
result is exactly the fields read, with the zero value for absent required fields (only possible
below the top level or when excluded) and the own defaults filled in — the rule is identical for
the JSON, ROR2 and untyped readers because it is one function -/
theorem c13_finishRecord_applies_defaults (env : Env) (tr : Tracker) (scope : List Seg) (top : Bool)
    (fields own : List Field) (fs : List (Bytes × Value)) (seen m₀ : List Bytes) (v : Value) (m : List Bytes)
    (h : finishRecord env tr scope top fields own fs seen m₀ = .ok v m) :
    v = .record (populateDefaults own (fillRequired env fields fs)) := by
  unfold finishRecord at h
  split at h
  · cases h
  · split at h
    · cases h
    · cases h; rfl

/-- at the top level a successful result means no required field was missing: defaults never
count as missing (they are not in the required list, `c13_defaulted_never_required`) -/
theorem c13_finishRecord_top_ok_no_missing (env : Env) (tr : Tracker) (scope : List Seg)
    (fields own : List Field) (fs : List (Bytes × Value)) (seen m₀ : List Bytes) (v : Value) (m : List Bytes)
    (h : finishRecord env tr scope true fields own fs seen m₀ = .ok v m) : m = [] := by
  unfold finishRecord at h
  split at h
  · cases h
  · split at h
    · cases h
    · next hne =>
      cases h
      simpa using hne

/-! ## the default of a record, union, array or map field is its literal read as a document

The generated `populateLocalDefaultValues` obtains such a default by handing the schema's JSON
literal to the field type's own unmarshaler, so the value held is what the JSON reader returns
for that document — with the own defaults of every record inside it filled in (`norm`). The
schema the model works with is `expandDefaults` of the schema as written (Driver/Codec.lean),
so a generator that stores the literal any other way (a zero record for `{}`, say) disagrees
with the model on the first document that omits the field. -/

/-- reading the document a default literal `d` denotes yields `norm d`, nothing reported missing:
for every schema, field type, literal and nesting depth (an instance of the JSON round trip) -/
theorem c13_default_literal_is_read_as_a_document (env : Env) (F : FloatLaws) (C : ConvLaws)
    (hS : schemaOKb env = true) (ign f : Nat) (scopeW : List Bytes) (scopeR : List Seg) (top : Bool)
    (ty : Ty) (d : Value) (doc : Doc) (hv : ValOK d)
    (henc : encode { env := env, excl := .empty, sortKeys := true } f scopeW ty d = .ok doc) :
    treeRead { env := env, tracker := { excl := .empty, ignore := ign } } top scopeR ty (treeOf jsonEnc doc) =
      .ok (norm env f ty d) [] :=
  json_roundtrip_tree env F C (schemaOK_of_check env hS) ign f scopeW scopeR top ty d doc hv henc

/-- `Paging` has defaults of its own; `Query` has a `Paging`-typed field whose default is `{}` -/
def envNested : Env :=
  [("Paging", .record [] [{ name := [99], ty := .prim .i32, optional := false, dflt := some (.i32 10) },
                          { name := [115], ty := .prim .i32, optional := true, dflt := some (.i32 0) }]),
   ("Query", .record [] [{ name := [112], ty := .ref "Paging", optional := false, dflt := some (.record []) }])]

/-- the literal `{}` of type `Paging` denotes the record with `Paging`'s own defaults … -/
example : norm envNested literalFuel (.ref "Paging") (.record []) = .record [([99], .i32 10), ([115], .i32 0)] := by rfl

/-- … which is what `Query` holds as the default of `p` once the schema is read like the
generated code reads it … -/
theorem c13_empty_object_default_carries_nested_defaults :
    (expandDefaults envNested).find "Query" =
      some (.record [] [{ name := [112], ty := .ref "Paging", optional := false,
                          dflt := some (.record [([99], .i32 10), ([115], .i32 0)]) }]) := by rfl

/-- … and what decoding `()` as `Query` puts into `p` -/
theorem c13_omitted_record_field_gets_expanded_default :
    (match unmarshalRor2 { env := expandDefaults envNested, tracker := { excl := .empty, ignore := 0 }, plus := false }
        (.ref "Query") [40, 41] with
      | .ok v _ => some v | _ => none) =
      some (.record [([112], .record [([99], .i32 10), ([115], .i32 0)])]) := by rfl

/-- what a field is apart from its default's value -/
def Field.shape (f : Field) : Bytes × Ty × Bool × Bool := (f.name, f.ty, f.optional, f.dflt.isSome)

/-- reading the literals changes the default *values* only: every declaration keeps its kind, its
includes, and the name, type, optional flag and defaultedness of every field — so required-field
lists, field order and everything else the readers and writers take from the schema are those of
the schema as written -/
theorem c13_expansion_changes_default_values_only (env : Env) (d : Decl) :
    (∀ incs own, d = .record incs own →
      ∃ own', expandDecl env d = .record incs own' ∧ own'.map Field.shape = own.map Field.shape) ∧
    ((∀ incs own, d ≠ .record incs own) → expandDecl env d = d) := by
  constructor
  · intro incs own hd
    subst hd
    refine ⟨_, rfl, ?_⟩
    simp [List.map_map, Function.comp_def, Field.shape, Option.isSome_map]
  · intro h
    cases d with
    | record incs own => exact absurd rfl (h incs own)
    | _ => rfl

/-- … and one pass looks every declaration up under its own name -/
theorem c13_expansion_keeps_names (env ctx : Env) (n : TName) :
    Env.find (env.map fun (e : TName × Decl) => (e.1, expandDecl ctx e.2)) n = (env.find n).map (expandDecl ctx) := by
  induction env with
  | nil => rfl
  | cons e rest ih =>
    simp only [Env.find, List.map_cons, List.lookup] at ih ⊢
    cases hne : (n == e.1) with
    | true => simp
    | false => simpa using ih

/-! ## inherited defaults: the full statement fails on the current code -/

/-- `Base` declares a default; `Derived` includes `Base` -/
def envInh : Env :=
  [("Base", .record [] [{ name := [98], ty := .prim .i32, optional := false, dflt := some (.i32 7) }]),
   ("Derived", .record ["Base"] [{ name := [120], ty := .prim .i32, optional := true, dflt := none }])]

def cfgInh : RCfg := { env := envInh, tracker := { excl := .empty, ignore := 0 }, plus := false }

/-- decoding `()` as `Base` fills the default … -/
example : (match unmarshalRor2 cfgInh (.ref "Base") [40, 41] with
    | .ok v _ => some v | _ => none) = some (.record [([98], .i32 7)]) := by rfl

/-- … but decoding `()` as `Derived` does not: the counter-example to "declared directly or
inherited through included records" (F12; replayed on the real bindings by the harness, corpus
type `InclDefaults`) -/
theorem c13_inherited_default_not_applied_cex :
    (match unmarshalRor2 cfgInh (.ref "Derived") [40, 41] with
      | .ok v _ => some v | _ => none) = some (.record []) := by rfl

end Restli.Codec
