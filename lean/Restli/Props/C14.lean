import Restli.Proofs.Tunnel
/-! # C14 — query tunnelling is transparent

Property theorems only. Model: `Model/Tunnel.lean` (`EncodeTunnelledQuery`, `DecodeTunnelledQuery`,
the tunnelling block of `newRequest`, the de-tunnelling call site of `ServeHTTP`; one model for the
v2 and root copies — `tunnelling.go` is byte-identical — parametrised by the constants regenerated
from each module) over `Lib/Multipart.lean` (a model of Go's mime / mime/multipart / net/textproto /
http.Header, validated against the real packages on every run — trusted, not verified).
Specification: `Spec/Tunnel.lean`.

Hypotheses, kept apart:
* the property's quantifier: any verb (`m ≠ []`), path, query, body or none, threshold, Rest.li method;
* `BoundaryFresh b q body` and `TokenBoundary b` — the **honest hypothesis about Go's random
  boundary** (60 hex digits): a collision with the payload is outside the model (trusted base);
* one **guard forced by a deviation of the current code**: `contents ≠ some []` (a body that is
  present but empty). Witness below.

(A second deviation — an unsupported outer Content-Type was let through to routing — was repaired in
/repo; the model follows the repaired code and the case is now part of `c14_malformed_rejected`.) -/
namespace Restli.Tunnel
open Restli Restli.Url Restli.Mime Restli.TunnelSpec

/-- what routing and resource code see of a request (the specification's `Seen`) -/
def Req.seen (r : Req) : Seen :=
  { verb := r.method, path := r.path, rawQuery := r.rawQuery,
    body := (match r.body with
             | .bytes b => some b
             | _ => none),
    header := fun k => r.header.find k, requestURI := r.requestURI }

/-- The constants of `restli/http.go` (v2), as regenerated from source, satisfy everything the
theorems below assume about them: canonical and distinct header names, the three content types
distinct and parsed by `mime.ParseMediaType` as themselves, `multipart/mixed` / `boundary` usable
in `mime.FormatMediaType`. Editing one of them re-runs this evaluation. -/
theorem c14_constants_good_v2 : goodB constsV2 = true := by decide +kernel

/-- the same for the root module's copy -/
theorem c14_constants_good_root : goodB constsRoot = true := by decide +kernel

/-- C14's transparency for one input: both requests can be built, and de-tunnelling the tunnelled
one yields exactly the untunnelled one. -/
def RoundTrips (K : Consts) (b : Bytes) (T : Nat) (path : Bytes) (fq : Bool) (q m rm : Bytes)
    (contents : Option Bytes) : Prop :=
  match sentRequest K b T path fq q m rm contents, sentRequest K b 0 path fq q m rm contents with
  | .ok sent, .ok untunnelled => decodeTunnelledQuery K sent = .ok untunnelled
  | _, _ => False

instance (K : Consts) (b : Bytes) (T : Nat) (path : Bytes) (fq : Bool) (q m rm : Bytes) (contents : Option Bytes) :
    Decidable (RoundTrips K b T path fq q m rm contents) := by
  unfold RoundTrips; split <;> infer_instance

/-- The full-strength transparency statement (no guard on the body). FALSE for the current code
(`c14_transparency_false`). -/
def C14Full : Prop :=
  ∀ (K : Consts) (b : Bytes) (T : Nat) (path : Bytes) (fq : Bool) (q m rm : Bytes) (contents : Option Bytes),
    goodB K = true → TokenBoundary b → MustTunnel T q → m ≠ [] → BoundaryFresh b q (contents.getD []) →
    RoundTrips K b T path fq q m rm contents

/-- **Tunnelling is transparent.** For every verb, path, query, body (absent or non-empty), Rest.li
method and threshold such that the client tunnels (`0 < T < |q|`), and every boundary `b` that is
a token not occurring (as `--b`) in query or body: the request the client sends, de-tunnelled by
the server's `DecodeTunnelledQuery`, IS the request the client would have sent with tunnelling off
— the same verb, path, raw query, body, request target and the same headers (content type and
Rest.li headers included); nothing else is left (the override header is gone). No bound on any
length. -/
theorem c14_detunnel_tunnel_id (K : Consts) (hK : goodB K = true) (b : Bytes) (hb : TokenBoundary b)
    (T : Nat) (path : Bytes) (fq : Bool) (q m rm : Bytes) (contents : Option Bytes)
    (hT : MustTunnel T q) (hm : m ≠ [])
    (hfresh : BoundaryFresh b q (contents.getD []))
    (guard : contents ≠ some []) :
    ∃ sent untunnelled, sentRequest K b T path fq q m rm contents = .ok sent ∧
      sentRequest K b 0 path fq q m rm contents = .ok untunnelled ∧
      decodeTunnelledQuery K sent = .ok untunnelled ∧
      (∀ r, decodeTunnelledQuery K sent = .ok r → Transparent r.seen untunnelled.seen) := by
  have hst : shouldTunnel T q = true := by
    simp only [shouldTunnel, Bool.and_eq_true, decide_eq_true_eq]; exact hT
  obtain ⟨sent, orig, h1, h2, h3⟩ := decode_sent K (good_of_B K hK) b hb T path fq q m rm contents hst hm hfresh guard
  refine ⟨sent, orig, h1, h2, h3, ?_⟩
  intro r hr
  rw [h3] at hr
  injection hr with e
  rw [← e]; rfl

/-- the same, in the form whose unguarded version is `C14Full` -/
theorem c14_roundtrips_partial (K : Consts) (hK : goodB K = true) (b : Bytes) (hb : TokenBoundary b)
    (T : Nat) (path : Bytes) (fq : Bool) (q m rm : Bytes) (contents : Option Bytes)
    (hT : MustTunnel T q) (hm : m ≠ []) (hfresh : BoundaryFresh b q (contents.getD []))
    (guard : contents ≠ some []) : RoundTrips K b T path fq q m rm contents := by
  obtain ⟨sent, orig, h1, h2, h3, _⟩ := c14_detunnel_tunnel_id K hK b hb T path fq q m rm contents hT hm hfresh guard
  simp only [RoundTrips, h1, h2, h3]

/-- **The threshold is exact.** The client tunnels a request iff `0 < threshold < len(rawQuery)`.
When it does not, the request is exactly the one built with tunnelling off (sent untouched); when
it does, the request is a POST without URL query that carries the verb in the override header. -/
theorem c14_threshold_exact (K : Consts) (hK : goodB K = true) (b : Bytes) (hb : TokenBoundary b)
    (T : Nat) (path : Bytes) (fq : Bool) (q m rm : Bytes) (contents : Option Bytes) :
    (¬ MustTunnel T q → sentRequest K b T path fq q m rm contents = sentRequest K b 0 path fq q m rm contents) ∧
    (MustTunnel T q → ∃ sent, sentRequest K b T path fq q m rm contents = .ok sent ∧
        sent.method = methodPost ∧ sent.rawQuery = [] ∧ sent.header.get K.hdrOverride = m ∧ sent.path = path) ∧
    (∀ r, sentRequest K b 0 path fq q m rm contents = .ok r →
        r.header.get K.hdrOverride = [] ∧ r.method = m ∧ r.rawQuery = q) := by
  have g := good_of_B K hK
  have hiff : shouldTunnel T q = true ↔ MustTunnel T q := by
    simp only [shouldTunnel, Bool.and_eq_true, decide_eq_true_eq]; exact Iff.rfl
  refine ⟨?_, ?_, ?_⟩
  · intro hn
    have h1 : shouldTunnel T q = false := by
      cases h : shouldTunnel T q with
      | false => rfl
      | true => exact absurd (hiff.1 h) hn
    rw [sent_plain K g b T path fq q m rm contents h1, sent_plain K g b 0 path fq q m rm contents (by simp [shouldTunnel])]
  · intro ht
    obtain ⟨ct, _, hs⟩ := sent_tunnelled K g b hb T path fq q m rm contents (hiff.2 ht)
    refine ⟨_, hs, rfl, rfl, ?_, rfl⟩
    obtain ⟨ho, _⟩ := baseHdr_avoids K g rm
    have hk : canonicalKey K.hdrOverride = (keysOf K).O := rfl
    simp [Hdr.get, hk, find_append _ _ _ ho, Hdr.find]
  · intro r hr
    rw [sent_plain K g b 0 path fq q m rm contents (by simp [shouldTunnel])] at hr
    injection hr with e
    subst e
    refine ⟨?_, rfl, rfl⟩
    apply plain_header_no_override K g rm
    cases contents <;> simp

/-- A request that was not tunnelled passes `DecodeTunnelledQuery` unchanged. -/
theorem c14_untunnelled_untouched (K : Consts) (hK : goodB K = true) (b : Bytes) (path : Bytes) (fq : Bool)
    (q m rm : Bytes) (contents : Option Bytes) (T : Nat) (hn : ¬ MustTunnel T q) :
    ∃ r, sentRequest K b T path fq q m rm contents = .ok r ∧ decodeTunnelledQuery K r = .ok r := by
  have g := good_of_B K hK
  have h1 : shouldTunnel T q = false := by
    cases h : shouldTunnel T q with
    | false => rfl
    | true =>
      simp only [shouldTunnel, Bool.and_eq_true, decide_eq_true_eq] at h
      exact absurd h hn
  refine ⟨_, sent_plain K g b T path fq q m rm contents h1, ?_⟩
  apply decode_no_override
  apply plain_header_no_override K g rm
  cases contents <;> simp

/-- **Malformed tunnelled requests are answered with the error status and never routed**
(`s` is the status of the `http.Error` call, regenerated from `handler.go`: `Gen.detunnelErrorStatus`):

1. the override header on a POST together with a URL query;
2. a `multipart/mixed` body (written with the boundary named in the Content-Type) without a
   form-urlencoded part — *missing query part*;
3. … without a JSON part — *missing body part*;
4. … with a part of any other type after any number of known parts — *unknown part type*;
5. an outer Content-Type that is neither form-urlencoded nor multipart/mixed — including a missing
   or unparsable one, for which `mime.ParseMediaType` yields the media type `""`. -/
theorem c14_malformed_rejected (K : Consts) (hK : goodB K = true) (s : Nat) (req : Req)
    (hmeth : req.method = methodPost) (hov : req.header.get K.hdrOverride ≠ []) :
    (req.rawQuery ≠ [] → detunnelSite K s req = .respond s) ∧
    (∀ (b : Bytes) (ps : List WPart) (params : List (Bytes × Bytes)), TokenBoundary b → req.rawQuery = [] →
      parseMediaType ((req.header.del K.hdrOverride).get K.hdrContentType) = .ok (K.ctMultipart, params) →
      params.lookup K.boundaryParam = some b → req.body = .bytes (writeParts b ps) →
      (∀ p ∈ ps, p.key = K.hdrContentType ∧ GoodPart b p) →
      ((∀ p ∈ ps, p.value ≠ K.ctForm) ∨ (∀ p ∈ ps, p.value ≠ K.ctJson) ∨
        (∃ pre u post, ps = pre ++ u :: post ∧ (∀ p ∈ pre, p.value = K.ctForm ∨ p.value = K.ctJson) ∧
          u.value ≠ K.ctForm ∧ u.value ≠ K.ctJson)) →
      detunnelSite K s req = .respond s) ∧
    (∀ (mt : Bytes) (params : List (Bytes × Bytes)), req.rawQuery = [] → req.body ≠ .nil →
      parseMediaType (getAndDelete (req.header.del K.hdrOverride) K.hdrContentType).1 = .ok (mt, params) →
      mt ≠ K.ctForm → mt ≠ K.ctMultipart → detunnelSite K s req = .respond s) := by
  have g := good_of_B K hK
  have hovE : (req.header.get K.hdrOverride).isEmpty = false := by simpa using hov
  refine ⟨?_, ?_, ?_⟩
  · intro hq
    have hqE : req.rawQuery.isEmpty = false := by simpa using hq
    simp [detunnelSite, decodeTunnelledQuery, getAndDelete_of_get, hovE, hmeth, hqE]
  rotate_left
  · intro mt params hq hbody hct h1 h2
    have h1' : (mt == K.ctForm) = false := by simpa using h1
    have h2' : (mt == K.ctMultipart) = false := by simpa using h2
    cases hb : req.body with
    | nil => exact absurd hb hbody
    | noBody =>
      simp only [detunnelSite, decodeTunnelledQuery, getAndDelete_of_get (h := req.header), hovE, hmeth, hq, hb,
        bne_self_eq_false, Bool.or_self, Bool.false_eq_true, if_false, List.isEmpty_nil, Bool.not_true, hct, h1', h2']
    | bytes x =>
      simp only [detunnelSite, decodeTunnelledQuery, getAndDelete_of_get (h := req.header), hovE, hmeth, hq, hb,
        bne_self_eq_false, Bool.or_self, Bool.false_eq_true, if_false, List.isEmpty_nil, Bool.not_true, hct, h1', h2']
  · intro b ps params hb hq hct hbp hbody hps hcase
    have hdec := decode_multipart K g req b hb ps params hmeth hov hq hct hbp hbody hps
    have : decodeTunnelledQuery K req = .err := by
      rw [hdec]
      rcases hcase with h | h | ⟨pre, u, post, rfl, hpre, hu⟩
      · rcases foldParts_no_form K ps h [] .nil _ with e | ⟨b', h', e⟩
        · rw [e]
        · rw [e]; simp
      · rcases foldParts_no_json K ps h [] .nil _ with e | ⟨q', h', e⟩
        · rw [e]
        · rw [e]; simp
      · rw [foldParts_unknown K pre u post hpre hu]
    simp [detunnelSite, this]

/-! ## Deviations of the current code (witnesses; each confirmed on the real code by `bin/check C14`) -/

/-- The guard of `c14_detunnel_tunnel_id` is needed: a body that is present but empty is sent as
form-urlencoded, and after de-tunnelling the `Content-Type: application/json` the untunnelled
request carries is gone. (Reachable through the exported `EncodeTunnelledQuery`; a Marshaler handed
to the v2 client constructors always yields at least `null`.) -/
theorem c14_empty_body_content_type_cex :
    ¬ RoundTrips constsV2 (strB "BOUNDARY") 1 (strB "/coll/1") false (strB "a=b") (strB "PUT") (strB "update") (some []) := by
  decide +kernel

/-- … precisely: the untunnelled request carries `Content-Type: application/json`, the de-tunnelled one none -/
theorem c14_empty_body_content_type_lost :
    (match sentRequest constsV2 (strB "BOUNDARY") 1 (strB "/coll/1") false (strB "a=b") (strB "PUT") (strB "update") (some []),
           sentRequest constsV2 (strB "BOUNDARY") 0 (strB "/coll/1") false (strB "a=b") (strB "PUT") (strB "update") (some []) with
     | .ok sent, .ok untunnelled =>
       (match decodeTunnelledQuery constsV2 sent with
        | .ok r => (untunnelled.header.get constsV2.hdrContentType, r.header.get constsV2.hdrContentType)
        | _ => ([], []))
     | _, _ => ([], [])) = (constsV2.ctJson, []) := by
  decide +kernel

/-- The full-strength transparency statement fails on the current code. -/
theorem c14_transparency_false : ¬ C14Full := by
  intro h
  exact c14_empty_body_content_type_cex
    (h constsV2 (strB "BOUNDARY") 1 (strB "/coll/1") false (strB "a=b") (strB "PUT") (strB "update") (some [])
      c14_constants_good_v2 ⟨by decide +kernel, by decide +kernel⟩ (by decide +kernel) (by decide +kernel)
      ⟨by decide +kernel, by decide +kernel⟩)

/-! ## Non-vacuity -/

def sampleQuery : Bytes := strB "q=find&x=%0D%0A--BOUNDARY--&ids=List(1,2)"
def sampleBody : Bytes := strB "{\"a\":\"\r\n--BOUNDARYx\r\n\"}"   -- boundary-LIKE, not the boundary
def sampleBoundary : Bytes := strB "0123456789abcdef0123456789abcdef0123456789abcdef0123456789ab"

example : TokenBoundary sampleBoundary := ⟨by decide +kernel, by decide +kernel⟩
example : MustTunnel 5 sampleQuery := by decide +kernel
example : BoundaryFresh sampleBoundary sampleQuery sampleBody := ⟨by decide +kernel, by decide +kernel⟩
/-- the tunnelled request really is a multipart POST, and de-tunnelling it gives the PUT back -/
example : (match sentRequest constsV2 sampleBoundary 5 (strB "/coll/1") false sampleQuery (strB "PUT") (strB "update") (some sampleBody) with
    | .ok sent => (sent.method, sent.rawQuery, (match decodeTunnelledQuery constsV2 sent with
        | .ok r => (r.method, r.rawQuery, r.body) | _ => ([], [], .nil)))
    | _ => ([], [], [], [], .nil)) = (strB "POST", [], strB "PUT", sampleQuery, .bytes sampleBody) := by
  decide +kernel
/-- a malformed request of each kind exists: here the missing query part -/
example : detunnelSite constsV2 Gen.detunnelErrorStatus
    { method := methodPost, path := strB "/coll/1", forceQuery := false, rawQuery := [],
      header := [(strB "X-Http-Method-Override", [strB "GET"]), (strB "Content-Type", [strB "multipart/mixed; boundary=B"])],
      body := .bytes (writeParts (strB "B") [⟨strB "Content-Type", strB "application/json", strB "{}"⟩]),
      requestURI := strB "/coll/1" } = .respond 400 := by
  decide +kernel
/-- … and an unsupported outer Content-Type (rejected since the repair of `DecodeTunnelledQuery`) -/
example : detunnelSite constsV2 Gen.detunnelErrorStatus
    { method := methodPost, path := strB "/coll/1", forceQuery := false, rawQuery := [],
      header := [(strB "X-Http-Method-Override", [strB "GET"]), (strB "Content-Type", [strB "text/plain"])],
      body := .bytes (strB "a=b"), requestURI := strB "/coll/1" } = .respond 400 := by
  decide +kernel
/-- … and a missing one -/
example : detunnelSite constsV2 Gen.detunnelErrorStatus
    { method := methodPost, path := strB "/coll/1", forceQuery := false, rawQuery := [],
      header := [(strB "X-Http-Method-Override", [strB "GET"])],
      body := .bytes (strB "a=b"), requestURI := strB "/coll/1" } = .respond 400 := by
  decide +kernel

end Restli.Tunnel
