import Restli.Proofs.HttpUrl
/-! # C15 — request URL construction preserves resolver base, resource path and query

Property theorems only. Model: `Model/HttpUrl.lean` (`formatQueryUrl`, the re-parse in
`http.NewRequestWithContext`; one model for the v2 and root copies, which are textually identical)
over `Lib/Url.lean` (a model of Go's `net/url`, validated against the real package on every run —
trusted, not verified). Specification: `Spec/HttpUrl.lean`.

Two kinds of hypotheses, kept apart:
* the property's quantifier and its own exclusion — `Base.wf`, `resourcePathOk`, `queryText`,
  `RootOnlyLast` (contexts holding the root name as a complete non-final segment are left
  unspecified by the property text);
* **guards forced by defects of the current code** (DESIGN §7 F13) — `NoDotSegments`,
  `FirstRootIsLast`. Without them the statement is false; the witnesses are below and were confirmed
  on the real client. -/
namespace Restli.HttpUrl
open Restli Restli.Url Restli.HttpUrlSpec

/-- C15 for one input: the base URL text parses, a request URL is built, and what
`http.NewRequest` stores satisfies the specification's `Preserved` on `Scheme`, `Host`,
`EscapedPath()`, `RawQuery`, `String()` and `RequestURI()`. -/
def UrlPreserved (b : Base) (root rp : Bytes) (q : Option Bytes) : Prop :=
  match parse b.text with
  | .ok base =>
    match requestUrl base root rp q with
    | .ok u => Preserved b root rp q u.scheme u.host (escapedPath u) u.rawQuery (Url.toString u) (requestURI u)
    | _ => False
  | _ => False

instance (b : Base) (root rp : Bytes) (q : Option Bytes) : Decidable (UrlPreserved b root rp q) := by
  unfold UrlPreserved
  split
  · split
    · infer_instance
    · exact isFalse id
  · exact isFalse id

/-- The full-strength statement of C15 over the property's quantifier. It is FALSE for the current
code (`c15_url_preserved_false`). -/
def C15Full : Prop :=
  ∀ (b : Base) (root rp : Bytes) (q : Option Bytes), b.wf = true → resourcePathOk root rp = true →
    queryText (q.getD []) = true → RootOnlyLast b.segs root → UrlPreserved b root rp q

/-- **C15 under the two guards.** For every base URL of the grammar (any scheme and host[:port] or
none; any number of context segments of encoded text; with or without trailing slash), every
resource path `"/" ++ root ++ tail` of encoded text and every query (or none) — no bound on any
length — if the context does not hold the root name as a complete non-final segment (the property's
own exclusion), the expected path has no `.`/`..` segment (guard 1) and, when the context ends in
the root, no earlier context segment starts with the root name (guard 2), then the request URL
keeps the resolver's scheme and host, its escaped path is the context path (minus a trailing root
segment) followed by the resource path, and path, query, URL text and request target are byte for
byte what the encoders produced. -/
theorem c15_url_preserved_partial (b : Base) (root rp : Bytes) (q : Option Bytes)
    (hwf : b.wf = true) (hrp : resourcePathOk root rp = true) (hq : queryText (q.getD []) = true)
    (hex : RootOnlyLast b.segs root)
    (g1 : NoDotSegments (expectedPath b.segs root rp)) (g2 : FirstRootIsLast b.segs root) :
    UrlPreserved b root rp q := by
  obtain ⟨base, hparse, hsch, hhost, hesc, hauth⟩ := base_parse b hwf
  have hsegs : ∀ s ∈ b.segs, segText s = true := by
    simp only [Base.wf, Bool.and_eq_true, List.all_eq_true] at hwf; exact hwf.2
  obtain ⟨hroot, hp, tail, hrpe, _⟩ := rp_shape root rp hrp
  have hrootf := segText_facts root hroot
  have hstrip := stripRoot_spec root hrootf.2.2 b.segs hsegs hex g2
  have hsegs' : ∀ s ∈ (if b.segs.getLast? = some root then b.segs.dropLast else b.segs), segText s = true := by
    intro s hs
    split at hs
    · exact hsegs s (List.dropLast_subset _ hs)
    · exact hsegs s hs
  obtain ⟨u1, hu1, hpa1⟩ := formatQueryUrl_ok base b.segs b.trailingSlash root rp q hsegs hesc hrp hq _ hsegs'
    hstrip g1
  rw [hrpe] at hp
  obtain ⟨r', he', hh', hp'⟩ := expected_shape _ hsegs' root tail hroot hp
  rw [hsch, hhost] at hpa1
  have hexp : expectedPath b.segs root rp = cSlash :: r' := by rw [← he', hrpe]; rfl
  have hpa1' : ParsedAs u1 b.scheme b.host (cSlash :: r') q := by rw [← hexp]; exact hpa1
  obtain ⟨u2, hu2, hpa2, _⟩ := httpRequestUrl_ok u1 _ _ r' q hpa1' hauth hp' hh' hq
  have hreq : requestUrl base root rp q = .ok u2 := by simp only [requestUrl, hu1, hu2]
  simp only [UrlPreserved, hparse, hreq]
  refine ⟨hpa2.scheme, hpa2.host, by rw [hpa2.esc, hexp], hpa2.rq, ?_, ?_⟩
  · rw [toString_parsed u2 _ _ r' q hpa2 hauth, expectedText_eq b hwf, hexp]
  · rw [requestURI_parsed u2 _ _ r' q hpa2, hexp]

/-- No input whatsoever makes `formatQueryUrl` panic: the byte access
`resolvedPath[idx+len(root)+1]` is always in range (given the modelled `net/url` does not panic). -/
theorem c15_no_panic (hostUrl : URL) (root rp : Bytes) (q : Option Bytes) :
    formatQueryUrl hostUrl root rp q ≠ .panic :=
  formatQueryUrl_no_panic hostUrl root rp q

/-! ## Witnesses: the unguarded statement is false (each confirmed on the real client by `bin/check C15`) -/

def bytesOf (s : String) : Bytes := s.toUTF8.toList

def httpHost (segs : List String) (trail : Bool := false) : Base :=
  { authority := some { scheme := bytesOf "http", name := bytesOf "host", port := [], hasPort := false },
    segs := segs.map bytesOf, trailingSlash := trail }

/-- Guard 1 is needed: base `http://host/api`, key `..` (the path encoder leaves `.` unescaped):
the request goes to `/api/` instead of `/api/coll/..`. -/
theorem c15_dot_segment_cex :
    ¬ UrlPreserved (httpHost ["api"]) (bytesOf "coll") (bytesOf "/coll/..") (some (bytesOf "q=f")) := by
  decide +kernel

/-- the same with a single dot and no context: `/coll/./x` becomes `/coll/x` -/
theorem c15_single_dot_cex :
    ¬ UrlPreserved (httpHost []) (bytesOf "coll") (bytesOf "/coll/./x") none := by
  decide +kernel

/-- Guard 2 is needed: context `/collX/coll` ends in the root, but `strings.Index` finds `/coll`
first inside `/collX`, so nothing is cut and the root segment appears twice
(`/collX/coll/coll/1` instead of `/collX/coll/1`). -/
theorem c15_first_occurrence_cex :
    ¬ UrlPreserved (httpHost ["collX", "coll"]) (bytesOf "coll") (bytesOf "/coll/1") (some (bytesOf "q=f")) := by
  decide +kernel

/-- The full-strength statement fails on the current code. -/
theorem c15_url_preserved_false : ¬ C15Full := by
  intro h
  exact c15_dot_segment_cex (h (httpHost ["api"]) (bytesOf "coll") (bytesOf "/coll/..") (some (bytesOf "q=f"))
    (by decide +kernel) (by decide +kernel) (by decide +kernel) (by decide +kernel))

/-! ## Non-vacuity -/

/-- a base with scheme, host:port, a multi-segment context ending in the root (with a sibling that
merely shares a prefix AFTER it is impossible, so: prefix-sharing segment is absent before), trailing slash -/
def sampleBase : Base :=
  { authority := some { scheme := bytesOf "HTTPS", name := bytesOf "example.com", port := bytesOf "8080", hasPort := true },
    segs := [bytesOf "api", bytesOf "v%32", bytesOf "coll"], trailingSlash := true }
def sampleRp : Bytes := bytesOf "/coll/a%2Fb%3F%23%3B%25/%2E%2E//(k:1,l:'')"
def sampleQ : Option Bytes := some (bytesOf "q=find&x=(a:1)&y=%25?z")

example : sampleBase.wf = true := by decide +kernel
example : resourcePathOk (bytesOf "coll") sampleRp = true := by decide +kernel
example : queryText (sampleQ.getD []) = true := by decide +kernel
example : RootOnlyLast sampleBase.segs (bytesOf "coll") := by decide +kernel
example : NoDotSegments (expectedPath sampleBase.segs (bytesOf "coll") sampleRp) := by decide +kernel
example : FirstRootIsLast sampleBase.segs (bytesOf "coll") := by decide +kernel
/-- … and the URL text that comes out -/
example : (match parse sampleBase.text with
    | .ok base => (match requestUrl base (bytesOf "coll") sampleRp sampleQ with
      | .ok u => Url.toString u | _ => [])
    | _ => []) =
    bytesOf "https://example.com:8080/api/v%32/coll/a%2Fb%3F%23%3B%25/%2E%2E//(k:1,l:'')?q=find&x=(a:1)&y=%25?z" := by
  decide +kernel

/-- a context whose last segment merely shares a prefix with the root is inside the theorem -/
example : FirstRootIsLast (httpHost ["api", "collX"]).segs (bytesOf "coll") ∧
    RootOnlyLast (httpHost ["api", "collX"]).segs (bytesOf "coll") := by decide +kernel
/-- a host-less base with empty context, no query -/
example : UrlPreserved { authority := none, segs := [], trailingSlash := false } (bytesOf "coll") (bytesOf "/coll") none := by
  decide +kernel

end Restli.HttpUrl
