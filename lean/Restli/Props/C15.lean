import Restli.Proofs.HttpUrl
import Restli.Gen.Tables
/-! # C15 — request URL construction preserves resolver base, resource path and query

Property theorems only. Model: `Model/HttpUrl.lean` (`formatQueryUrl`, the re-parse in
`http.NewRequestWithContext`; one model for the v2 and root copies, which are textually identical)
over `Lib/Url.lean` (a model of Go's `net/url`, validated against the real package on every run —
trusted, not verified). Specification: `Spec/HttpUrl.lean`.

Two kinds of hypotheses, kept apart:
* the property's quantifier and its own exclusion — `Base.wf`, `resourcePathOk`, `queryText`,
  `RootOnlyLast` (contexts holding the root name as a complete non-final segment are left
  unspecified by the property text);
* **guards forced by defects of the current code** (DESIGN §7 F13) — `NoDotSegments`,
  `FirstRootIsLast`. Without them the statement is false; the witnesses are below and were confirmed
  on the real client. -/
namespace Restli.HttpUrl
open Restli Restli.Url Restli.HttpUrlSpec

/-- C15 for one input: the base URL text parses, a request URL is built, and what
`http.NewRequest` stores satisfies the specification's `Preserved` on `Scheme`, `Host`,
`EscapedPath()`, `RawQuery`, `String()` and `RequestURI()`. -/
def UrlPreserved (b : Base) (root rp : Bytes) (q : Option Bytes) : Prop :=
  match parse b.text with
  | .ok base =>
    match requestUrl base root rp q with
    | .ok u => Preserved b root rp q u.scheme u.host (escapedPath u) u.rawQuery (Url.toString u) (requestURI u)
    | _ => False
  | _ => False

instance (b : Base) (root rp : Bytes) (q : Option Bytes) : Decidable (UrlPreserved b root rp q) := by
  unfold UrlPreserved
  split
  · split
    · infer_instance
    · exact isFalse id
  · exact isFalse id

/-- The full-strength statement of C15 over the property's quantifier. It is FALSE for the current
code (`c15_url_preserved_false`). -/
def C15Full : Prop :=
  ∀ (b : Base) (root rp : Bytes) (q : Option Bytes), b.wf = true → resourcePathOk root rp = true →
    queryText (q.getD []) = true → RootOnlyLast b.segs root → UrlPreserved b root rp q

/-- **C15 under the two guards.** For every base URL of the grammar (any scheme and host[:port] or
none; any number of context segments of encoded text; with or without trailing slash), every
resource path `"/" ++ root ++ tail` of encoded text and every query (or none) — no bound on any
length — if the context does not hold the root name as a complete non-final segment (the property's
own exclusion), the expected path has no `.`/`..` segment (guard 1) and, when the context ends in
the root, no earlier context segment starts with the root name (guard 2), then the request URL
keeps the resolver's scheme and host, its escaped path is the context path (minus a trailing root
segment) followed by the resource path, and path, query, URL text and request target are byte for
byte what the encoders produced. -/
theorem c15_url_preserved_partial (b : Base) (root rp : Bytes) (q : Option Bytes)
    (hwf : b.wf = true) (hrp : resourcePathOk root rp = true) (hq : queryText (q.getD []) = true)
    (hex : RootOnlyLast b.segs root)
    (g1 : NoDotSegments (expectedPath b.segs root rp)) (g2 : FirstRootIsLast b.segs root) :
    UrlPreserved b root rp q := by
  have hsegs : ∀ s ∈ b.segs, segText s = true := by
    simp only [Base.wf, Bool.and_eq_true, List.all_eq_true] at hwf; exact hwf.2
  have hrootf := segText_facts root (rp_shape root rp hrp).1
  have hstrip := stripRoot_spec root hrootf.2.2 b.segs hsegs hex g2
  have hsegs' : ∀ s ∈ (if b.segs.getLast? = some root then b.segs.dropLast else b.segs), segText s = true := by
    intro s hs
    split at hs
    · exact hsegs s (List.dropLast_subset _ hs)
    · exact hsegs s hs
  obtain ⟨base, u, r', hparse, hreq, hexp, hpa, hauth⟩ :=
    requestUrl_pipeline b root rp q hwf hrp hq _ hsegs' hstrip g1
  have hexp' : expectedPath b.segs root rp = cSlash :: r' := hexp
  simp only [UrlPreserved, hparse, hreq]
  refine ⟨hpa.scheme, hpa.host, by rw [hpa.esc, hexp'], hpa.rq, ?_, ?_⟩
  · rw [toString_parsed u _ _ r' q hpa hauth, expectedText_eq b hwf, hexp']
  · rw [requestURI_parsed u _ _ r' q hpa, hexp']

/-- **Guard 2 is exactly as weak as it can be.** Inside the property's quantifier, whenever
`FirstRootIsLast` fails (and the un-cut path has no dot segment, so guard 1 plays no part) the
property fails: the context is not cut and the root segment is sent twice. -/
theorem c15_guard2_necessary (b : Base) (root rp : Bytes) (q : Option Bytes)
    (hwf : b.wf = true) (hrp : resourcePathOk root rp = true) (hq : queryText (q.getD []) = true)
    (hex : RootOnlyLast b.segs root) (g1 : NoDotSegments (joinSegs b.segs ++ rp))
    (hng : ¬ FirstRootIsLast b.segs root) :
    ¬ UrlPreserved b root rp q := by
  have hsegs : ∀ s ∈ b.segs, segText s = true := by
    simp only [Base.wf, Bool.and_eq_true, List.all_eq_true] at hwf; exact hwf.2
  have hrootf := segText_facts root (rp_shape root rp hrp).1
  obtain ⟨hstrip, hlast⟩ := stripRoot_guard2_fails root hrootf.2.2 b.segs hsegs hex hng
  obtain ⟨base, u, r', hparse, hreq, hexp, hpa, _⟩ :=
    requestUrl_pipeline b root rp q hwf hrp hq b.segs hsegs hstrip g1
  simp only [UrlPreserved, hparse, hreq]
  intro hp
  have h1 := hp.path_exact
  rw [hpa.esc, ← hexp] at h1
  simp only [expectedPath, hlast, if_true] at h1
  have h2 := congrArg List.length h1
  obtain ⟨l, hl⟩ : ∃ l, b.segs = l ++ [root] := by
    have := List.getLast?_eq_some_iff.1 hlast
    obtain ⟨l, hl⟩ := this
    exact ⟨l, hl⟩
  rw [hl] at h2
  simp [joinSegs] at h2
  omega

/-- No input whatsoever makes `formatQueryUrl` panic: the byte access
`resolvedPath[idx+len(root)+1]` is always in range (given the modelled `net/url` does not panic). -/
theorem c15_no_panic (hostUrl : URL) (root rp : Bytes) (q : Option Bytes) :
    formatQueryUrl hostUrl root rp q ≠ .panic :=
  formatQueryUrl_no_panic hostUrl root rp q

/-- Tie to the real encoders (tables regenerated from `path_writer.go` / `query_writer.go` of both
modules): every byte `Ror2PathEscape` leaves unescaped is a `wireByte` of the resource-path grammar
and none is `/`; every byte `Ror2QueryEscape` leaves unescaped is allowed by `queryText`. (Everything
else is written as `%XX`, which both grammars accept.) -/
theorem c15_encoder_alphabets_in_grammar :
    (∀ c ∈ Gen.pathSafe ++ GenRoot.pathSafe, wireByte c = true ∧ c ≠ 47) ∧
    (∀ c ∈ Gen.querySafe ++ GenRoot.querySafe, queryText [c] = true) := by
  decide +kernel

/-! ## Witnesses: the unguarded statement is false (each confirmed on the real client by `bin/check C15`) -/

def bytesOf (s : String) : Bytes := s.toUTF8.toList

def httpHost (segs : List String) (trail : Bool := false) : Base :=
  { authority := some { scheme := bytesOf "http", name := bytesOf "host", port := [], hasPort := false },
    segs := segs.map bytesOf, trailingSlash := trail }

/-- Guard 1 is needed: base `http://host/api`, key `..` (the path encoder leaves `.` unescaped):
the request goes to `/api/` instead of `/api/coll/..`. -/
theorem c15_dot_segment_cex :
    ¬ UrlPreserved (httpHost ["api"]) (bytesOf "coll") (bytesOf "/coll/..") (some (bytesOf "q=f")) := by
  decide +kernel

/-- the same with a single dot and no context: `/coll/./x` becomes `/coll/x` -/
theorem c15_single_dot_cex :
    ¬ UrlPreserved (httpHost []) (bytesOf "coll") (bytesOf "/coll/./x") none := by
  decide +kernel

/-- Guard 2 is needed: context `/collX/coll` ends in the root, but `strings.Index` finds `/coll`
first inside `/collX`, so nothing is cut and the root segment appears twice
(`/collX/coll/coll/1` instead of `/collX/coll/1`). -/
theorem c15_first_occurrence_cex :
    ¬ UrlPreserved (httpHost ["collX", "coll"]) (bytesOf "coll") (bytesOf "/coll/1") (some (bytesOf "q=f")) := by
  decide +kernel

/-- The full-strength statement fails on the current code. -/
theorem c15_url_preserved_false : ¬ C15Full := by
  intro h
  exact c15_dot_segment_cex (h (httpHost ["api"]) (bytesOf "coll") (bytesOf "/coll/..") (some (bytesOf "q=f"))
    (by decide +kernel) (by decide +kernel) (by decide +kernel) (by decide +kernel))

/-! ## Non-vacuity -/

/-- a base with scheme, host:port, a multi-segment context ending in the root (with a sibling that
merely shares a prefix AFTER it is impossible, so: prefix-sharing segment is absent before), trailing slash -/
def sampleBase : Base :=
  { authority := some { scheme := bytesOf "HTTPS", name := bytesOf "example.com", port := bytesOf "8080", hasPort := true },
    segs := [bytesOf "api", bytesOf "v%32", bytesOf "coll"], trailingSlash := true }
def sampleRp : Bytes := bytesOf "/coll/a%2Fb%3F%23%3B%25/%2E%2E//(k:1,l:'')"
def sampleQ : Option Bytes := some (bytesOf "q=find&x=(a:1)&y=%25?z")

example : sampleBase.wf = true := by decide +kernel
example : resourcePathOk (bytesOf "coll") sampleRp = true := by decide +kernel
example : queryText (sampleQ.getD []) = true := by decide +kernel
example : RootOnlyLast sampleBase.segs (bytesOf "coll") := by decide +kernel
example : NoDotSegments (expectedPath sampleBase.segs (bytesOf "coll") sampleRp) := by decide +kernel
example : FirstRootIsLast sampleBase.segs (bytesOf "coll") := by decide +kernel
/-- … and the URL text that comes out -/
example : (match parse sampleBase.text with
    | .ok base => (match requestUrl base (bytesOf "coll") sampleRp sampleQ with
      | .ok u => Url.toString u | _ => [])
    | _ => []) =
    bytesOf "https://example.com:8080/api/v%32/coll/a%2Fb%3F%23%3B%25/%2E%2E//(k:1,l:'')?q=find&x=(a:1)&y=%25?z" := by
  decide +kernel

/-- a context whose last segment merely shares a prefix with the root is inside the theorem -/
example : FirstRootIsLast (httpHost ["api", "collX"]).segs (bytesOf "coll") ∧
    RootOnlyLast (httpHost ["api", "collX"]).segs (bytesOf "coll") := by decide +kernel
/-- a host-less base with empty context, no query -/
example : UrlPreserved { authority := none, segs := [], trailingSlash := false } (bytesOf "coll") (bytesOf "/coll") none := by
  decide +kernel

end Restli.HttpUrl
