import Restli.Proofs.KeySet
import Restli.Proofs.Equals
/-! # C16 — batch calls correlate every response entry with the caller's original key

Model: `Model/KeySet.lean` (`restli/batchkeyset/{generic,primitive,set}.go`,
`BatchResponse.UnmarshalWithKeyLocator`, the key-part-only equality of generated complex keys).
Keys carry an identity tag `Key.id` that nothing in the model inspects: "the very key value the
caller supplied" is equality of `Key`s *including* the tag.

Parameters of the theorems (the codec side, C01/C03, and C10 enter here as hypotheses):
* `O : KeyOps α` — the key type's `Equals` and `ComputeHash().MapKey()`;
  `HashCongrOn O keys` — Equal keys among `keys` hash alike — is C10's `hash_congr` (for keys
  containing floats it holds only without `+0/−0` pairs: F15);
* symmetry / transitivity of `O.eq` on the keys involved (C10; excludes nothing but is not free);
* `encode`/`enc` — `MarshalRestLi` into the query-parameter writer; `EncInj`: inequivalent keys have
  different encodings (C01: the encoding can be decoded back to an Equal key);
* `decode` — `NewRor2Reader` + `UnmarshalRestLi[K]` of a JSON member name; the theorems only use
  "the decoded key is Equal to a stored key", never how it was obtained (F4 lives there);
* `goEq` — Go's key equality on the response maps' key type `K` (pointer identity / `==`).

Hypotheses and what they stand for (none of them guards against a defect of the current code)
* `HashCongrOn`, symmetry/transitivity of `O.eq` — laws of the key type, from C10; they hold for
  float-bearing keys since `fix: hash -0.0 like +0.0`;
* `ADoc.Located` / `FieldsOnce` in `c16_response_accepted_when_wellformed` — what "a well-formed
  reply about requested keys" means. The *correlation* theorem `c16_response_filed_under_original`
  needs no such hypothesis: a reply naming a key or a field twice is now rejected
  (`c16_response_repeated_key_is_error`, `c16_response_repeated_field_is_error`), it no longer loses
  entries;
* primitive key sets return the stored key (`c16_prim_locate_returns_original`), `+0/−0` included. -/
namespace Restli.KeySet
open Restli Restli.Equals

variable {α V : Type}

/-! ## AddKey: duplicates are rejected, nothing else is -/

/-- A rejected key really is a duplicate of a key already in the set (no guard needed). -/
theorem c16_addKey_rejects_only_dups (O : KeyOps α) (s : GenericSet α) (t : Key α)
    (h : addKey O s t = none) : ∃ k ∈ s.allKeys, O.eq t.val k.val = true := by
  obtain ⟨k, hk, he⟩ := (addKey_eq_none_iff O s t).1 h
  exact ⟨k, mem_allKeys.2 ⟨_, bucketOf_mem hk, hk⟩, he⟩

/-- `AddKey` rejects **iff** an Equal key is already in the set — whatever bucket it hashed to,
however many unequal keys share a bucket. `HashCongrOn` (Equal keys among those at hand hash alike)
is the key type's C10 law `hash_congr`; it is a hypothesis about the *parameter* `O`, not a guard
against a defect: since `fix: hash -0.0 like +0.0` it holds for float-bearing keys too (before, the
record keys `{f:+0.0}` and `{f:−0.0}` were both accepted — see DESIGN §7 F15). -/
theorem c16_addKey_rejects_iff_dup (O : KeyOps α) (s : GenericSet α) (t : Key α)
    (g : Good O s) (hc : HashCongrOn O (t :: s.allKeys)) :
    addKey O s t = none ↔ ∃ k ∈ s.allKeys, O.eq t.val k.val = true :=
  addKey_none_iff_dup g t hc

/-- a key type as generated for `record K { f: double }`: Equals is `==`, hash is `HashFloat64` -/
def floatKeyOps : KeyOps UInt64 := ⟨floatEq64, fun b => Fnv.hashFloat64 Fnv.paramsV2 b⟩

/-- that key type satisfies the hypothesis unconditionally: `==` floats hash alike -/
theorem c16_float_keys_hash_congr (keys : List (Key UInt64)) : HashCongrOn floatKeyOps keys := by
  intro a _ b _ he
  simp only [floatKeyOps, Fnv.hashFloat64, Fnv.addFloat64] at he ⊢
  rw [floatEq64_normZero _ _ he]

/-- `AddAllKeys` on an empty set succeeds iff no key of the list is Equal to an earlier one; on
success the set holds exactly the caller's keys (as objects), and is well formed. On failure no
request is built (`BatchGet` & co. return the error before `NewGetRequest`). -/
theorem c16_addAll_rejects_iff_dup (O : KeyOps α) (ts : List (Key α)) (hc : HashCongrOn O ts) :
    (ts.Pairwise (fun a b => O.eq b.val a.val = false) →
      ∃ s, addAll O ts = .inr s ∧ Good O s ∧ s.allKeys.Perm ts) ∧
    (¬ ts.Pairwise (fun a b => O.eq b.val a.val = false) → ∃ j, addAll O ts = .inl j) := by
  have h := addAllFrom_spec (O := O) ts 0 GenericSet.empty (good_empty O)
    (by simpa [GenericSet.empty, GenericSet.allKeys] using hc)
  simp only [GenericSet.empty, GenericSet.allKeys, List.flatMap_nil, List.nil_append, NoDups,
    List.not_mem_nil, false_imp_iff, implies_true, true_and] at h
  exact h

/-! ## LocateOriginalKey -/

/-- For any probe Equal to a stored key, `LocateOriginalKey` returns **that stored key object**
(same identity tag) — not the probe, not another key of the same bucket. -/
theorem c16_locate_returns_original (O : KeyOps α) (s : GenericSet α) (g : Good O s)
    (k probe : Key α) (hk : k ∈ s.allKeys) (he : O.eq k.val probe.val = true)
    (hhash : O.hash k.val = O.hash probe.val)
    (hsymm : ∀ a ∈ s.allKeys, O.eq a.val probe.val = true → O.eq probe.val a.val = true)
    (htrans : ∀ a ∈ s.allKeys, ∀ b ∈ s.allKeys, O.eq b.val probe.val = true →
      O.eq probe.val a.val = true → O.eq b.val a.val = true) :
    locate O s probe = some k :=
  locate_eq_some g hk he hhash hsymm htrans

/-- Whatever `LocateOriginalKey` returns is one of the caller's keys and is Equal to the probe. -/
theorem c16_locate_sound (O : KeyOps α) (s : GenericSet α) (probe o : Key α)
    (h : locate O s probe = some o) : o ∈ s.allKeys ∧ O.eq o.val probe.val = true :=
  locate_mem h

/-! ## the `ids` parameter -/

/-- When every key marshals, the transmitted `ids` are the encodings of exactly the keys of the
set — one item per key (`Perm`), so each id once, none missing — in ascending byte order. If the
encoding separates inequivalent keys (`EncInj`) no item is repeated and the order is strict. -/
theorem c16_ids_each_once_sorted (O : KeyOps α) (s : GenericSet α) (g : Good O s)
    (encode : α → Option Bytes) (enc : α → Bytes)
    (henc : ∀ k ∈ s.allKeys, encode k.val = some (enc k.val)) :
    ∃ l, s.ids encode = some l ∧
      l.Perm (s.allKeys.map (fun k => enc k.val)) ∧
      l.length = s.keyCount ∧
      l.Pairwise (fun a b => bytesLe a b = true) ∧
      (HashCongrOn O s.allKeys →
        (∀ a ∈ s.allKeys, ∀ b ∈ s.allKeys, O.eq a.val b.val = true → O.eq b.val a.val = true) →
        EncInj O enc → l.Nodup ∧ l.Pairwise (fun a b => bytesLe a b = true ∧ a ≠ b)) := by
  refine ⟨isort bytesLe (s.allKeys.map (fun k => enc k.val)), ?_, isort_perm _ _, ?_, sortIds_sorted _, ?_⟩
  · simp [GenericSet.ids, encodeIds, mapM_encode_some encode enc s.allKeys henc]
  · rw [(isort_perm _ _).length_eq, List.length_map, g.count]
  · intro hc hs hinj
    have hnd : (isort bytesLe (s.allKeys.map (fun k => enc k.val))).Nodup :=
      (isort_perm _ _).symm.nodup (enc_nodup g enc hc hs hinj)
    exact ⟨hnd, sorted_strict (sortIds_sorted _) hnd⟩

/-- The `ids` list is the same for every iteration order of the bucket map (and of the buckets'
insertion history): it is a function of the multiset of keys. -/
theorem c16_ids_order_independent (encode : α → Option Bytes) (enc : α → Bytes)
    (keys keys' : List (Key α)) (hp : keys.Perm keys')
    (henc : ∀ k ∈ keys, encode k.val = some (enc k.val)) :
    encodeIds encode keys = encodeIds encode keys' := by
  have henc' : ∀ k ∈ keys', encode k.val = some (enc k.val) := fun k hk => henc k (hp.mem_iff.2 hk)
  simp only [encodeIds, mapM_encode_some encode enc keys henc, mapM_encode_some encode enc keys' henc',
    Option.map_some]
  rw [sortIds_perm (hp.map _)]

/-- If a key does not marshal, encoding fails as a whole: no partial `ids` list is sent. -/
theorem c16_ids_marshal_error (encode : α → Option Bytes) (s : GenericSet α)
    (h : ∃ k ∈ s.allKeys, encode k.val = none) : s.ids encode = none := by
  simp [GenericSet.ids, encodeIds, mapM_encode_none encode s.allKeys h]

/-- What happens when the encoding is **not** injective on inequivalent keys: both keys are
accepted, and the same id string is transmitted twice (here two unequal keys encoded alike —
in Go: two NaN float keys, which are never Equal and both print as `NaN`). -/
theorem c16_ids_non_injective_sends_twice :
    ∃ (O : KeyOps Nat) (enc : Nat → Bytes) (s : GenericSet Nat),
      addAll O [⟨1, 1⟩, ⟨2, 2⟩] = .inr s ∧ s.ids (fun k => some (enc k)) = some [[78], [78]] :=
  ⟨⟨fun a b => a == b, fun a => a.toUInt32⟩, fun _ => [78], _, rfl, by decide⟩

/-! ## the response -/

/-- **Every entry of results, statuses and errors is filed under the caller's own key — full
strength, no guard.** Whenever unmarshalling a response succeeds, then for *every* occurrence of
one of the three fields in the document: each of its raw member names decoded to a key `p` and was
located to a key `k` that is one of the caller's key objects (`k ∈ s.allKeys`, identity tag
included) and Equal to `p`; these located keys are pairwise distinct; and the resulting map is
**exactly** the field's entries re-keyed by them — same length, same order, same values: none
lost, none duplicated, none moved to another key. (A reply that would lose an entry — a key or a
field named twice — is not accepted at all: see the two theorems below.) -/
theorem c16_response_filed_under_original (O : KeyOps α) (s : GenericSet α)
    (decode : Bytes → Option (Key α)) (goEq : Key α → Key α → Bool) (strict : Bool)
    (doc : List (FieldTag × List (Bytes × Option V))) (b : BatchResponse α V)
    (h : unmarshalWithKeyLocator strict (locateFromReader decode (locate O s)) goEq doc = .ok b) :
    ∀ f ∈ doc, f.1 ≠ .other → ∃ es : List (AEntry α V), f.2 = es.map AEntry.plain ∧
      (∀ e ∈ es, e.2.1 ∈ s.allKeys ∧ ∃ p, decode e.1 = some p ∧ locate O s p = some e.2.1 ∧
        O.eq e.2.1.val p.val = true) ∧
      NoRepeat goEq (es.map (·.2.1)) ∧ b.get f.1 = some (es.map AEntry.filed) := by
  simp only [unmarshalWithKeyLocator] at h
  cases hf : unmarshalFields strict (locateFromReader decode (locate O s)) goEq [] {} doc with
  | error x => simp [hf] at h
  | ok b' =>
    simp only [hf] at h
    split at h
    · simp only [Except.ok.injEq] at h
      subst h
      obtain ⟨_, _, h3, _⟩ := unmarshalFields_sound strict _ goEq doc [] {} b' hf
      intro f hfm hne
      obtain ⟨es, e1, e2, e3, e4⟩ := h3 f hfm hne
      refine ⟨es, e1, fun e he => ?_, e3, e4⟩
      have hlo := e2 e he
      simp only [locateFromReader] at hlo
      cases hd : decode e.1 with
      | none => simp [hd] at hlo
      | some p =>
        simp only [hd] at hlo
        cases hlc : locate O s p with
        | none => simp [hlc] at hlo
        | some o =>
          simp only [hlc, Except.ok.injEq] at hlo
          subst hlo
          exact ⟨(locate_mem hlc).1, p, rfl, hlc, (locate_mem hlc).2⟩
    · simp at h

/-- Conversely a well-formed reply about requested keys **is accepted**: if every raw key decodes
to something Equal to a stored key (annotation `k`), no field names one key twice, each of the
three fields occurs at most once, `results` is present (and, in v2, there is no other member), then
unmarshalling succeeds and yields exactly the entries re-keyed by those stored key objects. -/
theorem c16_response_accepted_when_wellformed (O : KeyOps α) (s : GenericSet α) (g : Good O s)
    (decode : Bytes → Option (Key α)) (goEq : Key α → Key α → Bool) (strict : Bool) (d : ADoc α V)
    (hother : ∀ f ∈ d, f.1 = .other → strict = false)
    (hsrv : ∀ f ∈ d, f.1 ≠ .other → ∀ e ∈ f.2, e.2.1 ∈ s.allKeys ∧
      ∃ p, decode e.1 = some p ∧ O.eq e.2.1.val p.val = true ∧ O.hash e.2.1.val = O.hash p.val ∧
        (∀ a ∈ s.allKeys, O.eq a.val p.val = true → O.eq p.val a.val = true) ∧
        (∀ a ∈ s.allKeys, ∀ b ∈ s.allKeys, O.eq b.val p.val = true → O.eq p.val a.val = true →
          O.eq b.val a.val = true))
    (hnr : ∀ f ∈ d, f.1 ≠ .other → NoRepeat goEq (f.2.map (·.2.1)))
    (honce : FieldsOnce [] (d.map (·.1)))
    (hres : FieldTag.results ∈ d.map (·.1)) :
    ∃ b, unmarshalWithKeyLocator strict (locateFromReader decode (locate O s)) goEq d.plain = .ok b ∧
      ∀ pre post t es, d = pre ++ (t, es) :: post → t ≠ .other → b.get t = some (es.map AEntry.filed) := by
  have hloc : d.Located strict (locateFromReader decode (locate O s)) goEq := by
    intro f hf
    refine ⟨hother f hf, fun hne => ⟨fun e he => ?_, hnr f hf hne⟩⟩
    obtain ⟨hk, p, hd, he', hh, hs, ht⟩ := hsrv f hf hne e he
    simp [locateFromReader, hd, locate_eq_some g hk he' hh hs ht]
  have hok := unmarshalFields_ok strict _ goEq d [] {} hloc honce
  refine ⟨specFields {} d, ?_, ?_⟩
  · simp only [unmarshalWithKeyLocator, hok]
    have : d.plain.any (fun f => f.1 == .results) = true := by
      simp only [ADoc.plain, List.any_map, List.any_eq_true]
      obtain ⟨f, hf, hft⟩ := List.mem_map.1 hres
      exact ⟨f, hf, by simp [Function.comp, hft]⟩
    simp [this]
  · intro pre post t es hd ht
    subst hd
    have hlast : t ∉ post.map (·.1) := by
      have := FieldsOnce.not_mem_post (pre.map (·.1)) (post.map (·.1)) (t := t) (by simpa using honce) ht
      exact this
    exact specFields_get_last _ pre post t es ht hlast

/-- **A key named twice in one of the three maps is an error** (it used to lose an entry
silently): if the original an entry is located to already has an entry in the map being filled,
the fill — hence the whole unmarshal — fails with `repeatedKey`. -/
theorem c16_response_repeated_key_is_error (locator : Bytes → Except ErrClass (Key α))
    (goEq : Key α → Key α → Bool) (m : List (Key α × V)) (raw : Bytes) (v : Option V)
    (rest : List (Bytes × Option V)) (o : Key α) (hl : locator raw = .ok o)
    (hp : ∃ kv ∈ m, goEq kv.1 o = true) :
    fillField locator goEq m ((raw, v) :: rest) = .error .repeatedKey :=
  fillField_repeated locator goEq m raw v rest o hl hp

/-- **A field named twice is an error** (its first occurrence used to be dropped silently). -/
theorem c16_response_repeated_field_is_error (strict : Bool) (locator : Bytes → Except ErrClass (Key α))
    (goEq : Key α → Key α → Bool) (seen : List FieldTag) (b : BatchResponse α V) (tag : FieldTag)
    (entries : List (Bytes × Option V)) (rest : List (FieldTag × List (Bytes × Option V)))
    (ht : tag ≠ .other) (hs : tag ∈ seen) :
    unmarshalFields strict locator goEq seen b ((tag, entries) :: rest) = .error .repeatedField :=
  unmarshalFields_repeated_field strict locator goEq seen b tag entries rest ht hs

/-- The result is never extended: every key of every resulting map is one of the caller's key
objects. -/
theorem c16_response_keys_are_callers (O : KeyOps α) (s : GenericSet α)
    (decode : Bytes → Option (Key α)) (goEq : Key α → Key α → Bool) (strict : Bool)
    (doc : List (FieldTag × List (Bytes × Option V))) (b : BatchResponse α V)
    (h : unmarshalWithKeyLocator strict (locateFromReader decode (locate O s)) goEq doc = .ok b) :
    ∀ t m, b.get t = some m → ∀ kv ∈ m, kv.1 ∈ s.allKeys := by
  intro t m hm kv hkv
  have hfiled := c16_response_filed_under_original O s decode goEq strict doc b h
  simp only [unmarshalWithKeyLocator] at h
  cases hf : unmarshalFields strict (locateFromReader decode (locate O s)) goEq [] {} doc with
  | error x => simp [hf] at h
  | ok b' =>
    simp only [hf] at h
    split at h
    · simp only [Except.ok.injEq] at h
      subst h
      obtain ⟨_, h2, _, _⟩ := unmarshalFields_sound strict _ goEq doc [] {} b' hf
      by_cases hin : t ∈ doc.map (·.1)
      · obtain ⟨f, hfm, rfl⟩ := List.mem_map.1 hin
        have hne : f.1 ≠ .other := by
          intro e; rw [e] at hm; simp [BatchResponse.get] at hm
        obtain ⟨es, _, e2, _, e4⟩ := hfiled f hfm hne
        rw [e4] at hm
        simp only [Option.some.injEq] at hm
        subst hm
        obtain ⟨e, he, rfl⟩ := List.mem_map.1 hkv
        exact (e2 e he).1
      · rw [h2 t hin] at hm
        cases t <;> simp [BatchResponse.get] at hm
    · simp at h

/-- **A response that mentions a key which was never requested is an error**: if some raw key
of `results`, `statuses` or `errors` decodes to a key that is Equal to none of the caller's
keys (or does not decode at all), unmarshalling fails — it never returns a result. -/
theorem c16_unknown_key_is_error (O : KeyOps α) (s : GenericSet α)
    (decode : Bytes → Option (Key α)) (goEq : Key α → Key α → Bool) (strict : Bool)
    (doc : List (FieldTag × List (Bytes × Option V)))
    (h : ∃ f ∈ doc, f.1 ≠ .other ∧ ∃ e ∈ f.2,
      decode e.1 = none ∨ ∃ p, decode e.1 = some p ∧ ∀ k ∈ s.allKeys, O.eq k.val p.val = false) :
    ∃ x, unmarshalWithKeyLocator strict (locateFromReader decode (locate O s)) goEq doc = .error x := by
  cases hu : unmarshalWithKeyLocator strict (locateFromReader decode (locate O s)) goEq doc with
  | error x => exact ⟨x, rfl⟩
  | ok b =>
    obtain ⟨f, hf, hne, e, he, hbad⟩ := h
    obtain ⟨es, e1, e2, _, _⟩ := c16_response_filed_under_original O s decode goEq strict doc b hu f hf hne
    rw [e1] at he
    obtain ⟨a, ha, rfl⟩ := List.mem_map.1 he
    obtain ⟨ho, p, hp, _, heq⟩ := e2 a ha
    simp only [AEntry.plain] at hbad
    rcases hbad with hnone | ⟨p', hp', hall⟩
    · rw [hnone] at hp; cases hp
    · rw [hp'] at hp
      cases hp
      have := hall _ ho
      rw [heq] at this
      cases this

/-- The unknown key is reported as such (error class `unknownKey`) by the locator itself. -/
theorem c16_unknown_key_class (O : KeyOps α) (s : GenericSet α) (decode : Bytes → Option (Key α))
    (raw : Bytes) (p : Key α) (hd : decode raw = some p)
    (h : ∀ k ∈ s.allKeys, O.eq k.val p.val = false) :
    locateFromReader decode (locate O s) raw = .error .unknownKey := by
  simp [locateFromReader, hd, locate_eq_none h]

/-! ## complex keys -/

/-- Generated complex keys compare and hash by their **key part only** (`ComplexKeyEquals`,
`ComputeComplexKeyHash`): the verdict and the hash are the key record's, whatever the two
`$params` are; hence a key whose key part is Equal to a stored key's is rejected as a duplicate
whatever its params, and (by `c16_locate_returns_original` instantiated with `complexOps K`) a
params-less key decoded from the response locates the caller's original key *with* its params. -/
theorem c16_complex_keys_ignore_params {κ π : Type} (K : KeyOps κ)
    (s : GenericSet (ComplexKey κ π)) (g : Good (complexOps K) s) (i j : Nat)
    (a b : ComplexKey κ π) (hin : (⟨i, a⟩ : Key _) ∈ s.allKeys)
    (hk : K.eq b.key a.key = true) (hh : K.hash b.key = K.hash a.key) :
    (∀ p q : Option π, (complexOps K).eq ⟨b.key, p⟩ ⟨a.key, q⟩ = K.eq b.key a.key ∧
        (complexOps K).hash ⟨b.key, p⟩ = K.hash b.key) ∧
    (∀ p : Option π, addKey (complexOps K) s ⟨j, ⟨b.key, p⟩⟩ = none) := by
  refine ⟨fun p q => ⟨rfl, rfl⟩, fun p => ?_⟩
  refine (addKey_eq_none_iff _ s _).2 ⟨⟨i, a⟩, ?_, hk⟩
  have := (mem_allKeys_iff_bucket g).1 hin
  simpa [complexOps, hh] using this

/-! ## primitive key sets -/

/-- `primitiveKeySet.AddKey` rejects exactly the keys `==` to one already present (Go map
lookup; no hashing is involved, so no guard). A NaN is never a duplicate, not even of itself. -/
theorem c16_prim_addKey_rejects_iff_dup (s : PrimSet) (t : Key Prim) :
    s.addKey t = none ↔ ∃ k ∈ s.keys, Prim.eq t.val k.val = true := by
  simp only [PrimSet.addKey]
  split
  · next h => simp only [List.any_eq_true] at h; simp [h]
  · next h => simp only [List.any_eq_true] at h; simp [h]

/-- **Full strength.** `primitiveKeySet.LocateOriginalKey` returns the **stored** key — the value
the caller added, identity tag and bit pattern included — for every probe `==` to it; in
particular the caller's `+0.0` when the server answers `-0`. (`PrimGood`: the set was built by
`AddKey`, `primGood_addKey`.) -/
theorem c16_prim_locate_returns_original (s : PrimSet) (g : PrimGood s) (k probe : Key Prim)
    (hk : k ∈ s.keys) (he : Prim.eq probe.val k.val = true) : s.locate probe = some k := by
  simp only [PrimSet.locate]
  have hpw : s.keys.Pairwise (fun a b => Prim.eq b.val a.val = false) := g
  apply find?_unique hpw hk he
  intro a b hr hpa hpb
  -- probe == a and probe == b give b == a, contradicting the invariant
  have h1 : Prim.eq b.val probe.val = true := by rw [Prim.eq_symm]; exact hpb
  have := Prim.eq_trans _ _ _ h1 hpa
  rw [hr] at this
  cases this

/-- whatever the primitive set returns is one of the caller's keys and `==` to the probe -/
theorem c16_prim_locate_sound (s : PrimSet) (probe o : Key Prim) (h : s.locate probe = some o) :
    o ∈ s.keys ∧ Prim.eq probe.val o.val = true := by
  simp only [PrimSet.locate] at h
  have := List.find?_some h
  exact ⟨List.mem_of_find?_eq_some h, by simpa using this⟩

/-- A probe that is `==` to no key of the set is not found (→ "Unknown key" error). -/
theorem c16_prim_unknown_key (s : PrimSet) (probe : Key Prim)
    (h : ∀ k ∈ s.keys, Prim.eq probe.val k.val = false) : s.locate probe = none := by
  simp only [PrimSet.locate, List.find?_eq_none]
  intro x hx
  simp [h x hx]

/-! ## Non-vacuity -/

/-- a key type with deliberately colliding hashes (`hash = v mod 2`): three keys, two buckets -/
def collOps : KeyOps Nat := ⟨fun a b => a == b, fun a => (a % 2).toUInt32⟩

def sampleSet : GenericSet Nat := ⟨[(1, [⟨10, 1⟩, ⟨11, 3⟩]), (0, [⟨12, 2⟩])], 3⟩

example : addAll collOps [⟨10, 1⟩, ⟨11, 3⟩, ⟨12, 2⟩] = .inr sampleSet := by decide
example : addAll collOps [⟨10, 1⟩, ⟨11, 3⟩, ⟨12, 2⟩, ⟨13, 3⟩] = .inl 3 := by decide
/-- the colliding, unequal key 3 is found behind key 1 in its bucket, with its own tag -/
example : locate collOps sampleSet ⟨99, 3⟩ = some ⟨11, 3⟩ := by decide
example : locate collOps sampleSet ⟨99, 5⟩ = none := by decide
example : sampleSet.ids (fun k => some [48 + k.toUInt8]) = some [[49], [50], [51]] := by decide
/-- a reply mentioning all three keys across the three maps, in another order -/
example : (unmarshalWithKeyLocator false
    (locateFromReader (fun raw => some ⟨99, raw.length⟩) (locate collOps sampleSet))
    (fun a b => a.id == b.id)
    [(.statuses, [([0, 0, 0], some 7)]), (.other, [([9], none)]),
     (.results, [([0, 0], some 200), ([0], some 201)]), (.errors, [([0, 0, 0], some 500)])]).toOption.map
      (fun b => (b.results, b.statuses, b.errors))
    = some (some [(⟨12, 2⟩, 200), (⟨10, 1⟩, 201)], some [(⟨11, 3⟩, 7)], some [(⟨11, 3⟩, 500)]) := by
  rfl
/-- an unknown key, and a missing `results` -/
example : (unmarshalWithKeyLocator true
    (locateFromReader (fun raw => some ⟨99, raw.length⟩) (locate collOps sampleSet))
    (fun a b => a.id == b.id) [(.results, [([0, 0, 0, 0], some (200 : Nat))])]).toOption.isNone = true := by
  decide
example : (unmarshalWithKeyLocator (α := Nat) (V := Nat) true (fun _ => .error .badKey) (fun a b => a.id == b.id)
    [(.statuses, [])]) = .error .missingResults := by rfl
/-- v2 rejects a response with any other member (`NoSuchFieldErr`), the root module skips it -/
example : (unmarshalWithKeyLocator (α := Nat) (V := Nat) true (fun _ => .error .badKey) (fun a b => a.id == b.id)
    [(.results, []), (.other, [])]) = .error .noSuchField := by rfl
example : (unmarshalWithKeyLocator (α := Nat) (V := Nat) false (fun _ => .error .badKey) (fun a b => a.id == b.id)
    [(.results, []), (.other, [])]) = .ok { results := some [] } := by rfl
/-- a key named twice in `results`, and `results` itself twice: both rejected -/
example : (unmarshalWithKeyLocator true
    (locateFromReader (fun raw => some ⟨99, raw.length⟩) (locate collOps sampleSet))
    (fun a b => a.id == b.id) [(.results, [([0], some (200 : Nat)), ([7], some 201)])]) = .error .repeatedKey := by rfl
example : (unmarshalWithKeyLocator true
    (locateFromReader (fun raw => some ⟨99, raw.length⟩) (locate collOps sampleSet))
    (fun a b => a.id == b.id) [(.results, [([0], some (200 : Nat))]), (.results, [([0, 0], some 500)])])
    = .error .repeatedField := by rfl
/-- the former F15 witnesses: `{f:+0.0}` then `{f:−0.0}` is a duplicate; the primitive set hands
back the caller's `+0.0` for the probe `−0.0` -/
example : addAll floatKeyOps [⟨1, 0⟩, ⟨2, 0x8000000000000000⟩] = .inl 1 := by decide
example : (PrimSet.mk [⟨1, .f64 0⟩]).locate ⟨2, .f64 0x8000000000000000⟩ = some ⟨1, .f64 0⟩ := by decide
/-- the hypothesis `HashCongrOn` is necessary: with a (hypothetical) key type whose hash is not
congruent with its equality, an Equal key in another bucket is accepted -/
example : addAll (⟨fun _ _ => true, fun a => a.toUInt32⟩ : KeyOps Nat) [⟨1, 1⟩, ⟨2, 2⟩] ≠ .inl 1 := by decide
/-- complex keys: same key part, different params — a duplicate -/
example : addAll (complexOps (π := Nat) collOps) [⟨1, ⟨5, some 1⟩⟩, ⟨2, ⟨5, some 2⟩⟩] = .inl 1 := by decide
example : locate (complexOps (π := Nat) collOps) ⟨[(1, [⟨1, ⟨5, some 1⟩⟩])], 1⟩ ⟨9, ⟨5, none⟩⟩
    = some ⟨1, ⟨5, some 1⟩⟩ := by decide

end Restli.KeySet
