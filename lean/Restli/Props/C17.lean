import Restli.Proofs.SharedCells
/-!
# C17 — concurrent use: requests do not interfere

Scope of what is proved here. The objects are those of `Model/SharedCells.lean`: an interleaving
semantics in which every access to a shared cell is one atomic step. *Data races* (Go memory model)
are not expressible in it and are not claimed absent by any theorem below; they are observed by the
race-detector harness of this check. What the theorems carry is the non-interference argument:
requests that write only request-local state commute, for every schedule, any number of requests and
any number of steps — and the two places where today's code does write a shared cell.
-/
namespace Restli.SharedCells

universe u v

/-- **Requests commute.** If no action of any request changes the shared state it starts from
(whatever request-local state, satisfying a local invariant `I`, it is run from), then for EVERY
schedule — any number of requests, any number of steps — the shared cells are unchanged and every
request is exactly where it would be had it taken the same number of steps with nobody else running. -/
theorem c17_requests_commute {S : Type u} {L : Type v} (sys : Sys S L) (I : L → Prop)
    (hI : ∀ t ∈ sys.threads, I t.loc)
    (hro : ∀ t ∈ sys.threads, ∀ a ∈ t.todo, ReadOnlyAt sys.shared I a)
    (sched : Schedule) :
    (run sys sched).shared = sys.shared ∧
    ∀ i t, sys.threads[i]? = some t →
      (run sys sched).threads[i]? = some (advance sys.shared t (sched.count i)).2 := by
  cases sys with
  | mk s0 ts => exact run_ro s0 I sched ts (fun t ht => ⟨hI t ht, hro t ht⟩)

/-- **Each request observes its serial outcome.** Under the same premise, once a request has been
given at least as many steps as it has actions, its final local state (status, headers, body, keys,
parameters, chosen adapter …) is the one of the run in which it is alone, and that run leaves the
shared cells unchanged too. -/
theorem c17_requests_commute_complete {S : Type u} {L : Type v} (sys : Sys S L) (I : L → Prop)
    (hI : ∀ t ∈ sys.threads, I t.loc)
    (hro : ∀ t ∈ sys.threads, ∀ a ∈ t.todo, ReadOnlyAt sys.shared I a)
    (sched : Schedule) (i : Nat) (t : Thread S L)
    (hi : sys.threads[i]? = some t) (hdone : t.todo.length ≤ sched.count i) :
    (run sys sched).threads[i]? = some (runAlone sys.shared t).2 ∧
    (runAlone sys.shared t).1 = sys.shared ∧ (runAlone sys.shared t).2.todo = [] := by
  have h := (c17_requests_commute sys I hI hro sched).2 i t hi
  rw [advance_ge hdone] at h
  have ht : t ∈ sys.threads := List.mem_of_getElem? hi
  refine ⟨h, (advance_ro (I := I) ⟨hI t ht, hro t ht⟩ _).1, ?_⟩
  have := advance_todo_length sys.shared t t.todo.length
  simpa [runAlone, List.length_eq_zero_iff] using this

/-- **One writer.** If one thread `w` changes the shared state only inside a region (`R`-classes:
"equal outside the region"), and every other thread only reads and computes the same result on
`R`-related states (it never looks inside the region), then for every schedule the writer and the
shared state are exactly where the writer's solo run puts them, and every other request is where
its own solo run from the initial state puts it. -/
theorem c17_single_writer_commute {S : Type u} {L : Type v} (R : S → S → Prop) (hrefl : ∀ s, R s s)
    (sys : Sys S L) (w : Nat) (tw : Thread S L) (hw : sys.threads[w]? = some tw)
    (hwithin : ∀ a ∈ tw.todo, ∀ s l, R s (a.step s l).1)
    (hblind : ∀ i t, i ≠ w → sys.threads[i]? = some t → ∀ a ∈ t.todo,
      (∀ s l, (a.step s l).1 = s) ∧ ∀ s s' l, R s s' → (a.step s l).2 = (a.step s' l).2)
    (sched : Schedule) :
    (run sys sched).shared = (advance sys.shared tw (sched.count w)).1 ∧
    (run sys sched).threads[w]? = some (advance sys.shared tw (sched.count w)).2 ∧
    ∀ i t, i ≠ w → sys.threads[i]? = some t →
      (run sys sched).threads[i]? = some (advance sys.shared t (sched.count i)).2 := by
  cases sys with
  | mk s0 ts => exact run_single_writer R hrefl w sched s0 ts tw hw hwithin hblind

/-! ## The go-restli programs -/

/-- the requests of one server — `ServeHTTP` as it is in /repo now (`serveNow`: the switch between
"stores the default message through the resource's pointer" and "completes a copy" is regenerated
from handler.go on every check) — plus any number of adapter look-ups -/
def serverSys (C : Consts) (s : Shared) (reqs : List Req) (tys : List Nat) : Sys Shared Local :=
  mkSys s (reqs.map (serveNow C) ++ tys.map loadProg)

/-- the same with the error branch as it was before /repo commit bf479cd
(`errRes.Message = …` stored through the pointer): the regression the check must catch -/
def storingSys (C : Consts) (s : Shared) (reqs : List Req) (tys : List Nat) : Sys Shared Local :=
  mkSys s (reqs.map (serveProg C false) ++ tys.map loadProg)

/-- **The server: requests do not interfere.** For both module generations as they are in /repo now,
any routing tree, registry, error objects (shared between requests or not, with or without
`Message`/`Status`), any list of requests (any mix of successes, fresh errors, shared error objects,
plain errors, panics, unknown resources and methods) and adapter look-ups, and EVERY schedule: the
shared cells are unchanged, and every request that ran to completion has the outcome of its solo
run. (Full strength since bf479cd; the proof reads `storesThroughPointer = false` off the
regenerated table, so re-introducing the store breaks it.) -/
theorem c17_server_commutes (C : Consts) (hC : C = constsV2 ∨ C = constsRoot) (s : Shared)
    (reqs : List Req) (tys : List Nat) (sched : Schedule) :
    (run (serverSys C s reqs tys) sched).shared = s ∧
    ∀ i t, (serverSys C s reqs tys).threads[i]? = some t → t.todo.length ≤ sched.count i →
      (run (serverSys C s reqs tys) sched).threads[i]? = some (runAlone s t).2 := by
  have hflag : (!C.storesThroughPointer) = true := by
    rcases hC with rfl | rfl <;> decide
  have hro : ∀ t ∈ (serverSys C s reqs tys).threads, ∀ a ∈ t.todo,
      ReadOnlyAt (serverSys C s reqs tys).shared (fun _ => True) a := by
    intro t ht a ha
    have hp := (mem_mkSys ht).2
    rcases List.mem_append.mp hp with hp | hp
    · obtain ⟨q, _, hq⟩ := List.mem_map.mp hp
      have ha' : a ∈ serveProg C true q := by
        have := hq ▸ ha
        simpa [serveNow, hflag] using this
      exact (serveProg_fixed_blind C q a ha').readOnlyAt _
    · obtain ⟨ty, _, hq⟩ := List.mem_map.mp hp
      exact (loadProg_blind ty a (hq ▸ ha)).readOnlyAt _
  refine ⟨(c17_requests_commute _ _ (fun _ _ => trivial) hro sched).1, fun i t hi hd => ?_⟩
  exact (c17_requests_commute_complete _ _ (fun _ _ => trivial) hro sched i t hi hd).1

/-- the two-request witness for F8: one error object `{Status: 404}` (no message) owned by the
resource and returned to both requests, served by the error branch that stores through the pointer -/
def errCexSys : Sys Shared Local :=
  storingSys constsV2 ⟨[(1, [1])], [], [⟨some 404, none⟩], [], 0⟩
    [⟨1, 1, 10, 20, .errShared 0⟩, ⟨1, 1, 11, 21, .errShared 0⟩] []

/-- both requests test `errRes.Message == nil` before either stores -/
def errCexSched : Schedule := [0, 0, 0, 0, 0, 1, 1, 1, 1, 1, 0, 1, 0, 0, 1, 1]

/-- **An error branch that stores through the resource's pointer writes a shared cell (F8; in /repo
until bf479cd).** The conclusion of `c17_requests_commute` ("shared cells unchanged") is false for
that program on a two-request witness: the read-only premise cannot be dropped, and the check's
seeded regression (re-introducing `errRes.Message = …`) is a genuine violation. -/
theorem c17_shared_error_object_cex :
    ¬ ∀ sched, (run errCexSys sched).shared = errCexSys.shared := by
  intro h
  exact absurd (h errCexSched) (by decide)

/-- … and on that witness BOTH requests store into the same object (the pattern the race detector
reports as a write/write race on `ErrorResponse.Message`), leaving it changed for every later request. -/
theorem c17_shared_error_object_double_write :
    (outcomes (run errCexSys errCexSched)).map (·.wrote) = [true, true] ∧
    (run errCexSys errCexSched).shared.errs = [⟨some 404, some (.statusText 404)⟩] := by
  decide

/-! ### the random source of the D2 resolver -/

/-- final shared state and outcomes -/
def final (sys : Sys Shared Local) (sched : Schedule) : Shared × List Local :=
  ((run sys sched).shared, outcomes (run sys sched))

/-- a schedule of a two-request system is equivalent to one of the two serial executions -/
def SerialEquivalent2 (sys : Sys Shared Local) (sched : Schedule) : Prop :=
  ∃ order ∈ [[0, 1], [1, 0]], final sys sched = final sys (serialSchedule sys order)

instance (sys : Sys Shared Local) (sched : Schedule) : Decidable (SerialEquivalent2 sys sched) := by
  unfold SerialEquivalent2; exact inferInstance

/- RETIRED with /repo commit 08c3f03 ("fix: serialise draws from the process-wide d2 random source").
Until then `rng.Float64()` ran without a lock (`Gen.C17.rngDrawUnlocked = true`, `resolveNow = resolveProg false`:
a read step and a write step with a gap between them) and the following was a theorem, proved by `decide`:

    def rngCexSys : Sys Shared Local :=
      mkSys ⟨[], [], [], [(7, 1), (8, 1)], 0⟩ [resolveNow constsV2, resolveNow constsV2]
    def rngCexSched : Schedule := [0, 0, 1, 1, 0, 1, 0, 1]   -- both calls read before either writes back
    theorem c17_rng_lost_update_cex :
        ¬ ∀ sched, 4 ≤ sched.count 0 → 4 ≤ sched.count 1 → SerialEquivalent2 rngCexSys sched

(both calls receive draw 0 and choose host 7, the generator stands at 1; serially the draws are 0 and 1,
the hosts 7 and 8, the generator stands at 2). The same witness stated for the explicit unlocked program
`resolveProg false` is kept among the examples at the end of this file; with the regenerated switch the
statement about `resolveNow` is now false, and `c17_resolvers_commute` below holds without the former
guard "at most one resolution in flight" of `c17_rng_partial`. -/

/-- **Random source under a lock: no draw is handed out twice.** Any number of resolver calls whose
draw is one atomic step (the repaired `rng` access), next to any number of server requests and
adapter look-ups: after EVERY schedule the draws held by different requests are pairwise distinct
and all lie below the generator position — no update is lost. -/
theorem c17_rng_locked_draws_distinct (C : Consts) (s : Shared) (nResolvers : Nat) (reqs : List Req)
    (tys : List Nat) (sched : Schedule) :
    DrawsOk
      (run (mkSys s (List.replicate nResolvers (resolveProg true) ++ (reqs.map (serveProg C true) ++ tys.map loadProg))) sched).shared
      (run (mkSys s (List.replicate nResolvers (resolveProg true) ++ (reqs.map (serveProg C true) ++ tys.map loadProg))) sched).threads := by
  apply run_drawsOk
  · intro t ht a ha
    have hp := (mem_mkSys (s := s) ht).2
    rcases List.mem_append.mp hp with hp | hp
    · rw [List.eq_of_mem_replicate hp] at ha
      exact resolveProg_locked_drawOrInert a ha
    · rcases List.mem_append.mp hp with hp | hp
      · obtain ⟨q, _, hq⟩ := List.mem_map.mp hp
        exact serveProg_fixed_drawOrInert C q a (hq ▸ ha)
      · obtain ⟨ty, _, hq⟩ := List.mem_map.mp hp
        exact loadProg_drawOrInert ty a (hq ▸ ha)
  · constructor
    · intro i t d hi hd
      have := (mem_mkSys (s := s) (List.mem_of_getElem? hi)).1
      rw [this] at hd; cases hd
    · intro i j ti tj d _ hi _ hd
      have := (mem_mkSys (s := s) (List.mem_of_getElem? hi)).1
      rw [this] at hd; cases hd

/-- **Regions.** If every thread either changes the shared state only inside a region (`R`-classes:
"equal outside the region"; `R` reflexive and transitive) or only reads and never looks inside it,
then for every schedule the shared state is unchanged outside the region and every thread of the
second kind is where its solo run from the initial state puts it — however many writers there are. -/
theorem c17_region_writers_commute {S : Type u} {L : Type v} (R : S → S → Prop) (hrefl : ∀ s, R s s)
    (htrans : ∀ a b c, R a b → R b c → R a c) (sys : Sys S L)
    (hkinds : ∀ t ∈ sys.threads,
      (∀ a ∈ t.todo, ∀ s l, R s (a.step s l).1) ∨
      (∀ a ∈ t.todo, (∀ s l, (a.step s l).1 = s) ∧ ∀ s s' l, R s s' → (a.step s l).2 = (a.step s' l).2))
    (sched : Schedule) :
    R sys.shared (run sys sched).shared ∧
    ∀ i t, sys.threads[i]? = some t →
      (∀ a ∈ t.todo, (∀ s l, (a.step s l).1 = s) ∧ ∀ s s' l, R s s' → (a.step s l).2 = (a.step s' l).2) →
      (run sys sched).threads[i]? = some (advance sys.shared t (sched.count i)).2 := by
  cases sys with
  | mk s0 ts => exact run_region_writers R hrefl htrans sched s0 ts hkinds

/-- any number of concurrent `ResolveHostnameAndContextForQuery` calls, server requests and adapter
look-ups, each as it is in /repo now -/
def resolverSys (C : Consts) (s : Shared) (n : Nat) (reqs : List Req) (tys : List Nat) : Sys Shared Local :=
  mkSys s (List.replicate n (resolveNow C) ++ (reqs.map (serveNow C) ++ tys.map loadProg))

/-- **The resolver: requests do not interfere** (full strength since 08c3f03; formerly
`c17_rng_partial`, which needed the guard "at most one resolution in flight"). For both module
generations as they are in /repo now, any number `n` of concurrent resolver calls next to any server
requests and adapter look-ups, and EVERY schedule: nothing but the generator position changes in the
shared state; the draws handed to different calls are pairwise distinct and below the generator
position (no update is lost, no draw is handed out twice); and every other request that ran to
completion has the outcome of its solo run. (The proof reads `rngUnlocked = false` off the
regenerated table, so removing the lock breaks it.) -/
theorem c17_resolvers_commute (C : Consts) (hC : C = constsV2 ∨ C = constsRoot) (s : Shared) (n : Nat)
    (reqs : List Req) (tys : List Nat) (sched : Schedule) :
    EqExceptRng s (run (resolverSys C s n reqs tys) sched).shared ∧
    DrawsOk (run (resolverSys C s n reqs tys) sched).shared (run (resolverSys C s n reqs tys) sched).threads ∧
    ∀ i t, (resolverSys C s n reqs tys).threads[i]? = some t → t.todo ≠ resolveNow C →
      t.todo.length ≤ sched.count i →
      (run (resolverSys C s n reqs tys) sched).threads[i]? = some (runAlone s t).2 := by
  have hserve : (!C.storesThroughPointer) = true := by rcases hC with rfl | rfl <;> decide
  have hlock : (!C.rngUnlocked) = true := by rcases hC with rfl | rfl <;> decide
  have hres : resolveNow C = resolveProg true := by simp [resolveNow, hlock]
  have hsrv : serveNow C = serveProg C true := by funext q; simp [serveNow, hserve]
  have hsys : resolverSys C s n reqs tys =
      mkSys s (List.replicate n (resolveProg true) ++ (reqs.map (serveProg C true) ++ tys.map loadProg)) := by
    simp [resolverSys, hres, hsrv]
  have hblindOf : ∀ t ∈ (resolverSys C s n reqs tys).threads, t.todo ≠ resolveNow C →
      ∀ a ∈ t.todo, BlindAct a := by
    intro t ht hne a ha
    rw [hsys] at ht
    have hp := (mem_mkSys ht).2
    rcases List.mem_append.mp hp with hp | hp
    · exact absurd (hres ▸ List.eq_of_mem_replicate hp) hne
    · rcases List.mem_append.mp hp with hp | hp
      · obtain ⟨q, _, hq⟩ := List.mem_map.mp hp
        exact serveProg_fixed_blind C q a (hq ▸ ha)
      · obtain ⟨ty, _, hq⟩ := List.mem_map.mp hp
        exact loadProg_blind ty a (hq ▸ ha)
  have hkinds : ∀ t ∈ (resolverSys C s n reqs tys).threads,
      (∀ a ∈ t.todo, ∀ s l, EqExceptRng s (a.step s l).1) ∨ (∀ a ∈ t.todo, BlindAct a) := by
    intro t ht
    by_cases hne : t.todo = resolveNow C
    · left; intro a ha; rw [hne, hres] at ha; exact resolveProg_within true a ha
    · right; exact hblindOf t ht hne
  have h := c17_region_writers_commute EqExceptRng eqExceptRng_refl (fun _ _ _ => eqExceptRng_trans)
    (resolverSys C s n reqs tys) hkinds sched
  refine ⟨h.1, ?_, fun i t hi hne hd => ?_⟩
  · rw [hsys]; exact c17_rng_locked_draws_distinct C s n reqs tys sched
  · have := h.2 i t hi (hblindOf t (List.mem_of_getElem? hi) hne)
    rw [advance_ge hd] at this
    exact this

/-! ## Non-vacuity -/

/-- a server with two resources, an error object shared between requests (no message, so the
current code would store into it) and one without status -/
def demoShared : Shared :=
  ⟨[(1, [1, 2]), (2, [1])], [(5, 50)], [⟨some 404, none⟩, ⟨none, none⟩], [(7, 1), (8, 3)], 0⟩

def demoReqs : List Req :=
  [⟨1, 1, 10, 20, .ok 100⟩, ⟨1, 2, 11, 21, .errShared 0⟩, ⟨2, 1, 12, 22, .panic⟩,
   ⟨3, 1, 13, 23, .ok 0⟩, ⟨1, 3, 14, 24, .ok 0⟩, ⟨2, 1, 15, 25, .errShared 1⟩, ⟨1, 1, 16, 26, .errPlain⟩]

/-- a round-robin schedule over the seven requests and the adapter look-up -/
def demoSched : Schedule := (List.replicate 9 [7, 0, 6, 1, 5, 2, 4, 3]).flatten

/-- today's server under a genuinely interleaved schedule: seven different outcomes (200 with
the request's own key and parameter, 404 from the shared object with the message filled in a copy,
500 from the panic, plain 404, 400, 500 from the status-less shared object, 500), the registered
adapter found — and the shared objects untouched. -/
example :
    (outcomes (run (serverSys constsV2 demoShared demoReqs [5]) demoSched)).map
        (fun l => (l.notFound, l.status, l.errHeader, l.body, l.adapter)) =
      [(false, 200, false, .entity 100 10 20, none),
       (false, 404, true, .error (some 404) (some (.statusText 404)), none),
       (false, 500, true, .error (some 500) (some (.custom 2)), none),
       (true, 0, false, .none, none),
       (false, 400, true, .error (some 400) (some (.custom 0)), none),
       (false, 500, true, .error none (some (.statusText 500)), none),
       (false, 500, true, .error (some 500) (some (.custom 1)), none),
       (false, 0, false, .none, some (some 50))] ∧
    (run (serverSys constsV2 demoShared demoReqs [5]) demoSched).shared = demoShared := by
  decide +kernel

/-- the same requests through the storing error branch (before bf479cd): the shared object is
changed, and the request that got the status-less object crashes outside `recover` (F8's other half) -/
example :
    (run (storingSys constsV2 demoShared demoReqs [5]) demoSched).shared.errs =
        [⟨some 404, some (.statusText 404)⟩, ⟨none, none⟩] ∧
    (outcomes (run (storingSys constsV2 demoShared demoReqs [5]) demoSched)).map (·.crashed) =
        [false, false, false, false, false, true, false, false] := by
  decide +kernel

/-- the retired witness (unlocked program, in /repo until 08c3f03), spelled out: both calls draw 0 and choose host 7, the generator stands at 1;
serially the draws are 0 and 1, the hosts 7 and 8, the generator stands at 2 -/
example :
    let unlocked := mkSys ⟨[], [], [], [(7, 1), (8, 1)], 0⟩ [resolveProg false, resolveProg false]
    (final unlocked [0, 0, 1, 1, 0, 1, 0, 1]).2.map (fun l => (l.draw, l.host)) = [(some 0, some (some 7)), (some 0, some (some 7))] ∧
    (final unlocked [0, 0, 1, 1, 0, 1, 0, 1]).1.rng = 1 ∧
    (final unlocked (serialSchedule unlocked [0, 1])).2.map (fun l => (l.draw, l.host)) =
      [(some 0, some (some 7)), (some 1, some (some 8))] ∧
    (final unlocked (serialSchedule unlocked [0, 1])).1.rng = 2 ∧
    ¬ SerialEquivalent2 unlocked [0, 0, 1, 1, 0, 1, 0, 1] := by
  decide

/-- with the draw under a lock the same schedule shape is serial-equivalent -/
example : SerialEquivalent2 (mkSys ⟨[], [], [], [(7, 1), (8, 1)], 0⟩ [resolveProg true, resolveProg true])
    [0, 1, 1, 0, 1, 0] := by
  decide

/-- three locked resolver calls interleaved step by step: draws 0, 1, 2 — each handed out once -/
example :
    (outcomes (run (mkSys ⟨[], [], [], [(7, 1), (8, 1)], 0⟩ (List.replicate 3 (resolveProg true)))
      [0, 1, 2, 2, 1, 0, 0, 1, 2])).map (·.draw) = [some 2, some 1, some 0] := by
  decide

/-- the resolver theorem on a run of two resolver calls, seven server requests and an adapter look-up,
interleaved round-robin: the generator advances twice, nothing else changes, the two calls hold
draws 0 and 1 and choose different hosts -/
example :
    (run (resolverSys constsV2 demoShared 2 demoReqs [5]) (List.replicate 9 (List.range 10)).flatten).shared =
      { demoShared with rng := 2 } ∧
    ((outcomes (run (resolverSys constsV2 demoShared 2 demoReqs [5]) (List.replicate 9 (List.range 10)).flatten)).take 2).map
      (fun l => (l.draw, l.host)) = [(some 0, some (some 7)), (some 1, some (some 8))] := by
  decide +kernel

end Restli.SharedCells
