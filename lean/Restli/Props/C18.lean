import Restli.Proofs.LazyMap
import Restli.Proofs.LazyMapRefine
import Restli.Gen.Tables
/-! # C18 — the lazy map publishes each key's value once under every interleaving

Property theorems only (helper lemmas: `Proofs/LazyMap.lean`; the linearizability theorem's
machinery: `Proofs/LazyMapRefine.lean`). The model is `Model/LazyMap.lean`: a small-step system
with one step per atomic action of `sync.Map` / the compute function / the `WaitGroup`.

Every theorem is about **all reachable states**: `Reachable s` means `s = run (init progs) sched`
for an arbitrary assignment `progs` of operation sequences to (any number of) threads and an
arbitrary schedule `sched` — no bound on threads, keys, operations or steps. -/
namespace Restli.LazyMap

/-! ## Clause 1 — the compute function for a key runs at most once -/

/-- The user compute function of a key runs at most once — not just per race but ever: keys are
never deleted, so after the first placeholder for a key no `LoadOrStore` can install another
(`Store`'s inner closure is not a user compute and is not counted). -/
theorem c18_compute_at_most_once {s : Sys} (h : Reachable s) (k : Nat) : s.computes k ≤ 1 :=
  (inv_reachable h).comp1 k

/-- At most one in-flight placeholder is ever installed for a key (by a `LoadOrStore` or by a
`Store`). -/
theorem c18_one_placeholder_per_key {s : Sys} (h : Reachable s) (k : Nat) : s.placed k ≤ 1 :=
  (inv_reachable h).placed1 k

/-! ## Clause 2 — racing callers agree -/

/-- Two completed `LoadOrStore`/`Load` calls on the same key that both went through a
placeholder — the caller that installed it and every caller that found it in flight and
waited — went through the *same* placeholder and returned the same value. -/
theorem c18_racers_agree {s : Sys} (h : Reachable s)
    {t₁ t₂ : Nat} {op₁ op₂ : Op} {r₁ r₂ : Ret} {via₁ via₂ : Via} {p₁ p₂ : Nat}
    (h₁ : Ev.ret t₁ op₁ r₁ via₁ ∈ s.trace) (h₂ : Ev.ret t₂ op₂ r₂ via₂ ∈ s.trace)
    (hp₁ : via₁.pid? = some p₁) (hp₂ : via₂.pid? = some p₂)
    (hk : op₁.key = op₂.key) (hs₁ : op₁.isStore = false) (hs₂ : op₂.isStore = false) :
    p₁ = p₂ ∧ r₁ = r₂ ∧ ∃ v, r₁ = .val v := by
  have hI := inv_reachable h
  obtain ⟨ho₁, v₁, hv₁, hr₁⟩ := via_value hI h₁ hp₁
  obtain ⟨ho₂, v₂, hv₂, hr₂⟩ := via_value hI h₂ hp₂
  rw [hk, ho₂] at ho₁
  cases ho₁
  rw [hv₁] at hv₂
  cases hv₂
  exact ⟨rfl, by rw [hr₁ hs₁, hr₂ hs₂], v₁, hr₁ hs₁⟩

/-- A racer's result is the value its placeholder's owner computed: the placeholder's `v`
field, written exactly once. -/
theorem c18_racer_returns_owner_value {s : Sys} (h : Reachable s)
    {t : Nat} {op : Op} {r : Ret} {via : Via} {p : Nat}
    (he : Ev.ret t op r via ∈ s.trace) (hp : via.pid? = some p) (hs : op.isStore = false) :
    ∃ v, (s.ph p).v = some v ∧ r = .val v := by
  obtain ⟨_, v, hv, hr⟩ := via_value (inv_reachable h) he hp
  exact ⟨v, hv, hr hs⟩

/-! ## Clause 3 — a load never returns an in-flight placeholder -/

/-- No call ever returns the content of a placeholder that has not been written (`Ret.nil`,
the observable of a leaked `*inFlightValue`): a `Load` returns "missing" or a value, a
`LoadOrStore` returns a value, a `Store` returns nothing. (That the placeholder object itself
is never returned is enforced by the type switch in the Go code, which the model mirrors: a
thread that finds `Cell.infl` goes to `wait`, it does not return.) -/
theorem c18_load_never_returns_placeholder {s : Sys} (h : Reachable s)
    {t : Nat} {op : Op} {r : Ret} {via : Via} (he : Ev.ret t op r via ∈ s.trace) :
    r ≠ .nil ∧
      match op with
      | .load _ => r = .missing ∨ ∃ v, r = .val v
      | .los _ _ => ∃ v, r = .val v
      | .store _ _ => r = .unit := by
  have hs := ((inv_reachable h).tr _ he).1
  cases op <;> simp only [retShape] at hs ⊢
  · obtain ⟨v, rfl⟩ := hs; exact ⟨by simp, v, rfl⟩
  · rcases hs with rfl | ⟨v, rfl⟩
    · exact ⟨by simp, Or.inl rfl⟩
    · exact ⟨by simp, Or.inr ⟨v, rfl⟩⟩
  · subst hs; exact ⟨by simp, rfl⟩

/-! ## Clause 4 — a load never blocks once the computation has returned -/

/-- A thread waiting on a placeholder whose owner has signalled is enabled. -/
theorem c18_waiter_enabled_once_done {s : Sys} (h : Reachable s) {i q : Nat}
    (hpc : (s.threads i).pc = .wait q) (hd : (s.ph q).done = true) :
    (step s i).isSome = true := by
  have hI := inv_reachable h
  cases hs : step s i with
  | some _ => rfl
  | none =>
    have ht := hI.thr i
    unfold TInv at ht
    split at ht
    · rw [ht] at hpc; cases hpc
    · rename_i op rest htodo
      obtain ⟨q', hq', hd'⟩ := step_none_wait hI htodo hs
      rw [hpc] at hq'; cases hq'
      rw [hd] at hd'; cases hd'

/-- The only way a thread with work left can be blocked: it waits on a placeholder whose owner
is still inside its `LoadOrStore` — and that owner is itself enabled. Once the owner has
returned, nobody is blocked on its placeholder. -/
theorem c18_blocked_only_while_owner_running {s : Sys} (h : Reachable s) {i : Nat}
    (hw : (s.threads i).todo ≠ []) (hb : step s i = none) :
    ∃ q j, (s.threads i).pc = .wait q ∧ (s.threads j).pc.owns q = true ∧
      (step s j).isSome = true := by
  have hI := inv_reachable h
  cases htodo : (s.threads i).todo with
  | nil => exact (hw htodo).elim
  | cons op rest =>
    obtain ⟨q, hq, hd⟩ := step_none_wait hI htodo hb
    have hp := TInv_cons (hI.thr i) htodo
    rw [hq] at hp
    obtain ⟨j, hj⟩ := hI.notDone q hp.1 hd
    exact ⟨q, j, hq, hj, owner_enabled hI hj⟩

/-- No deadlock: if no thread can step, every thread has finished all its operations. -/
theorem c18_no_deadlock {s : Sys} (h : Reachable s) (hq : ∀ i, step s i = none) (i : Nat) :
    (s.threads i).todo = [] := by
  cases htodo : (s.threads i).todo with
  | nil => rfl
  | cons op rest =>
    obtain ⟨q, j, _, _, hj⟩ :=
      c18_blocked_only_while_owner_running h (by rw [htodo]; simp) (hq i)
    rw [hq j] at hj; cases hj

/-- Once the computation's raw store has happened (the cell holds a plain value), a `Load`
returns that value in its single atomic step — it never waits. -/
theorem c18_load_immediate_after_store {s : Sys} {i k v : Nat} {rest : List Op}
    (hc : s.cell k = .val v) (htodo : (s.threads i).todo = .load k :: rest)
    (hpc : (s.threads i).pc = .start) :
    ∃ s', step s i = some s' ∧ (s'.threads i).rets = (s.threads i).rets ++ [.val v] ∧
      (s'.threads i).todo = rest := by
  simp [step, htodo, hpc, stepOp, Op.key, hc, advance]

/-- … and a key that holds a value never goes back to "absent" or "in flight", whatever
happens afterwards. -/
theorem c18_value_cell_stays_value {s : Sys} (sched : List Nat) (k : Nat)
    (hv : (s.cell k).isVal = true) : ((run s sched).cell k).isVal = true :=
  run_cell_val sched k hv

/-! ## Clause 5 — a store is never lost -/

/-- A `Store`'s write takes effect: whichever of its two write steps it reaches — the raw store
as placeholder owner, or the final raw store after losing/waiting — the step is enabled and
leaves the `Store`'s own value in the cell. -/
theorem c18_store_write_takes_effect {s : Sys} (h : Reachable s) {i k v : Nat} {rest : List Op}
    (htodo : (s.threads i).todo = .store k v :: rest)
    (hpc : (∃ p w, (s.threads i).pc = .rawStore p w) ∨ (s.threads i).pc = .finalStore) :
    ∃ s', step s i = some s' ∧ s'.cell k = .val v := by
  have hp := TInv_cons ((inv_reachable h).thr i) htodo
  rcases hpc with ⟨p, w, hpc⟩ | hpc
  · rw [hpc] at hp
    have hw : v = w := hp.2.2.2.2.2.1
    subst hw
    simp [step, htodo, hpc, stepOp, Op.key, setCell]
  · simp [step, htodo, hpc, stepOp, Op.key, setCell]

/-- A value in the map is only ever replaced by a `Store` operation's own final store: in
particular the raw store of an in-flight computation can never clobber a value (it happens
while the cell still holds the placeholder), so a `Store` ordered after an in-flight
computation determines the cell until the next `Store`. -/
theorem c18_store_not_lost {s s' : Sys} (h : Reachable s) {i k w : Nat}
    (hstep : step s i = some s') (hw : s.cell k = .val w) (hne : s'.cell k ≠ .val w) :
    ∃ v rest, (s.threads i).todo = .store k v :: rest ∧ (s.threads i).pc = .finalStore ∧
      s'.cell k = .val v :=
  overwrite_is_store (inv_reachable h) hstep hw hne

/-- A `Store` that has to wait for an in-flight computation performs its own write strictly
after that computation's raw store: when it stands at its final store, the cell already holds
a plain value (so the final store is the later write and wins). -/
theorem c18_final_store_after_raw_store {s : Sys} (h : Reachable s) {i : Nat}
    (hpc : (s.threads i).pc = .finalStore) :
    ∃ k v rest, (s.threads i).todo = .store k v :: rest ∧ (s.cell k).isVal = true := by
  have ht := (inv_reachable h).thr i
  unfold TInv at ht
  split at ht
  · rw [ht] at hpc; cases hpc
  · rename_i op rest htodo
    rw [hpc] at ht
    cases op with
    | store k v => exact ⟨k, v, rest, htodo, ht.2⟩
    | los _ _ => have := ht.1; simp [Op.isStore] at this
    | load _ => have := ht.1; simp [Op.isStore] at this

/-! ## Linearizability with respect to a plain map offering compute-if-absent -/

/-- **Linearizability (forward simulation).** For every assignment of programs to threads and
every schedule, the atomic-object automaton of the plain map with compute-if-absent
(`Spec/LazyMap.lean`: each call takes effect in one atomic step between its `call` and its
`ret`) has an execution `ls` from its initial state, running the same programs, such that

* its visible events — calls and responses with their results, in order — are exactly the
  visible events of the implementation run (`Ev.obs` drops the ghost `via`, `labObs` drops the
  invisible linearization steps; `call`/`ret` of the implementation coincide with a call's
  first and last atomic step, the tightest real-time order),
* every thread has the same results so far and the same calls left, and
* the specification's map is the implementation's map with in-flight placeholders read as
  "absent".

Linearization points (see `Proofs/LazyMapRefine.lean`): the atomic map access of a call that
finds a plain value or nothing; the placeholder owner's raw store, at which every reader
already waiting on the placeholder is linearized as well; a `Store`'s final raw store. -/
theorem c18_impl_refines_spec (progs : Nat → List Op) (sched : List Nat) :
    ∃ (ls : List LazyMapSpec.Label) (a : LazyMapSpec.State),
      LazyMapSpec.Steps (LazyMapSpec.init (fun t => (progs t).map opS)) ls a ∧
      ls.filterMap labObs = (run (init progs) sched).trace.map Ev.obs ∧
      (∀ t, (a.rets t).map retM = ((run (init progs) sched).threads t).rets) ∧
      (∀ t, a.todo t = ((run (init progs) sched).threads t).todo.map opS) ∧
      a.map = absMap (run (init progs) sched) := by
  obtain ⟨ls, a, hs, hR, htr⟩ := refine_run progs sched
  exact ⟨ls, a, hs, htr, hR.rets, hR.todo, hR.map⟩

/-- The translation of operations between model and specification is a bijection, so the
theorem above covers every program of the specification. -/
theorem c18_opS_bijective : (∀ o₁ o₂, opS o₁ = opS o₂ → o₁ = o₂) ∧ ∀ o', ∃ o, opS o = o' := by
  constructor
  · intro o₁ o₂ h; cases o₁ <;> cases o₂ <;> simp [opS] at h ⊢ <;> exact h
  · intro o'
    cases o' with
    | computeIfAbsent k v => exact ⟨.los k v, rfl⟩
    | load k => exact ⟨.load k, rfl⟩
    | store k v => exact ⟨.store k v, rfl⟩

/-- Results are compared through an injective translation whose range excludes `Ret.nil`: a run
in which some call returned an unwritten placeholder's content could not satisfy
`c18_impl_refines_spec`. -/
theorem c18_retM_injective : (∀ r₁ r₂, retM r₁ = retM r₂ → r₁ = r₂) ∧ ∀ r, retM r ≠ .nil := by
  constructor
  · intro r₁ r₂ h; cases r₁ <;> cases r₂ <;> simp [retM] at h ⊢ <;> exact h
  · intro r; cases r <;> simp [retM]

/-! ## Non-vacuity -/

/-- four threads: two racing `LoadOrStore`s, a `Load` and a `Store` on key 1 -/
def sampleProgs : List (List Op) := [[.los 1 10], [.los 1 20], [.load 1], [.store 1 30]]
def sampleSched : List Nat := [0, 1, 2, 3, 0, 0, 0, 1, 2, 3, 3]

example : Reachable (run (initL sampleProgs) sampleSched) := ⟨_, _, rfl⟩
-- the race is real: thread 0 computes (once), threads 1 and 2 wait on its placeholder and get
-- its value, the store, ordered after the in-flight computation, determines the final value
example : (run (initL sampleProgs) sampleSched).computes 1 = 1 := by decide
example : ((run (initL sampleProgs) sampleSched).threads 0).rets = [.val 10] := by decide
example : ((run (initL sampleProgs) sampleSched).threads 1).rets = [.val 10] := by decide
example : ((run (initL sampleProgs) sampleSched).threads 2).rets = [.val 10] := by decide
example : (run (initL sampleProgs) sampleSched).cell 1 = .val 30 := by decide
example : (run (initL sampleProgs) sampleSched).trace.length = 8 := by decide
example : Ev.ret 1 (.los 1 20) (.val 10) (.waited 0) ∈ (run (initL sampleProgs) sampleSched).trace := by
  decide
-- a blocked waiter exists on the way (hypotheses of clause 4 are satisfiable)
example : step (run (initL sampleProgs) [0, 1]) 1 = none ∧
    ((run (initL sampleProgs) [0, 1]).threads 1).pc = .wait 0 := by decide
-- and a state where a present value is overwritten by a Store (hypotheses of clause 5)
example : (run (initL sampleProgs) [0, 0, 0, 3]).cell 1 = .val 10 ∧
    (run (initL sampleProgs) [0, 0, 0, 3, 3]).cell 1 = .val 30 := by decide

/-! ## The steps of the source are the steps of the model

The atomic actions of `lazymap.go`, in source order, each with the `yield` that announces it
(regenerated from `/repo` on every run by `tools/extract`, group `c18-lazymap-steps`). The model
has exactly these transitions (`Pc`): `start` of a `LoadOrStore` / `Load`, `wait`, `compute`,
`rawStore`, `signal`, `finalStore`; and the harness can force an interleaving only at the
announced points. An atomic action added, removed, replaced by another, or left without a
`yield` of its own (label `<unannounced>`) changes the list, and this statement — for both module
copies — no longer checks. -/
def modelSteps : List (String × String × String) :=
  [("LoadOrStore", "los.LoadOrStore", "sync.Map.LoadOrStore"),  -- Pc.start (op .loadOrStore)
   ("LoadOrStore", "los.Wait", "WaitGroup.Wait"),               -- Pc.wait
   ("LoadOrStore", "los.compute", "call f"),                    -- Pc.compute
   ("LoadOrStore", "los.Store", "sync.Map.Store"),              -- Pc.rawStore
   ("LoadOrStore", "los.Done", "WaitGroup.Done"),               -- Pc.signal
   ("Load", "load.Load", "sync.Map.Load"),                      -- Pc.start (op .load)
   ("Load", "load.Wait", "WaitGroup.Wait"),                     -- Pc.wait
   ("Store", "store.Store", "sync.Map.Store")]                  -- Pc.finalStore

theorem c18_source_steps_are_the_models :
    Restli.Gen.lazymapSteps = modelSteps ∧ Restli.GenRoot.lazymapSteps = modelSteps := by
  constructor <;> decide

end Restli.LazyMap
