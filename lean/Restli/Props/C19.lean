import Restli.Proofs.D2
/-! # C19 — D2 announcement tracking and host selection follow the event history

Property theorems only (helper lemmas: `Proofs/D2.lean`). Model: `Model/D2.lean`
(`handleUriUpdate`, `copy`, `filterAndChooseHost`, `chooseHost` as written, for both module
generations — the two copies are identical). Specification: `Spec/D2.lean`.

Every statement is for all histories / all announcement sets / all priority lists / all iteration
orders of every `range` / all draws; nothing is bounded. Weights are scaled naturals, the draw is
the rational `p/q`; float rounding is outside the model (see `Model/D2.lean`). -/
namespace Restli.D2

/-! ## Announcement tracking -/

/-- After any history of tree events, starting from the empty watcher `getServiceUris` creates,
the announcement stored for every node is the fold the property describes: the last
well-formed, weight-carrying write to that node unless a deletion came later; malformed and
weight-less updates, events on the watched root itself, and events on other nodes leave it alone. -/
theorem c19_snapshot_is_fold (zk : Bytes) (h : List Event) (n : Bytes) :
    mapLookup n (runUpdates (ServiceUris.init zk) h).uris = Spec.lastValid n (Spec.readHistory zk h) :=
  lookup_run zk (ServiceUris.init zk) (by simp [Inv, keys, ServiceUris.init]) rfl rfl h n

/-- The same for every snapshot handed out along the way: the `i`-th snapshot is the fold of the
first `i` events. -/
theorem c19_every_snapshot_is_prefix_fold (zk : Bytes) (h : List Event) (i : Nat) (hi : i ≤ h.length) :
    ∃ s, (snapshots (ServiceUris.init zk) h)[i]? = some s ∧
      ∀ n, mapLookup n s.uris = Spec.lastValid n (Spec.readHistory zk (h.take i)) :=
  ⟨_, snapshots_getElem? _ h i hi, fun n => c19_snapshot_is_fold zk (h.take i) n⟩

/-- The (host, weight) pairs host selection iterates over are exactly the weights of the
announcements in force: the set of announced URIs used for resolution equals the fold. -/
theorem c19_resolution_sees_fold (zk : Bytes) (h : List Event) (e : Entry) :
    e ∈ iterSeq (runUpdates (ServiceUris.init zk) h).uris ↔
      ∃ n u, Spec.lastValid n (Spec.readHistory zk h) = some u ∧ e ∈ u.weights := by
  have hinv : Inv (runUpdates (ServiceUris.init zk) h) :=
    run_inv _ h (by simp [Inv, keys, ServiceUris.init])
  rw [mem_iterSeq _ hinv]
  constructor
  · rintro ⟨n, u, hl, he⟩; exact ⟨n, u, by rw [← c19_snapshot_is_fold]; exact hl, he⟩
  · rintro ⟨n, u, hl, he⟩; exact ⟨n, u, by rw [c19_snapshot_is_fold]; exact hl, he⟩

/-- Heap-level statement of "snapshots handed out earlier are never modified afterwards".
`handleUriUpdateH` makes allocation and in-place writes explicit (`copy()` allocates,
`delete`/`m[k] = v` write into the cell they are applied to). Starting from any allocated watcher
`a`, after the events `h` the client holds pointer `a₁`; after any further events `h'` the cell
`a₁` — and every other cell that existed by then — still has exactly the content it had, and that
content is the value-level fold. The run never dereferences an unallocated pointer.

What this does and does not show about the Go code: it shows that the *algorithm as modelled*
(copy, then write only into the fresh copy) never writes to an object reachable from an earlier
snapshot pointer. That the Go functions really implement these steps — in particular that
`copy()` shares no map with its receiver — is established by the harness, which re-inspects every
earlier real snapshot after every later event. `*Uri` values are shared between snapshots in Go;
the modelled code never writes to them, and the model treats them as values. -/
theorem c19_old_snapshots_unchanged (H : Heap) (a : Nat) (w : ServiceUris) (h h' : List Event)
    (hg : H.get? a = some w) :
    ∃ H₁ a₁ H₂ a₂, runUpdatesH H a h = some (H₁, a₁) ∧ runUpdatesH H a (h ++ h') = some (H₂, a₂) ∧
      H₁.get? a₁ = some (runUpdates w h) ∧ H₂.get? a₁ = H₁.get? a₁ ∧
      ∀ b, b < H₁.size → H₂.get? b = H₁.get? b := by
  obtain ⟨H₁, a₁, r1, g1, _, _⟩ := runH_spec H a h w hg
  obtain ⟨H₂, a₂, r2, _, _, f2⟩ := runH_spec H₁ a₁ h' _ g1
  have ha₁ : a₁ < H₁.size := by
    simp only [Heap.get?, Heap.size] at g1 ⊢
    exact (List.getElem?_eq_some_iff.1 g1).1
  refine ⟨H₁, a₁, H₂, a₂, r1, ?_, g1, f2 a₁ ha₁, f2⟩
  rw [runH_append, r1]; exact r2

/-- Value-level reading of the same clause: the sequence of snapshots produced for a history is a
prefix of the sequence produced for any extension of it (later events add snapshots, they do not
alter earlier ones). -/
theorem c19_old_snapshots_unchanged_values (w : ServiceUris) (h h' : List Event) :
    (snapshots w (h ++ h')).take (h.length + 1) = snapshots w h :=
  snapshots_append w h h'

/-! ## Host selection

`es` is the multiset of announced (host, weight) pairs of the snapshot (`iterSeq`), `env k` the
nondeterminism consumed by the `k`-th call of `filterAndChooseHost`; `Draw.Valid es` says each
`range` visits every entry once in some order and `0 ≤ p/q < 1`. -/

/-- `chooseHost` amounts to one call of `filterAndChooseHost`: with the all-pass filter when no
priorities are configured (nil or empty), with the filter "scheme = the highest-priority scheme
for which any host is announced" otherwise; and it returns nil when no such scheme exists. -/
theorem c19_choose_reduces (es : List Entry) (env : Nat → Draw) (hv : ∀ k, (env k).Valid es)
    (prio : List Bytes) :
    (prio = [] ∧ chooseHost prio env = filterAndChooseHost (fun _ => true) (env 0)) ∨
    (prio ≠ [] ∧ Spec.topScheme prio es = none ∧ chooseHost prio env = none) ∨
    (prio ≠ [] ∧ ∃ s j, Spec.topScheme prio es = some s ∧
      chooseHost prio env = filterAndChooseHost (fun h => h.scheme == s) (env j)) :=
  chooseHost_reduces es env hv prio

/-- Selection only ever returns an eligible announced host: an announced host, of the top
scheme when priorities are configured. -/
theorem c19_chosen_is_eligible (es : List Entry) (env : Nat → Draw) (hv : ∀ k, (env k).Valid es)
    (prio : List Bytes) (h : Host) (hc : chooseHost prio env = some h) :
    ∃ w, (h, w) ∈ Spec.eligible prio es := by
  rcases chooseHost_reduces es env hv prio with ⟨hp, he⟩ | ⟨_, _, hn⟩ | ⟨hp, s, j, ht, he⟩
  · rw [he] at hc
    obtain ⟨w, hw, _, _⟩ := filter_some_mem _ es _ (hv 0) h hc
    exact ⟨w, by simp [Spec.eligible, hp, hw]⟩
  · rw [hn] at hc; exact absurd hc (by simp)
  · rw [he] at hc
    obtain ⟨w, hw, hf, _⟩ := filter_some_mem _ es _ (hv j) h hc
    exact ⟨w, by simp [Spec.eligible, hp, ht, hw, Spec.hasScheme, hf]⟩

/-- Selection only ever returns an announced host. -/
theorem c19_chosen_is_announced (es : List Entry) (env : Nat → Draw) (hv : ∀ k, (env k).Valid es)
    (prio : List Bytes) (h : Host) (hc : chooseHost prio env = some h) : ∃ w, (h, w) ∈ es := by
  obtain ⟨w, hw⟩ := c19_chosen_is_eligible es env hv prio h hc
  refine ⟨w, ?_⟩
  simp only [Spec.eligible] at hw
  split at hw
  · exact hw
  · split at hw
    · simp at hw
    · exact (List.mem_filter.1 hw).1

/-- With priorities configured, the returned host's scheme is the highest-priority scheme for
which any host is announced. -/
theorem c19_chosen_has_top_priority_scheme (es : List Entry) (env : Nat → Draw)
    (hv : ∀ k, (env k).Valid es) (prio : List Bytes) (hp : prio ≠ []) (h : Host)
    (hc : chooseHost prio env = some h) : Spec.topScheme prio es = some h.scheme := by
  rcases chooseHost_reduces es env hv prio with ⟨hp', _⟩ | ⟨_, _, hn⟩ | ⟨_, s, j, ht, he⟩
  · exact absurd hp' hp
  · rw [hn] at hc; exact absurd hc (by simp)
  · rw [he] at hc
    obtain ⟨w, _, hf, _⟩ := filter_some_mem _ es _ (hv j) h hc
    have : h.scheme = s := by simpa using hf
    rw [ht, this]

/-- An error (nil host) is reported exactly when no host is eligible. -/
theorem c19_none_iff_no_eligible (es : List Entry) (env : Nat → Draw) (hv : ∀ k, (env k).Valid es)
    (prio : List Bytes) : chooseHost prio env = none ↔ Spec.eligible prio es = [] := by
  rcases chooseHost_reduces es env hv prio with ⟨hp, he⟩ | ⟨hp, ht, hn⟩ | ⟨hp, s, j, ht, he⟩
  · rw [he, filter_none_iff _ es _ (hv 0)]
    simp only [Spec.eligible, hp, if_true]
    constructor
    · intro hall
      cases es with
      | nil => rfl
      | cons e r => exact absurd (hall e (by simp)) (by simp)
    · intro hnil; simp [hnil]
  · simp [Spec.eligible, hp, ht, hn]
  · obtain ⟨_, hany⟩ := topScheme_some_any prio es s ht
    obtain ⟨e, hin, hfe⟩ := (any_hasScheme s es).1 hany
    have h1 : chooseHost prio env ≠ none := by
      rw [he]; intro hn
      rw [filter_none_iff _ es _ (hv j)] at hn
      have hfe' : (e.1.scheme == s) = true := hfe
      rw [hn e hin] at hfe'; exact absurd hfe' (by simp)
    have h2 : Spec.eligible prio es ≠ [] := by
      simp only [Spec.eligible, hp, if_false, ht]
      intro hnil
      have : e ∈ es.filter (Spec.hasScheme s) := List.mem_filter.2 ⟨hin, hfe⟩
      rw [hnil] at this; exact absurd this (by simp)
    exact ⟨fun h => absurd h h1, fun h => absurd h h2⟩

/-- "Never a zero-weight host while an eligible host with positive weight exists", at full
strength: whatever the iteration orders and whatever the draws (including `r = 0`), as soon as
some eligible entry has positive weight the returned host is returned through an eligible entry of
positive weight. (Before the repair of `filterAndChooseHost` this failed at the draw `r = 0`:
hosts `a` (weight 0), `b` (weight 1), iteration order `a, b` returned `a`; the repaired loop passes
over zero-weight hosts whenever the eligible total is positive.) -/
theorem c19_zero_weight_never_while_positive_exists (es : List Entry) (env : Nat → Draw)
    (prio : List Bytes) (h : Host) (hv : ∀ k, (env k).Valid es)
    (hex : ∃ e ∈ Spec.eligible prio es, 0 < e.2) (hc : chooseHost prio env = some h) :
    ∃ w, (h, w) ∈ Spec.eligible prio es ∧ 0 < w := by
  obtain ⟨e, he, hepos⟩ := hex
  rcases chooseHost_reduces es env hv prio with ⟨hp, hch⟩ | ⟨_, _, hn⟩ | ⟨hp, s, j, ht, hch⟩
  · rw [hch] at hc
    simp only [Spec.eligible, hp, if_true] at he ⊢
    obtain ⟨w, hw, _, hwp⟩ := filter_some_mem _ es _ (hv 0) h hc
    exact ⟨w, hw, hwp (totalWeight_pos_of_exists _ es ⟨e, he, rfl, hepos⟩)⟩
  · rw [hn] at hc; exact absurd hc (by simp)
  · rw [hch] at hc
    simp only [Spec.eligible, hp, if_false, ht] at he ⊢
    obtain ⟨hin, hfe⟩ := List.mem_filter.1 he
    obtain ⟨w, hw, hf, hwp⟩ := filter_some_mem _ es _ (hv j) h hc
    exact ⟨w, List.mem_filter.2 ⟨hw, hf⟩, hwp (totalWeight_pos_of_exists _ es ⟨e, hin, hfe, hepos⟩)⟩

/-- The as-written loop and its position-returning twin agree: the host returned is the one at
the position the twin reports. -/
theorem c19_choice_position_agrees (f : Host → Bool) (d : Draw) :
    filterAndChooseHost f d = (filterAndChooseIdx f d).bind (fun j => d.it2[j]?.map Prod.fst) :=
  chooseLoop_eq_idx f d.q _ d.it2 _

/-- "In proportion to the weights", for whatever iteration orders the two passes use, when the
total eligible weight `T` is positive. With `S` the eligible weight visited before an entry
`(h, w)` in the second pass, that entry is the one returned iff it is eligible, `w > 0`, and
`S/T < r ≤ (S+w)/T` — an interval of length `w/T` — or, at the draw `r = 0`, iff it is the first
eligible entry of positive weight (`S = 0`). Zero-weight entries are never returned. -/
theorem c19_choice_interval (f : Host → Bool) (es : List Entry) (d : Draw) (hv : d.Valid es)
    (pre post : List Entry) (h : Host) (w : Nat) (hit : d.it2 = pre ++ (h, w) :: post)
    (hT : 0 < Spec.weightOf f es) :
    filterAndChooseIdx f d = some pre.length ↔
      (f h = true ∧ 0 < w ∧ d.p * Spec.weightOf f es ≤ d.q * (Spec.weightOf f pre + w) ∧
        (d.q * Spec.weightOf f pre < d.p * Spec.weightOf f es ∨ Spec.weightOf f pre = 0)) := by
  have hT' : 0 < totalWeight f es := by rw [totalWeight_eq_weightOf]; exact hT
  rw [filterAndChooseIdx_eq_core f es d hv, hit, coreIdx_at, gTotal_visits, totalWeight_eq_weightOf,
    totalWeight_eq_weightOf]
  simp only [hT, decide_true]
  have hvis : visits f true (h, w) = true ↔ (f h = true ∧ 0 < w) := by
    simp only [visits, Bool.true_and, Bool.and_eq_true, Bool.not_eq_eq_eq_not, Bool.not_true,
      beq_eq_false_iff_ne, ne_eq]
    constructor
    · rintro ⟨a, b⟩; exact ⟨a, by omega⟩
    · rintro ⟨a, b⟩; exact ⟨a, by omega⟩
  have hnone : (∀ x ∈ pre, visits f true x = false) ↔ Spec.weightOf f pre = 0 := by
    rw [← totalWeight_eq_weightOf, ← gTotal_visits f true pre]
    constructor
    · exact gTotal_zero_of_none _ pre
    · intro h0 x hx
      cases hg : visits f true x with
      | false => rfl
      | true =>
        exfalso
        have hpos : 0 < gTotal (visits f true) pre := by
          rw [gTotal_visits]
          refine totalWeight_pos_of_exists f pre ⟨x, hx, ?_, ?_⟩
          · simp only [visits, Bool.and_eq_true] at hg; exact hg.1
          · simp only [visits, Bool.true_and, Bool.and_eq_true, Bool.not_eq_eq_eq_not, Bool.not_true,
              beq_eq_false_iff_ne, ne_eq] at hg
            omega
        omega
  rw [hvis, hnone]
  constructor
  · rintro ⟨⟨h1, h2⟩, h3, h4⟩
    refine ⟨h1, h2, by omega, ?_⟩
    rcases h4 with h4 | h4
    · exact Or.inl (by omega)
    · exact Or.inr h4
  · rintro ⟨h1, h2, h3, h4⟩
    refine ⟨⟨h1, h2⟩, by omega, ?_⟩
    rcases h4 with h4 | h4
    · exact Or.inl (by omega)
    · exact Or.inr h4

/-- The degenerate case: all eligible weights are 0 (`T = 0`). Nothing is passed over and the
first eligible entry in the second pass's iteration order is returned. -/
theorem c19_choice_degenerate (f : Host → Bool) (es : List Entry) (d : Draw) (hv : d.Valid es)
    (pre post : List Entry) (h : Host) (w : Nat) (hit : d.it2 = pre ++ (h, w) :: post)
    (hzero : Spec.weightOf f es = 0) :
    filterAndChooseIdx f d = some pre.length ↔ (f h = true ∧ ∀ e ∈ pre, f e.1 = false) := by
  have hvis : ∀ x : Entry, visits f false x = f x.1 := by intro x; simp [visits]
  rw [filterAndChooseIdx_eq_core f es d hv, hit, coreIdx_at, totalWeight_eq_weightOf, hzero]
  simp only [Nat.lt_irrefl, decide_false, hvis, Nat.mul_zero]
  constructor
  · rintro ⟨h1, _, h3⟩
    refine ⟨h1, ?_⟩
    rcases h3 with h3 | h3
    · omega
    · exact h3
  · rintro ⟨h1, h3⟩
    exact ⟨h1, by omega, Or.inr h3⟩

/-- The interval law stated for the as-written function, for a host that is announced once:
`filterAndChooseHost` returns `h` iff `h` is eligible with positive weight and the draw falls into
`h`'s interval. -/
theorem c19_choice_interval_host (f : Host → Bool) (es : List Entry) (d : Draw) (hv : d.Valid es)
    (pre post : List Entry) (h : Host) (w : Nat) (hit : d.it2 = pre ++ (h, w) :: post)
    (huniq : ∀ e ∈ pre ++ post, e.1 ≠ h) (hT : 0 < Spec.weightOf f es) :
    filterAndChooseHost f d = some h ↔
      (f h = true ∧ 0 < w ∧ d.p * Spec.weightOf f es ≤ d.q * (Spec.weightOf f pre + w) ∧
        (d.q * Spec.weightOf f pre < d.p * Spec.weightOf f es ∨ Spec.weightOf f pre = 0)) := by
  rw [← c19_choice_interval f es d hv pre post h w hit hT, c19_choice_position_agrees]
  constructor
  · intro hc
    cases hidx : filterAndChooseIdx f d with
    | none => simp [hidx] at hc
    | some j =>
      simp only [hidx, Option.bind_some] at hc
      rw [hit] at hc
      rw [getElem?_split_unique pre post h w huniq j hc]
  · intro hidx
    simp [hidx, hit]

/-! ## Non-vacuity -/

section Examples
def sA : Bytes := [104, 116, 116, 112, 115]   -- "https"
def sB : Bytes := [104, 116, 116, 112]        -- "http"
def hA1 : Host := ⟨sA, [97, 49]⟩
def hA2 : Host := ⟨sA, [97, 50]⟩
def hB1 : Host := ⟨sB, [98, 49]⟩
def zkEx : Bytes := [47, 117]                 -- "/u"
def n1 : Bytes := [47, 120]                   -- "/x"
def n2 : Bytes := [47, 121]                   -- "/y"
def uA : Uri := ⟨[(hA1, 1), (hA2, 3)]⟩
def uB : Uri := ⟨[(hB1, 2)]⟩
/-- add x, add y, malformed x, weight-less y, root event, delete y, change x -/
def histEx : List Event :=
  [⟨zkEx ++ n1, some (.uri uA)⟩, ⟨zkEx ++ n2, some (.uri uB)⟩, ⟨zkEx ++ n1, some .malformed⟩,
   ⟨zkEx ++ n2, some (.uri ⟨[]⟩)⟩, ⟨zkEx, some (.uri uB)⟩, ⟨zkEx ++ n2, none⟩,
   ⟨zkEx ++ n1, some (.uri uB)⟩]

example : (runUpdates (ServiceUris.init zkEx) histEx).uris = [(n1, uB)] := by decide
example : (runUpdates (ServiceUris.init zkEx) (histEx.take 5)).uris = [(n1, uA), (n2, uB)] := by decide
example : Spec.lastValid n1 (Spec.readHistory zkEx histEx) = some uB := by decide
example : Spec.lastValid n2 (Spec.readHistory zkEx (histEx.take 5)) = some uB := by decide
example : Spec.lastValid n2 (Spec.readHistory zkEx histEx) = none := by decide
/-- the heap run allocates: three fresh cells for the three effective writes among the first five
events, and the initial cell is untouched -/
example : (runUpdatesH ⟨[ServiceUris.init zkEx]⟩ 0 (histEx.take 5)).map (fun r => (r.1.size, r.2, r.1.get? 0))
    = some (3, 2, some (ServiceUris.init zkEx)) := by decide

def esEx : List Entry := [(hA1, 1), (hA2, 3), (hB1, 2)]
def envEx (p q : Nat) : Nat → Draw := fun _ => ⟨esEx, [(hB1, 2), (hA2, 3), (hA1, 1)], p, q⟩
example : ∀ k, (envEx 1 2 k).Valid esEx := fun _ =>
  ⟨List.Perm.refl _, (by decide : List.Perm [(hB1, 2), (hA2, 3), (hA1, 1)] esEx), (by decide : 1 < 2)⟩
example : Spec.eligible [sB, sA] esEx = [(hB1, 2)] := by decide
example : Spec.eligible [sA, sB] esEx = [(hA1, 1), (hA2, 3)] := by decide
example : chooseHost [sA, sB] (envEx 1 2) = some hA2 := by decide   -- r·T = 2 ≤ 3
example : chooseHost [sA, sB] (envEx 7 8) = some hA1 := by decide   -- 3 < r·T = 3.5 ≤ 4
example : chooseHost [] (envEx 1 3) = some hB1 := by decide          -- r·T = 2 ≤ 2
example : chooseHost [[120]] (envEx 1 2) = none := by decide
example : Spec.eligible [[120]] esEx = [] := by decide
example : filterAndChooseIdx (fun h => h.scheme == sA) (envEx 7 8 0) = some 2 := by decide
/-- hypotheses and right-hand side of `c19_choice_interval_host` for `hA1` under `envEx 7 8`:
it is visited last, 3 of the 4 units of https weight come before it, and 3/4 < 7/8 ≤ 4/4 -/
example : 0 < Spec.weightOf (fun h => h.scheme == sA) esEx := by decide
example : (envEx 7 8 0).it2 = [(hB1, 2), (hA2, 3)] ++ (hA1, 1) :: [] := rfl
example : ∀ e ∈ [(hB1, 2), (hA2, 3)] ++ ([] : List Entry), e.1 ≠ hA1 := by decide
example : 8 * Spec.weightOf (fun h => h.scheme == sA) [(hB1, 2), (hA2, 3)] < 7 * Spec.weightOf (fun h => h.scheme == sA) esEx ∧
    7 * Spec.weightOf (fun h => h.scheme == sA) esEx ≤ 8 * (Spec.weightOf (fun h => h.scheme == sA) [(hB1, 2), (hA2, 3)] + 1) := by decide
example : filterAndChooseHost (fun h => h.scheme == sA) (envEx 7 8 0) = some hA1 := by decide
/-- the draw `r = 0` no longer returns the zero-weight host visited first -/
example : chooseHost [] (fun _ => ⟨[(hA1, 0), (hB1, 1)], [(hA1, 0), (hB1, 1)], 0, 1⟩) = some hB1 := by decide
example : chooseHost [] (fun _ => ⟨[(hA1, 0), (hB1, 1)], [(hA1, 0), (hB1, 1)], 1, 1000⟩) = some hB1 := by decide
/-- all eligible weights zero: a (zero-weight) host is still returned -/
example : chooseHost [sA] (fun _ => ⟨[(hA1, 0), (hB1, 1)], [(hA1, 0), (hB1, 1)], 1, 2⟩) = some hA1 := by decide
end Examples

end Restli.D2
