import Restli.Proofs.CleanDir
/-! # C20 — regeneration never touches files the generator does not own

Property theorems only (helper lemmas live in `Proofs/CleanDir.lean`). The model is
`Model/CleanDir.lean` (`CleanTargetDir` as written); the specification is `Spec/CleanDir.lean`.
All statements are for every tree — no bound on depth or fan-out.

Coverage of symbolic links. Trees contain regular files, directories and symbolic links; a link is
a non-directory entry (`Node.file n (.link dest)`, which is what `os.ReadDir` reports it as) and a
"file" below (`FileAt`, `files`) means a non-directory entry of either sort, its `content` being the
content id or the link's destination text. Every theorem is stated for such trees: a link whose
name is not owned is kept with its destination (`c20_foreign_files_untouched`, spelled out in
`c20_foreign_links_kept`), no link is created or re-pointed (`c20_nothing_created`), links with an
owned name are unlinked like files (`c20_owned_files_removed`), and a directory holding only a
foreign link is not empty (`c20_no_empty_dirs_left`). That no link is ever followed is
`c20_links_not_followed` (the result does not depend on where links point) together with
`c20_outside_untouched` (the sibling directory links may point to is handed back as it was); that
the real function behaves like this model on real symbolic links — into the target, out of it, to
an ancestor, to a file, dangling — is what the correspondence run checks on every case, comparing
the outside directory too. Not covered: a target path that is itself a symbolic link. -/
namespace Restli.CleanDir

/-- Every file or symbolic link that is not owned by the generator (by its name) is still there,
at the same path and with the same content or destination, after cleaning — whatever the tree, whether or not the target is ".", and
**also when the cleaner stops with an error**. -/
theorem c20_foreign_files_untouched (O : Own) (dot : Bool) (t : Node) (f : FileAt)
    (hf : f ∈ files t) (ho : owned O f.name = false) :
    f ∈ filesO (clean O dot (some t)).node :=
  foreign_kept_outer O t dot f hf ho

/-- Cleaning never creates, moves or re-points anything: every file or link present afterwards was
there before, at the same path, with the same content or destination. -/
theorem c20_nothing_created (O : Own) (dot : Bool) (t : Node) (f : FileAt)
    (hf : f ∈ filesO (clean O dot (some t)).node) : f ∈ files t :=
  nothing_created_outer O t dot f hf

/-- Unless a directory named like the manifest is non-empty (the one error the code can
raise on a well-behaved filesystem), cleaning succeeds and equals the set-style pruning of the
property text: delete owned O files, then delete directories left empty. -/
theorem c20_clean_eq_prune (O : Own) (dot : Bool) (n : Name) (cs : List Node)
    (hb : noBlock O (.dir n cs) = true) :
    clean O dot (some (.dir n cs)) = ⟨pruneRoot O dot (.dir n cs), false⟩ :=
  cleanOuter_eq_prune O (.dir n cs) dot hb ⟨n, cs, rfl⟩

/-- After a successful clean no owned file is left anywhere (a link with an owned name counts:
it is unlinked, whatever it points to). -/
theorem c20_owned_files_removed (O : Own) (dot : Bool) (n : Name) (cs : List Node)
    (hb : noBlock O (.dir n cs) = true) :
    ∀ f ∈ filesO (clean O dot (some (.dir n cs))).node, owned O f.name = false := by
  rw [c20_clean_eq_prune O dot n cs hb]
  intro f hf
  simp only [pruneRoot] at hf
  split at hf
  · simp [filesO] at hf
  · simp only [filesO, files, List.mem_map] at hf
    obtain ⟨g, hg, rfl⟩ := hf
    simpa [FileAt.under] using pruneL_no_owned O cs g hg

/-- Directories that survive below the root are exactly those that still contain a file or a
link somewhere beneath them: every surviving child subtree has one. -/
theorem c20_no_empty_dirs_left (O : Own) (t t' : Node) (h : prune O t = some t') : files t' ≠ [] :=
  prune_has_file O t t' h

/-- Cleaning is idempotent: cleaning the result again changes nothing and succeeds. -/
theorem c20_idempotent (O : Own) (dot : Bool) (n : Name) (cs : List Node)
    (hb : noBlock O (.dir n cs) = true) :
    clean O dot (clean O dot (some (.dir n cs))).node = clean O dot (some (.dir n cs)) := by
  rw [c20_clean_eq_prune O dot n cs hb]
  simp only [pruneRoot]
  split
  · simp [clean]
  · next hne =>
    have hb' : noBlock O (.dir n (pruneL O cs)) = true := by
      simp only [noBlock, Bool.and_eq_true, Bool.not_eq_eq_eq_not, Bool.not_true] at hb ⊢
      exact ⟨manifestBlocked_pruneL O cs hb.1, noBlockL_pruneL O cs hb.2⟩
    rw [c20_clean_eq_prune O dot n (pruneL O cs) hb']
    simp only [pruneRoot, pruneL_idem O]
    simp [hne]

/-- A target that does not exist is a successful no-op. -/
theorem c20_missing_target_ok (O : Own) (dot : Bool) : clean O dot none = ⟨none, false⟩ := rfl

/-- The current directory itself is never removed, even if everything in it is. -/
theorem c20_dot_survives (O : Own) (n : Name) (cs : List Node) :
    (clean O true (some (.dir n cs))).node ≠ none := by
  simp only [clean, cleanOuter]
  split
  · simp
  · cases cleanChildren O cs with
    | mk cs' e => cases e <;> simp

/-- A symbolic link whose name the generator does not own survives cleaning where it was, still
pointing where it pointed — also when the cleaner stops with an error, and whatever the link
points to (instance of `c20_foreign_files_untouched`). -/
theorem c20_foreign_links_kept (O : Own) (dot : Bool) (t : Node) (dirs : List Name) (n : Name)
    (dest : String) (hf : (⟨dirs, n, .link dest⟩ : FileAt) ∈ files t) (ho : owned O n = false) :
    (⟨dirs, n, .link dest⟩ : FileAt) ∈ filesO (clean O dot (some t)).node :=
  c20_foreign_files_untouched O dot t _ hf ho

/-- Links are never followed: the outcome does not depend on where the links of the tree point.
Re-pointing every link by an arbitrary `g` (to a directory full of generated files, to an ancestor,
to nothing) and cleaning gives the cleaned tree with its surviving links re-pointed the same way,
and the same error flag. -/
theorem c20_links_not_followed (O : Own) (dot : Bool) (g : String → String) (t : Node) :
    clean O dot (some (retarget g t)) =
      ⟨(clean O dot (some t)).node.map (retarget g), (clean O dot (some t)).err⟩ :=
  cleanOuter_retarget O g t dot

/-- What lies beside the target — the directory links inside the target may point to — is the
same after the call, whatever the target contains, error or not. -/
theorem c20_outside_untouched (O : Own) (dot : Bool) (w : World) :
    (cleanWorld O dot w).outside = w.outside := rfl

/-! Non-vacuity: a tree with generated files, a manifest, user files and nested empty
directories satisfies the hypotheses and is changed by cleaning; and the error case. -/
def sample : Node :=
  .dir "out" [.file "go-restli-manifest.gr.json" 1, .file "custom.go" 2,
    .dir "a" [.file "x.gr.go" 3, .dir "b" [.file "y.gr.go" 4]],
    .dir "c" [.file "keep.txt" 5, .file "z.gr.go" 6]]

example : noBlock ownV2 sample = true := by decide
example : (clean ownV2 false (some sample)).node =
    some (.dir "out" [.file "custom.go" 2, .dir "c" [.file "keep.txt" 5]]) := by rfl
example : (clean ownV2 false (some sample)).err = false := by decide

/-- the error case is reachable, and the foreign file next to it survives -/
def blocked : Node :=
  .dir "out" [.dir "a" [.dir "go-restli-manifest.gr.json" [.file "u.txt" 1]], .file "b.gr.go" 2]
example : noBlock ownV2 blocked = false := by decide
example : (clean ownV2 false (some blocked)).err = true := by decide
example : (⟨["out", "a", "go-restli-manifest.gr.json"], "u.txt", 1⟩ : FileAt)
    ∈ filesO (clean ownV2 false (some blocked)).node := by decide

/-- links: to a directory of generated files outside (kept, not followed), one with a generated
name (unlinked), one named like the manifest pointing to a non-empty directory (unlinked, no
error), a dangling one, and a directory that holds nothing but a foreign link (kept) -/
def linked : Node :=
  .dir "out" [.file "go-restli-manifest.gr.json" (.link "outside/gen"), .file "x.gr.go" (.link "outside/gen"),
    .file "othergen" (.link "outside/gen"), .file "gone" (.link "nowhere"), .file "a.gr.go" 1,
    .dir "pkg" [.file "onlygen" (.link "outside/onlygen"), .file "Foo.gr.go" 2],
    .dir "up" [.file "loop.gr.go" (.link "..")]]
example : noBlock ownV2 linked = true := by decide
example : clean ownV2 false (some linked) =
    ⟨some (.dir "out" [.file "othergen" (.link "outside/gen"), .file "gone" (.link "nowhere"),
      .dir "pkg" [.file "onlygen" (.link "outside/onlygen")]]), false⟩ := by rfl
example : (⟨["out", "pkg"], "onlygen", .link "outside/onlygen"⟩ : FileAt) ∈ files linked := by decide
example : owned ownV2 "onlygen" = false := by decide
example : (clean ownV2 false (some (retarget (fun _ => "elsewhere") linked))).node =
    some (.dir "out" [.file "othergen" (.link "elsewhere"), .file "gone" (.link "elsewhere"),
      .dir "pkg" [.file "onlygen" (.link "elsewhere")]]) := by rfl
example : (cleanWorld ownV2 false ⟨some linked, some (.dir "outside" [.dir "gen" [.file "Bar.gr.go" 7]])⟩).outside
    = some (.dir "outside" [.dir "gen" [.file "Bar.gr.go" 7]]) := rfl

/-- the same for the root module's names -/
example : (clean ownRoot false (some (.dir "out" [.file "parsed-specs.gr.json" 1, .file "a.gr.go" 2,
    .file "go-restli-manifest.gr.json" 3]))).node
    = some (.dir "out" [.file "go-restli-manifest.gr.json" 3]) := by rfl

end Restli.CleanDir
