import Restli.Proofs.CleanDir
/-! # C20 — regeneration never touches files the generator does not own

Property theorems only (helper lemmas live in `Proofs/CleanDir.lean`). The model is
`Model/CleanDir.lean` (`CleanTargetDir` as written); the specification is `Spec/CleanDir.lean`.
All statements are for every tree — no bound on depth or fan-out. -/
namespace Restli.CleanDir

/-- Every file that is not owned by the generator is still there, at the same path and with
the same content, after cleaning — whatever the tree, whether or not the target is ".", and
**also when the cleaner stops with an error**. -/
theorem c20_foreign_files_untouched (O : Own) (dot : Bool) (t : Node) (f : FileAt)
    (hf : f ∈ files t) (ho : owned O f.name = false) :
    f ∈ filesO (clean O dot (some t)).node :=
  foreign_kept_outer O t dot f hf ho

/-- Cleaning never creates or moves a file: every file present afterwards was there before,
at the same path, with the same content. -/
theorem c20_nothing_created (O : Own) (dot : Bool) (t : Node) (f : FileAt)
    (hf : f ∈ filesO (clean O dot (some t)).node) : f ∈ files t :=
  nothing_created_outer O t dot f hf

/-- Unless a directory named like the manifest is non-empty (the one error the code can
raise on a well-behaved filesystem), cleaning succeeds and equals the set-style pruning of the
property text: delete owned O files, then delete directories left empty. -/
theorem c20_clean_eq_prune (O : Own) (dot : Bool) (n : Name) (cs : List Node)
    (hb : noBlock O (.dir n cs) = true) :
    clean O dot (some (.dir n cs)) = ⟨pruneRoot O dot (.dir n cs), false⟩ :=
  cleanOuter_eq_prune O (.dir n cs) dot hb ⟨n, cs, rfl⟩

/-- After a successful clean no owned file is left anywhere. -/
theorem c20_owned_files_removed (O : Own) (dot : Bool) (n : Name) (cs : List Node)
    (hb : noBlock O (.dir n cs) = true) :
    ∀ f ∈ filesO (clean O dot (some (.dir n cs))).node, owned O f.name = false := by
  rw [c20_clean_eq_prune O dot n cs hb]
  intro f hf
  simp only [pruneRoot] at hf
  split at hf
  · simp [filesO] at hf
  · simp only [filesO, files, List.mem_map] at hf
    obtain ⟨g, hg, rfl⟩ := hf
    simpa [FileAt.under] using pruneL_no_owned O cs g hg

/-- Directories that survive below the root are exactly those that still contain a file
somewhere beneath them: every surviving child subtree has a file. -/
theorem c20_no_empty_dirs_left (O : Own) (t t' : Node) (h : prune O t = some t') : files t' ≠ [] :=
  prune_has_file O t t' h

/-- Cleaning is idempotent: cleaning the result again changes nothing and succeeds. -/
theorem c20_idempotent (O : Own) (dot : Bool) (n : Name) (cs : List Node)
    (hb : noBlock O (.dir n cs) = true) :
    clean O dot (clean O dot (some (.dir n cs))).node = clean O dot (some (.dir n cs)) := by
  rw [c20_clean_eq_prune O dot n cs hb]
  simp only [pruneRoot]
  split
  · simp [clean]
  · next hne =>
    have hb' : noBlock O (.dir n (pruneL O cs)) = true := by
      simp only [noBlock, Bool.and_eq_true, Bool.not_eq_eq_eq_not, Bool.not_true] at hb ⊢
      exact ⟨manifestBlocked_pruneL O cs hb.1, noBlockL_pruneL O cs hb.2⟩
    rw [c20_clean_eq_prune O dot n (pruneL O cs) hb']
    simp only [pruneRoot, pruneL_idem O]
    simp [hne]

/-- A target that does not exist is a successful no-op. -/
theorem c20_missing_target_ok (O : Own) (dot : Bool) : clean O dot none = ⟨none, false⟩ := rfl

/-- The current directory itself is never removed, even if everything in it is. -/
theorem c20_dot_survives (O : Own) (n : Name) (cs : List Node) :
    (clean O true (some (.dir n cs))).node ≠ none := by
  simp only [clean, cleanOuter]
  split
  · simp
  · cases cleanChildren O cs with
    | mk cs' e => cases e <;> simp

/-! Non-vacuity: a tree with generated files, a manifest, user files and nested empty
directories satisfies the hypotheses and is changed by cleaning; and the error case. -/
def sample : Node :=
  .dir "out" [.file "go-restli-manifest.gr.json" 1, .file "custom.go" 2,
    .dir "a" [.file "x.gr.go" 3, .dir "b" [.file "y.gr.go" 4]],
    .dir "c" [.file "keep.txt" 5, .file "z.gr.go" 6]]

example : noBlock ownV2 sample = true := by decide
example : (clean ownV2 false (some sample)).node =
    some (.dir "out" [.file "custom.go" 2, .dir "c" [.file "keep.txt" 5]]) := by rfl
example : (clean ownV2 false (some sample)).err = false := by decide

/-- the error case is reachable, and the foreign file next to it survives -/
def blocked : Node :=
  .dir "out" [.dir "a" [.dir "go-restli-manifest.gr.json" [.file "u.txt" 1]], .file "b.gr.go" 2]
example : noBlock ownV2 blocked = false := by decide
example : (clean ownV2 false (some blocked)).err = true := by decide
example : (⟨["out", "a", "go-restli-manifest.gr.json"], "u.txt", 1⟩ : FileAt)
    ∈ filesO (clean ownV2 false (some blocked)).node := by decide

/-- the same for the root module's names -/
example : (clean ownRoot false (some (.dir "out" [.file "parsed-specs.gr.json" 1, .file "a.gr.go" 2,
    .file "go-restli-manifest.gr.json" 3]))).node
    = some (.dir "out" [.file "go-restli-manifest.gr.json" 3]) := by rfl

end Restli.CleanDir
