import Restli.Model.CleanDir
/-! Independent specification for C20: which files a tree contains, which of them the
generator owns, and the set-style pruning the property text describes. -/
namespace Restli.CleanDir

/-- an occurrence of a non-directory entry (regular file or symbolic link): directory path from the
root (root first), own name, and what it holds (content id, or the link's destination text) -/
structure FileAt where
  dirs : List Name
  name : Name
  content : Leaf
deriving DecidableEq, Repr

def FileAt.under (n : Name) (f : FileAt) : FileAt := { f with dirs := n :: f.dirs }

mutual
def files : Node → List FileAt
  | .file n c => [⟨[], n, c⟩]
  | .dir n cs => (filesL cs).map (FileAt.under n)
def filesL : List Node → List FileAt
  | [] => []
  | c :: rest => files c ++ filesL rest
end

def filesO : Option Node → List FileAt
  | none => []
  | some t => files t

/-- files the generator owns: generated-code suffix, or the manifest name -/
def owned (O : Own) (n : Name) : Bool := O.isGen n || O.isManifest n

/- the property's description: delete owned files, then delete directories left without
any entry (recursively). -/
mutual
def prune (O : Own) : Node → Option Node
  | .file n c => if owned O n then none else some (.file n c)
  | .dir n cs =>
    let cs' := pruneL O cs
    if cs'.isEmpty then none else some (.dir n cs')
def pruneL (O : Own) : List Node → List Node
  | [] => []
  | c :: rest => (prune O c).toList ++ pruneL O rest
end

/-- the root is special only when it is "." (never removed) -/
def pruneRoot (O : Own) (dot : Bool) : Node → Option Node
  | .file n c => some (.file n c)
  | .dir n cs =>
    let cs' := pruneL O cs
    if cs'.isEmpty && !dot then none else some (.dir n cs')

/- no directory at any depth is named like the manifest and non-empty (the only case in
which the real function returns an error by itself) -/
mutual
def noBlock (O : Own) : Node → Bool
  | .file _ _ => true
  | .dir _ cs => !manifestBlocked O cs && noBlockL O cs
def noBlockL (O : Own) : List Node → Bool
  | [] => true
  | c :: rest => noBlock O c && noBlockL O rest
end

/-- rewrite where links point (`g` on destination texts), leaving names, regular files and the
shape alone: two trees related by `retarget` differ only in what lies at the end of their links -/
def Leaf.retarget (g : String → String) : Leaf → Leaf
  | .data c => .data c
  | .link d => .link (g d)

mutual
def retarget (g : String → String) : Node → Node
  | .file n l => .file n (l.retarget g)
  | .dir n cs => .dir n (retargetL g cs)
def retargetL (g : String → String) : List Node → List Node
  | [] => []
  | c :: rest => retarget g c :: retargetL g rest
end

/-- the symbolic links of a tree, as entry occurrences -/
def linksOf (t : Node) : List FileAt :=
  (files t).filter fun f => match f.content with | .link _ => true | .data _ => false

end Restli.CleanDir
