import Restli.Model.D2
/-! Independent specification for C19, written from the property text. Only the *data types*
`Host`, `Entry`, `Uri`, `Event`, `Payload` are taken from the model file; no function of the model
is used here. -/
namespace Restli.D2.Spec

/-! ### Event histories -/

/-- what a ZooKeeper tree event did to an announcement node, in the property's vocabulary -/
inductive Change (α : Type) where
  /-- node added or changed, payload well-formed and carrying weights -/
  | announce (a : α)
  /-- node deleted -/
  | delete
  /-- node added or changed with a payload that does not decode -/
  | malformed
  /-- node added or changed with a partition-only announcement that carries no weights -/
  | weightless
deriving Repr

structure Ev (α : Type) where
  node : Bytes
  change : Change α
deriving Repr

/-- history given newest event first: the last write to the node wins, a deletion removes,
malformed and weight-less updates are skipped -/
def lastValidRev {α : Type} (n : Bytes) : List (Ev α) → Option α
  | [] => none
  | e :: older =>
    if e.node = n then
      match e.change with
      | .announce a => some a
      | .delete => none
      | .malformed => lastValidRev n older
      | .weightless => lastValidRev n older
    else lastValidRev n older

/-- the announcement in force for node `n` after history `h` (oldest event first) -/
def lastValid {α : Type} (n : Bytes) (h : List (Ev α)) : Option α := lastValidRev n h.reverse

/-- `path` relative to the watched root `zk` (`none` when `zk` is not a prefix of it) -/
def relPath? : Bytes → Bytes → Option Bytes
  | [], p => some p
  | _ :: _, [] => none
  | z :: zs, c :: cs => if z = c then relPath? zs cs else none

/-- How a raw tree event is read as a node event: the node is the path below the watched root
(paths outside it are taken verbatim, as the watcher never produces them); an event on the root
itself concerns no announcement node. -/
def readEvent (zk : Bytes) (e : Event) : Option (Ev Uri) :=
  let node := (relPath? zk e.path).getD e.path
  if node = [] then none
  else some ⟨node, match e.data with
    | none => .delete
    | some .malformed => .malformed
    | some (.uri u) => if u.weights = [] then .weightless else .announce u⟩

def readHistory (zk : Bytes) (h : List Event) : List (Ev Uri) := h.filterMap (readEvent zk)

/-! ### Host selection -/

def hasScheme (s : Bytes) (e : Entry) : Bool := e.1.scheme == s

/-- the highest-priority scheme for which any host is announced -/
def topScheme (prio : List Bytes) (es : List Entry) : Option Bytes :=
  prio.find? (fun s => es.any (hasScheme s))

/-- the announced (host, weight) pairs selection may return: all of them when no priorities are
configured, otherwise those of the top scheme -/
def eligible (prio : List Bytes) (es : List Entry) : List Entry :=
  if prio = [] then es
  else match topScheme prio es with
    | none => []
    | some s => es.filter (hasScheme s)

/-- total weight of the entries satisfying `f` -/
def weightOf (f : Host → Bool) (es : List Entry) : Nat :=
  ((es.filter (fun e => f e.1)).map Prod.snd).sum

end Restli.D2.Spec
