import Restli.Lib.Basic
/-! # Specification side of C10 (written from the property text, shares nothing with `Model/`)

"Equal" for containers, as relations on the abstract contents:

* two sequences are equal when they have the same length and are equal position by position;
* two maps are equal when they have the same key set and equal values under every key —
  stated through membership only, so it cannot depend on the order of either association list;
* two optional values are equal when both are absent, or both present and equal.

The model's `genericArray/genericMap/genericPointer` are proved to decide exactly these
relations (`Proofs/Equals.lean`), which is what "distinguishes values that differ in any field,
element … or optional presence" means for the library helpers. -/
namespace Restli.EqualsSpec
open Restli

/-- position-wise equality of two sequences -/
inductive ArrRel {α : Type} (eq : α → α → Bool) : List α → List α → Prop where
  | nil : ArrRel eq [] []
  | cons {a b l r} : eq a b = true → ArrRel eq l r → ArrRel eq (a :: l) (b :: r)

/-- same keys, pointwise equal values (membership only: order-free by construction) -/
def MapRel {α : Type} (eq : α → α → Bool) (l r : List (Bytes × α)) : Prop :=
  (∀ k lv, (k, lv) ∈ l → ∃ rv, (k, rv) ∈ r ∧ eq lv rv = true) ∧
  (∀ k rv, (k, rv) ∈ r → ∃ lv, (k, lv) ∈ l ∧ eq lv rv = true)

/-- both absent, or both present and equal -/
def OptRel {α : Type} (eq : α → α → Bool) : Option α → Option α → Prop
  | none, none => True
  | some a, some b => eq a b = true
  | _, _ => False

end Restli.EqualsSpec
