import Restli.Lib.Basic
/-! # Spec.HttpUrl — what property C15 demands of a request URL

Written from the property text, over plain byte strings; shares no definition with
`Model/HttpUrl.lean` or `Lib/Url.lean`.

Inputs of the property (its quantifier):
* a **base URL** as the resolver hands it over: optional `scheme://host[:port]`, then a context
  path of segments, then an optional trailing slash (`Base`, `Base.text`);
* the **root resource name** and the **resource path** `"/" ++ root ++ tail` as produced by the
  path encoder (`pathText`: unreserved characters, sub-delimiters, `:` `@` `[` `]`, `/`, and
  well-formed `%XX` triples — the alphabet of `Ror2PathEscape` plus ROR2 structure characters);
* the **query** as produced by the query encoder, or none (`queryText`: anything but control
  bytes and `#`).

Demand (`Preserved`): scheme and host are the resolver's, the escaped path is the context path
(minus a trailing root segment) followed by the resource path — so the root segment appears
once — and path and query are byte for byte what the encoders produced. -/
namespace Restli.HttpUrlSpec
open Restli

def alpha (c : UInt8) : Bool := (97 ≤ c && c ≤ 122) || (65 ≤ c && c ≤ 90)
def digit (c : UInt8) : Bool := 48 ≤ c && c ≤ 57
def hexByte (c : UInt8) : Bool := digit c || (97 ≤ c && c ≤ 102) || (65 ≤ c && c ≤ 70)

/-- a byte an encoder may leave unescaped inside one path segment:
letters, digits and `- _ . ~ ! $ & ' ( ) * + , ; = : @ [ ]` -/
def wireByte (c : UInt8) : Bool :=
  alpha c || digit c ||
    [45, 95, 46, 126, 33, 36, 38, 39, 40, 41, 42, 43, 44, 59, 61, 58, 64, 91, 93].contains c

/-- encoded path text: wire bytes, `/`, and `%` followed by two hex digits -/
def pathText : Bytes → Bool
  | [] => true
  | c :: rest =>
    if c == 37 then
      match rest with
      | a :: b :: rest' => hexByte a && hexByte b && pathText rest'
      | _ => false
    else (wireByte c || c == 47) && pathText rest

/-- one non-empty path segment -/
def segText (s : Bytes) : Bool := !s.isEmpty && pathText s && !s.contains 47

/-- query text as the encoders may produce it: no control byte, no `#` -/
def queryText (q : Bytes) : Bool := q.all fun c => 32 ≤ c && c != 127 && c != 35

def schemeByte (c : UInt8) : Bool := alpha c || digit c || c == 43 || c == 45 || c == 46

/-- `ALPHA *( ALPHA / DIGIT / "+" / "-" / "." )` -/
def schemeText : Bytes → Bool
  | [] => false
  | c :: r => alpha c && r.all schemeByte

/-- a byte of a registered host name: letters, digits, `- _ . ~` and sub-delimiters -/
def hostNameByte (c : UInt8) : Bool :=
  alpha c || digit c || [45, 95, 46, 126, 33, 36, 38, 39, 40, 41, 42, 43, 44, 59, 61].contains c

/-- `name [ ":" 1*DIGIT ]` — the port, when present, is not empty -/
def hostText (name port : Bytes) (hasPort : Bool) : Bool :=
  !name.isEmpty && name.all hostNameByte && (if hasPort then !port.isEmpty && port.all digit else port.isEmpty)

def lowerByte (c : UInt8) : UInt8 := if 65 ≤ c && c ≤ 90 then c + 32 else c

/-- scheme and host of a base URL -/
structure Authority where
  scheme : Bytes
  name : Bytes
  port : Bytes
  hasPort : Bool

def Authority.host (a : Authority) : Bytes := a.name ++ (if a.hasPort then 58 :: a.port else [])
def Authority.wf (a : Authority) : Bool := schemeText a.scheme && hostText a.name a.port a.hasPort
/-- `scheme "://" host` -/
def Authority.text (a : Authority) : Bytes := a.scheme ++ [58, 47, 47] ++ a.host

/-- the base URL the hostname resolver returns -/
structure Base where
  authority : Option Authority
  segs : List Bytes
  trailingSlash : Bool

/-- `"/" seg "/" seg …` -/
def joinSegs (segs : List Bytes) : Bytes := (segs.map (47 :: ·)).flatten

def Base.ctx (b : Base) : Bytes := joinSegs b.segs ++ (if b.trailingSlash then [47] else [])

def Base.text (b : Base) : Bytes :=
  (match b.authority with | some a => a.text | none => []) ++ b.ctx

def Base.wf (b : Base) : Bool :=
  (match b.authority with | some a => a.wf | none => true) && b.segs.all segText

/-- scheme and host the request must carry (schemes are case-insensitive; `url.Parse` stores lower case) -/
def Base.scheme (b : Base) : Bytes := match b.authority with | some a => a.scheme.map lowerByte | none => []
def Base.host (b : Base) : Bytes := match b.authority with | some a => a.host | none => []

/-- the resource path: `"/" ++ root ++ tail`, `tail` empty or starting a new segment -/
def resourcePathOk (root rp : Bytes) : Bool :=
  segText root && pathText rp &&
    (match rp with
     | c :: r => c == 47 && root.isPrefixOf r && ((r.drop root.length).isEmpty || (r.drop root.length).head? == some 47)
     | [] => false)

/-- **Part of the property, not a guard**: the property leaves contexts that hold the root name
as a complete NON-final segment unspecified. -/
def RootOnlyLast (segs : List Bytes) (root : Bytes) : Prop := ∀ s ∈ segs.dropLast, s ≠ root
instance (segs : List Bytes) (root : Bytes) : Decidable (RootOnlyLast segs root) := by
  unfold RootOnlyLast; infer_instance

/-- the context path with a trailing root segment removed, then the resource path:
the root segment appears exactly once -/
def expectedPath (segs : List Bytes) (root rp : Bytes) : Bytes :=
  joinSegs (if segs.getLast? = some root then segs.dropLast else segs) ++ rp

/-- the query part of the URL text -/
def queryPart : Option Bytes → Bytes
  | none => []
  | some q => 63 :: q

/-- the URL text that must reach `http.NewRequest` / the request line -/
def expectedText (b : Base) (root rp : Bytes) (q : Option Bytes) : Bytes :=
  (match b.authority with | some a => a.scheme.map lowerByte ++ [58, 47, 47] ++ a.host | none => [])
    ++ expectedPath b.segs root rp ++ queryPart q

/-- C15 on the observables of the built request: `URL.Scheme`, `URL.Host`, `URL.EscapedPath()`,
`URL.RawQuery`, `URL.String()` and `URL.RequestURI()` (the request line's target) -/
structure Preserved (b : Base) (root rp : Bytes) (q : Option Bytes)
    (scheme host escapedPath rawQuery text requestURI : Bytes) : Prop where
  scheme_kept : scheme = b.scheme
  host_kept : host = b.host
  path_exact : escapedPath = expectedPath b.segs root rp
  query_exact : rawQuery = q.getD []
  text_exact : text = expectedText b root rp q
  wire_exact : requestURI = expectedPath b.segs root rp ++ queryPart q

instance (b : Base) (root rp : Bytes) (q : Option Bytes) (s h e rq t ru : Bytes) :
    Decidable (Preserved b root rp q s h e rq t ru) :=
  decidable_of_iff (s = b.scheme ∧ h = b.host ∧ e = expectedPath b.segs root rp ∧ rq = q.getD [] ∧
      t = expectedText b root rp q ∧ ru = expectedPath b.segs root rp ++ queryPart q)
    ⟨fun ⟨a, b, c, d, e, f⟩ => ⟨a, b, c, d, e, f⟩, fun ⟨a, b, c, d, e, f⟩ => ⟨a, b, c, d, e, f⟩⟩

/-! ## Guards forced by the current code (defect F13) — kept apart from the property's own exclusion -/

/-- split at `/` -/
def segmentsOf : Bytes → List Bytes
  | [] => [[]]
  | c :: cs =>
    if c == 47 then [] :: segmentsOf cs
    else match segmentsOf cs with
      | h :: t => (c :: h) :: t
      | [] => [[c]]

/-- **Guard 1**: no segment of the path is `.` or `..` -/
def NoDotSegments (p : Bytes) : Prop := ∀ s ∈ segmentsOf p, s ≠ [46] ∧ s ≠ [46, 46]
instance (p : Bytes) : Decidable (NoDotSegments p) := by unfold NoDotSegments; infer_instance

/-- **Guard 2**: when the context ends in the root segment, no earlier context segment starts with
the root name (the code cuts at the FIRST `"/"+root`, and only if that occurrence is a whole segment) -/
def FirstRootIsLast (segs : List Bytes) (root : Bytes) : Prop :=
  segs.getLast? = some root → ∀ s ∈ segs.dropLast, root.isPrefixOf s = false
instance (segs : List Bytes) (root : Bytes) : Decidable (FirstRootIsLast segs root) := by
  unfold FirstRootIsLast; infer_instance

end Restli.HttpUrlSpec
