/-! Specification for C18, written from the property text: "a plain map offering
compute-if-absent", and what it means for a concurrent object to be linearizable with respect
to it. Shares no definitions with the model.

* `Map`, `apply`: the sequential object — a partial map from keys to values with
  `computeIfAbsent`, `load`, `store`; each call is one atomic transition.
* `State`, `Step`: the canonical *atomic-object automaton* of that sequential object
  (Lynch, Distributed Algorithms §13.1; Herlihy & Wing): every thread runs its calls one after
  the other; a call is announced (`call`, visible), takes effect in ONE atomic step somewhere
  between its announcement and its response (`lin`, invisible), and responds with the result
  that step computed (`ret`, visible). A concurrent implementation is linearizable iff every
  sequence of visible events it can produce is also produced by this automaton. -/
namespace Restli.LazyMapSpec

inductive Op where
  | computeIfAbsent (k : Nat) (v : Nat)   -- v: what the compute function returns
  | load (k : Nat)
  | store (k : Nat) (v : Nat)
deriving DecidableEq, Repr

inductive Res where
  | unit               -- store
  | missing            -- load of an absent key
  | found (v : Nat)
deriving DecidableEq, Repr

abbrev Map := Nat → Option Nat

def Map.set (m : Map) (k v : Nat) : Map := fun k' => if k' = k then some v else m k'

/-- the sequential object: new map and result of one call -/
def apply (m : Map) : Op → Map × Res
  | .computeIfAbsent k v =>
    match m k with
    | some w => (m, .found w)
    | none => (m.set k v, .found v)
  | .load k =>
    match m k with
    | some w => (m, .found w)
    | none => (m, .missing)
  | .store k v => (m.set k v, .unit)

inductive Status where
  | idle                      -- between calls
  | pending                   -- announced, has not taken effect
  | linearized (r : Res)      -- has taken effect with result r, has not responded
deriving DecidableEq, Repr

structure State where
  map : Map
  /-- calls still to make, per thread; the head is the current one -/
  todo : Nat → List Op
  status : Nat → Status
  /-- results so far, per thread, oldest first -/
  rets : Nat → List Res

inductive Label where
  | call (t : Nat) (op : Op)
  | lin (t : Nat)
  | ret (t : Nat) (op : Op) (r : Res)
deriving DecidableEq, Repr

def upd {α : Type} (f : Nat → α) (t : Nat) (x : α) : Nat → α := fun t' => if t' = t then x else f t'

inductive Step : State → Label → State → Prop
  | call {a : State} {t : Nat} {op : Op} {rest : List Op} :
      a.todo t = op :: rest → a.status t = .idle →
      Step a (.call t op) { a with status := upd a.status t .pending }
  | lin {a : State} {t : Nat} {op : Op} {rest : List Op} :
      a.todo t = op :: rest → a.status t = .pending →
      Step a (.lin t)
        { a with map := (apply a.map op).1, status := upd a.status t (.linearized (apply a.map op).2) }
  | ret {a : State} {t : Nat} {op : Op} {rest : List Op} {r : Res} :
      a.todo t = op :: rest → a.status t = .linearized r →
      Step a (.ret t op r)
        { a with todo := upd a.todo t rest, status := upd a.status t .idle,
                 rets := upd a.rets t (a.rets t ++ [r]) }

/-- finite executions -/
inductive Steps : State → List Label → State → Prop
  | nil (a : State) : Steps a [] a
  | cons {a b c : State} {l : Label} {ls : List Label} : Step a l b → Steps b ls c → Steps a (l :: ls) c

def init (progs : Nat → List Op) : State :=
  { map := fun _ => none, todo := progs, status := fun _ => .idle, rets := fun _ => [] }

end Restli.LazyMapSpec
