import Restli.Model.RoutingTypes
/-! # Routing specification, written from the text of property C05

A decision table: which resource a path names, which Rest.li method a request asks for, and when
that makes the request routed. Nothing here is taken from the Go code or from `Model/Routing.lean`;
the only things shared are the data types (`RoutingTypes.lean`). All names, header names and
statuses below are the protocol's / the property's own literals.

Reading of the text, clause by clause:

* "its path names a registered resource (walking parent keys and sub-resources)" → `locate`:
  `/r₁[/k₁]/r₂[/k₂]…/rₙ[/kₙ]`, every collection-like ancestor contributes its key, a simple
  ancestor contributes none, the last resource may or may not carry a key.
* "The method of a request to a collection-like resource is the one named by the X-RestLi-Method
  header or, when the header is absent on a GET, PUT or DELETE, the one the Rest.li protocol infers
  from the verb, the presence of an entity key and the reserved q / ids query parameters (POST
  requires the header); the method of a request to a simple resource always follows from the verb
  and the action parameter" → `methodOf`.
* "its Rest.li method is registered on that resource, and the presence of an entity key matches
  what that method requires" → `registered`, `keyMatches`.
* "404 for unknown resources and sub-resources, 400 otherwise" → `decide`.
-/
namespace Restli.Routing.Spec

/-- the thirteen method names of the Rest.li protocol (values of `X-RestLi-Method`) -/
def methodTable : List (String × Method) :=
  [("get", .get), ("create", .create), ("delete", .delete), ("update", .update),
   ("partial_update", .partial_update), ("batch_get", .batch_get), ("batch_create", .batch_create),
   ("batch_delete", .batch_delete), ("batch_update", .batch_update),
   ("batch_partial_update", .batch_partial_update), ("get_all", .get_all), ("action", .action),
   ("finder", .finder)]

def methodNamed (name : String) : Option Method := methodTable.lookup name

/-- the HTTP verb the protocol sends each method with -/
def verbOf : Method → Option Verb
  | .get | .batch_get | .get_all | .finder => some .GET
  | .create | .batch_create | .partial_update | .batch_partial_update | .action => some .POST
  | .update | .batch_update => some .PUT
  | .delete | .batch_delete => some .DELETE
  | .unknown => none

/-- the value of the method header, if the request carries one -/
def methodHeader (req : Req) : Option String := req.headers.lookup "X-RestLi-Method"

/-- a query parameter of the request (its first occurrence) -/
def param (name : String) (req : Req) : Option String :=
  (req.query.find? (fun kv => kv.1 == name)).map (·.2)

/-- the resource a path names -/
structure Target where
  node : Node
  /-- the resource path, root first -/
  rpath : List Seg
  /-- the entity keys, root first -/
  keys : List String
  /-- the named resource itself carries an entity key -/
  hasKey : Bool
deriving Repr

def Target.under (s : Seg) (key : Option String) (t : Target) : Target :=
  { t with rpath := s :: t.rpath, keys := key.toList ++ t.keys }

/-- the rest of a path, below resource `n` -/
def locateAt : Node → List String → Option Target
  | n, [] => some ⟨n, [n.seg], [], false⟩
  | n, x :: rest =>
    if n.isCollection then
      -- `x` is this collection's entity key
      match rest with
      | [] => some ⟨n, [n.seg], [x], true⟩
      | s :: rest' => (findSub s n.subs).bind fun sub => (locateAt sub rest').map (Target.under n.seg (some x))
    else
      -- a simple resource has no key: `x` names a sub-resource
      (findSub x n.subs).bind fun sub => (locateAt sub rest).map (Target.under n.seg none)

/-- "its path names a registered resource (walking parent keys and sub-resources)" -/
def locate (roots : List Node) : List String → Option Target
  | [] => none
  | r :: rest => (findSub r roots).bind fun n => locateAt n rest

/-- the Rest.li method a request asks for, from: the kind of the resource, whether it carries an
entity key, the verb, the method header, and the presence of `q`, `ids`, `action`.
`none` when the protocol names no method. -/
def methodFor (isCollection hasKey : Bool) (verb : Verb) (header : Option String) (q ids action : Bool) :
    Option Method :=
  if isCollection then
    match header with
    | some h => methodNamed h                      -- the header names it
    | none =>
      match verb with
      | .GET => if hasKey then some .get else if q then some .finder else if ids then some .batch_get else some .get_all
      | .PUT => if hasKey then some .update else if ids then some .batch_update else none
      | .DELETE => if hasKey then some .delete else if ids then some .batch_delete else none
      | .POST => none                                -- POST requires the header
      | .other => none
  else
    match verb with
    | .GET => some .get
    | .PUT => some .update
    | .DELETE => some .delete
    | .POST => if action then some .action else some .partial_update
    | .other => none

def methodOf (t : Target) (req : Req) : Option Method :=
  methodFor t.node.isCollection t.hasKey req.verb (methodHeader req)
    (param "q" req).isSome (param "ids" req).isSome (param "action" req).isSome

/-- whether method `m` takes an entity key, on a collection-like resource (`none`: it depends on
the action) -/
def takesKey : Method → Option Bool
  | .get | .update | .delete | .partial_update => some true
  | .create | .batch_get | .batch_create | .batch_delete | .batch_update | .batch_partial_update
  | .get_all | .finder => some false
  | .action | .unknown => none

/-- the routed facts if `m` is registered on the target and key presence matches; else `none`.
`q` / `action` are the values of the reserved parameters. -/
def admittedWith (t : Target) (m : Method) (q action : Option String) : Option Facts :=
  match m with
  | .unknown => none
  | .finder =>
    match q with
    | some name => if t.node.finders.contains name && !t.hasKey then some ⟨m, t.rpath, t.keys, some name, none⟩ else none
    | none => none
  | .action =>
    match action with
    | some name =>
      match t.node.actions.lookup name with
      | some onEntity => if onEntity == t.hasKey then some ⟨m, t.rpath, t.keys, none, some name⟩ else none
      | none => none
    | none => none
  | _ =>
    if t.node.methods.contains m && (if t.node.isCollection then takesKey m == some t.hasKey else !t.hasKey)
    then some ⟨m, t.rpath, t.keys, none, none⟩ else none

def admitted (t : Target) (m : Method) (req : Req) : Option Facts :=
  admittedWith t m (param "q" req) (param "action" req)

/-- the decision table. `V` is the well-formedness of a key or query value as a Rest.li encoded
string; a malformed one makes the request a bad request. -/
def decide (V : String → Bool) (roots : List Node) (req : Req) : Decision :=
  match locate roots req.path with
  | none => .reject 404
  | some t =>
    if !t.keys.all V || !req.query.all (fun kv => V kv.2) then .reject 400
    else
      match methodOf t req with
      | none => .reject 400
      | some m =>
        match admitted t m req with
        | some f => .routed f
        | none => .reject 400

/-- "a request is routed to a resource method if and only if …", as a proposition -/
def Routable (V : String → Bool) (roots : List Node) (req : Req) (f : Facts) : Prop :=
  ∃ t m, locate roots req.path = some t ∧ t.keys.all V = true ∧ req.query.all (fun kv => V kv.2) = true ∧
    methodOf t req = some m ∧ admitted t m req = some f

/-! ## which requests the text determines

The property itself leaves two combinations open (`headerContradictsVerb`,
`otherVerbWithHeaderOnSimple`). Seven further request shapes are not determined by its text; they are
named here one by one rather than guessed. `decide` returns *something* on all of them, but the
theorems only claim agreement on `specified` requests. -/

/-- (open 1) on a collection-like resource the header names a method that the protocol sends with
a different HTTP verb ("the header wins" is what the code does; the text leaves it open) -/
def headerContradictsVerb (t : Target) (req : Req) : Bool :=
  t.node.isCollection &&
  match (methodHeader req).bind methodNamed with
  | some m => verbOf m != some req.verb
  | none => false

/-- (open 2) a verb outside GET/POST/PUT/DELETE carrying a method header, on a simple resource -/
def otherVerbWithHeaderOnSimple (t : Target) (req : Req) : Bool :=
  !t.node.isCollection && req.verb == .other && (methodHeader req).isSome

/-- (shape 1) a method header whose value is none of the thirteen names (including an empty value):
the text speaks of the header being one of the names or absent -/
def unknownHeaderValue (req : Req) : Bool :=
  match methodHeader req with
  | some h => (methodNamed h).isNone
  | none => false

/-- (shape 2) no header, PUT or DELETE, both an entity key and `ids`: single-entity or batch? -/
def keyAndIds (t : Target) (req : Req) : Bool :=
  t.node.isCollection && (methodHeader req).isNone && (req.verb == .PUT || req.verb == .DELETE) &&
  t.hasKey && (param "ids" req).isSome

/-- (shape 3) an empty path segment (trailing slash, doubled slash): is `/coll/` an empty key? -/
def emptySegment (req : Req) : Bool := req.path.any (· == "")

/-- (shape 4) no header, GET without entity key, both `q` and `ids`: finder or batch_get? -/
def qAndIds (t : Target) (req : Req) : Bool :=
  t.node.isCollection && (methodHeader req).isNone && req.verb == .GET && !t.hasKey &&
  (param "q" req).isSome && (param "ids" req).isSome

/-- (shape 5) `q=` or `action=` with an empty value: present or absent? -/
def emptyReservedValue (req : Req) : Bool :=
  param "q" req == some "" || param "action" req == some ""

/-- (shape 6) a reserved parameter given more than once: which occurrence counts? -/
def duplicateReserved (req : Req) : Bool :=
  ["q", "ids", "action"].any fun name => (req.query.filter (fun kv => kv.1 == name)).length > 1

/-- (shape 7) a malformed path segment in a path that names no registered resource: a bad request
(400) or an unknown resource (404)? The text gives no order between the two. -/
def malformedAndUnknown (V : String → Bool) (roots : List Node) (req : Req) : Bool :=
  (locate roots req.path).isNone && !req.path.all V

/-- the request is one whose outcome the property text determines -/
def specified (V : String → Bool) (roots : List Node) (req : Req) : Bool :=
  !unknownHeaderValue req && !emptySegment req && !emptyReservedValue req && !duplicateReserved req &&
  !malformedAndUnknown V roots req &&
  match locate roots req.path with
  | none => true
  | some t => !headerContradictsVerb t req && !otherVerbWithHeaderOnSimple t req && !keyAndIds t req && !qAndIds t req

/-! ## what happens around a routed request (filters), from the last sentence of the property -/

/-- the events of a routed request when nothing fails: filters before the method in registration
order, the method, filters after it in reverse order -/
def happyEvents (filters : List FilterKind) (f : Facts) (seenAt : Nat → List Nat) : List Event :=
  (List.range filters.length).map (fun i => Event.pre i f (seenAt i)) ++
  [Event.invoke f (seenAt filters.length)] ++
  (List.range filters.length).reverse.map (fun i => Event.post i (seenAt filters.length))

end Restli.Routing.Spec
