import Restli.Lib.Basic
/-! # Spec.Tunnel — what property C14 demands of query tunnelling

Written from the property text over plain data; shares no definition with `Model/Tunnel.lean` or
`Lib/Multipart.lean`. -/
namespace Restli.TunnelSpec
open Restli

/-- A request as routing and resource code see it: verb, path, raw query, body bytes (`none` = no
body), every header (as a lookup from the canonical name to its values — this covers the content
type and the Rest.li headers), and the request target. -/
structure Seen where
  verb : Bytes
  path : Bytes
  rawQuery : Bytes
  body : Option Bytes
  header : Bytes → Option (List Bytes)
  requestURI : Bytes

/-- "identical in verb, path, raw query, body bytes, content type and Rest.li headers": all of `Seen` -/
def Transparent (afterDetunnelling untunnelled : Seen) : Prop := afterDetunnelling = untunnelled

/-- the exact condition under which a request is tunnelled: a positive threshold that the raw
query's length exceeds -/
def MustTunnel (threshold : Nat) (rawQuery : Bytes) : Prop := 0 < threshold ∧ threshold < rawQuery.length
instance (t : Nat) (q : Bytes) : Decidable (MustTunnel t q) := by unfold MustTunnel; infer_instance

/-- does `pat` occur in `s`? -/
def occursIn (pat : Bytes) : Bytes → Bool
  | [] => pat.isEmpty
  | c :: cs => pat.isPrefixOf (c :: cs) || occursIn pat cs

/-- The honest hypothesis about the random multipart boundary: Go draws 30 random bytes (60 hex
digits). The delimiter `"--" ++ b` must not occur in the query or in the body; a collision
(probability about 2⁻²⁴⁰ per request) is outside the model. A boundary is a MIME token of at most 70
bytes (no CR, LF, space, quote …) — what `multipart.Writer` produces. -/
structure BoundaryFresh (b q body : Bytes) : Prop where
  inQuery : occursIn ([45, 45] ++ b) q = false
  inBody : occursIn ([45, 45] ++ b) body = false

/-- the response status the property prescribes for a malformed tunnelled request -/
def rejectStatus : Nat := 400

end Restli.TunnelSpec
