// Command extract reads /repo's current working tree with go/ast and regenerates
//   - lean/Restli/Gen/Tables.lean : constants and tables the Lean proofs are stated against
//   - fingerprints.json           : a hash of the printed syntax of every modelled Go function
//
// It fails loudly when a declaration is not found in the expected shape: that is a broken
// tie between model and source, not something to skip.
package main

import (
	"bytes"
	"crypto/sha256"
	"encoding/hex"
	"encoding/json"
	"flag"
	"fmt"
	"go/ast"
	"go/constant"
	"go/parser"
	"go/printer"
	"go/token"
	"os"
	"path/filepath"
	"regexp"
	"sort"
	"strconv"
	"strings"
)

type pkg struct {
	dir   string
	fset  *token.FileSet
	files map[string]*ast.File
	// iota-aware constant table
	consts map[string]constant.Value
}

// extractErr is what a table group raises when a declaration is not in the expected shape.
type extractErr string

// inGroup is set while a table group runs: its failure is contained (see main).
var inGroup bool

func fatalf(f string, a ...any) {
	if inGroup {
		panic(extractErr(fmt.Sprintf(f, a...)))
	}
	fmt.Fprintf(os.Stderr, "extract: "+f+"\n", a...)
	os.Exit(2)
}

// runGroup runs one table group; a declaration that is not found in the expected shape (or any
// other failure inside the group) is returned instead of ending the run.
func runGroup(t tableFunc, e *emitter, root string, isRoot bool) (err error) {
	inGroup = true
	defer func() {
		inGroup = false
		if r := recover(); r != nil {
			err = fmt.Errorf("%v", r)
		}
	}()
	t.f(e, root, isRoot)
	return nil
}

func loadPkg(dir string) *pkg {
	p := &pkg{dir: dir, fset: token.NewFileSet(), files: map[string]*ast.File{}, consts: map[string]constant.Value{}}
	ents, err := os.ReadDir(dir)
	if err != nil {
		fatalf("%v", err)
	}
	for _, e := range ents {
		n := e.Name()
		if e.IsDir() || !strings.HasSuffix(n, ".go") || strings.HasSuffix(n, "_test.go") {
			continue
		}
		f, err := parser.ParseFile(p.fset, filepath.Join(dir, n), nil, parser.ParseComments)
		if err != nil {
			fatalf("parse %s: %v", n, err)
		}
		// honour the verif build tag split: skip files that are !verif-only duplicates is not
		// needed — constants are never declared in tagged files.
		p.files[n] = f
	}
	// evaluate constants to a fixed point (handles forward references and iota)
	for round := 0; round < 8; round++ {
		for _, f := range p.files {
			for _, d := range f.Decls {
				gd, ok := d.(*ast.GenDecl)
				if !ok || gd.Tok != token.CONST {
					continue
				}
				var lastVals []ast.Expr
				for i, s := range gd.Specs {
					vs := s.(*ast.ValueSpec)
					vals := vs.Values
					if len(vals) == 0 {
						vals = lastVals
					} else {
						lastVals = vals
					}
					for j, name := range vs.Names {
						if j >= len(vals) {
							continue
						}
						if v, ok := p.eval(vals[j], int64(i)); ok {
							p.consts[name.Name] = v
						}
					}
				}
			}
		}
	}
	return p
}

func (p *pkg) eval(e ast.Expr, iota int64) (constant.Value, bool) {
	switch x := e.(type) {
	case *ast.BasicLit:
		v := constant.MakeFromLiteral(x.Value, x.Kind, 0)
		return v, v.Kind() != constant.Unknown
	case *ast.Ident:
		if x.Name == "iota" {
			return constant.MakeInt64(iota), true
		}
		v, ok := p.consts[x.Name]
		return v, ok
	case *ast.ParenExpr:
		return p.eval(x.X, iota)
	case *ast.BinaryExpr:
		a, ok1 := p.eval(x.X, iota)
		b, ok2 := p.eval(x.Y, iota)
		if !ok1 || !ok2 {
			return nil, false
		}
		if x.Op == token.SHL || x.Op == token.SHR {
			s, _ := constant.Uint64Val(b)
			return constant.Shift(a, x.Op, uint(s)), true
		}
		return constant.BinaryOp(a, x.Op, b), true
	case *ast.CallExpr: // conversions such as Method(iota), Hash(123), uint32(…)
		if len(x.Args) == 1 {
			return p.eval(x.Args[0], iota)
		}
	case *ast.SelectorExpr:
		// http.StatusXxx and friends: a small closed table
		if id, ok := x.X.(*ast.Ident); ok && id.Name == "http" {
			if v, ok := httpConsts[x.Sel.Name]; ok {
				return constant.MakeInt64(v), true
			}
		}
	}
	return nil, false
}

var httpConsts = map[string]int64{
	"StatusOK": 200, "StatusCreated": 201, "StatusNoContent": 204, "StatusBadRequest": 400,
	"StatusNotFound": 404, "StatusInternalServerError": 500, "StatusMethodNotAllowed": 405,
}

func (p *pkg) str(name string) string {
	v, ok := p.consts[name]
	if !ok || v.Kind() != constant.String {
		fatalf("%s: string constant %q not found", p.dir, name)
	}
	return constant.StringVal(v)
}

func (p *pkg) int(name string) int64 {
	v, ok := p.consts[name]
	if !ok {
		fatalf("%s: constant %q not found", p.dir, name)
	}
	i, exact := constant.Int64Val(constant.ToInt(v))
	if !exact {
		u, _ := constant.Uint64Val(constant.ToInt(v))
		return int64(u)
	}
	return i
}

// varInit returns the initialiser expression of a package-level var
func (p *pkg) varInit(name string) ast.Expr {
	for _, f := range p.files {
		for _, d := range f.Decls {
			gd, ok := d.(*ast.GenDecl)
			if !ok || gd.Tok != token.VAR {
				continue
			}
			for _, s := range gd.Specs {
				vs := s.(*ast.ValueSpec)
				for j, n := range vs.Names {
					if n.Name == name && j < len(vs.Values) {
						return vs.Values[j]
					}
				}
			}
		}
	}
	fatalf("%s: var %q not found", p.dir, name)
	return nil
}

func (p *pkg) funcDecl(name string) *ast.FuncDecl {
	// name is "Func" or "Recv.Method"
	recv, fn := "", name
	if i := strings.Index(name, "."); i >= 0 {
		recv, fn = name[:i], name[i+1:]
	}
	for _, f := range p.files {
		for _, d := range f.Decls {
			fd, ok := d.(*ast.FuncDecl)
			if !ok || fd.Name.Name != fn {
				continue
			}
			r := ""
			if fd.Recv != nil && len(fd.Recv.List) == 1 {
				r = recvName(fd.Recv.List[0].Type)
			}
			if r == recv {
				return fd
			}
		}
	}
	return nil
}

func recvName(e ast.Expr) string {
	switch x := e.(type) {
	case *ast.StarExpr:
		return recvName(x.X)
	case *ast.Ident:
		return x.Name
	case *ast.IndexExpr:
		return recvName(x.X)
	case *ast.IndexListExpr:
		return recvName(x.X)
	}
	return "?"
}

func (p *pkg) fingerprint(name string) (string, bool) {
	fd := p.funcDecl(name)
	if fd == nil {
		return "", false
	}
	var buf bytes.Buffer
	fd.Doc = nil
	cfg := printer.Config{Mode: printer.RawFormat}
	// print without comments: a fresh fileset position-free print
	if err := cfg.Fprint(&buf, token.NewFileSet(), fd); err != nil {
		fatalf("print %s: %v", name, err)
	}
	h := sha256.Sum256(buf.Bytes())
	return hex.EncodeToString(h[:8]), true
}

var pairKeyRe = regexp.MustCompile(`\("((?:[^"\\]|\\.)*)", \d+\)`)

// missingKeys: the string keys of `List (String × Nat)` tables present in the baseline text of a
// group and absent from its fresh text
func missingKeys(base, fresh string) []string {
	have := map[string]bool{}
	for _, m := range pairKeyRe.FindAllStringSubmatch(fresh, -1) {
		have[m[1]] = true
	}
	var gone []string
	for _, m := range pairKeyRe.FindAllStringSubmatch(base, -1) {
		if !have[m[1]] {
			gone = append(gone, m[1])
			have[m[1]] = true
		}
	}
	return gone
}

func printNode(n any) string {
	var buf bytes.Buffer
	cfg := printer.Config{Mode: printer.RawFormat}
	if err := cfg.Fprint(&buf, token.NewFileSet(), n); err != nil {
		fatalf("print: %v", err)
	}
	return buf.String()
}

func fingerprintAll(repo string, fps map[string]string) {
	var dirs []string
	filepath.WalkDir(repo, func(path string, d os.DirEntry, err error) error {
		if err != nil || !d.IsDir() {
			return nil
		}
		switch d.Name() {
		case ".git", "vendor", "testdata", "internal", "node_modules":
			return filepath.SkipDir
		}
		if ms, _ := filepath.Glob(filepath.Join(path, "*.go")); len(ms) > 0 {
			dirs = append(dirs, path)
		}
		return nil
	})
	for _, dir := range dirs {
		rel, _ := filepath.Rel(repo, dir)
		p := loadPkg(dir)
		names := make([]string, 0, len(p.files))
		for n := range p.files {
			names = append(names, n)
		}
		sort.Strings(names)
		var decls []string
		for _, n := range names {
			for _, d := range p.files[n].Decls {
				switch x := d.(type) {
				case *ast.FuncDecl:
					name := x.Name.Name
					if x.Recv != nil && len(x.Recv.List) == 1 {
						name = recvName(x.Recv.List[0].Type) + "." + name
					}
					key := rel + ":" + name
					if _, ok := fps[key]; ok {
						continue
					}
					x.Doc = nil
					h := sha256.Sum256([]byte(printNode(x)))
					fps[key] = hex.EncodeToString(h[:8])
				case *ast.GenDecl:
					if x.Tok == token.IMPORT {
						continue
					}
					x.Doc = nil
					decls = append(decls, printNode(x))
				}
			}
		}
		sort.Strings(decls)
		h := sha256.Sum256([]byte(strings.Join(decls, "\n")))
		fps[rel+":<declarations>"] = hex.EncodeToString(h[:8])
	}
}

func leanStr(s string) string {
	var b strings.Builder
	b.WriteByte('"')
	for _, r := range []byte(s) {
		switch {
		case r == '"':
			b.WriteString("\\\"")
		case r == '\\':
			b.WriteString("\\\\")
		case r >= 0x20 && r < 0x7f:
			b.WriteByte(r)
		default:
			fmt.Fprintf(&b, "\\x%02x", r)
		}
	}
	b.WriteByte('"')
	return b.String()
}

func leanBytes(s []byte) string {
	parts := make([]string, len(s))
	for i, c := range s {
		parts[i] = strconv.Itoa(int(c))
	}
	return "[" + strings.Join(parts, ", ") + "]"
}

type emitter struct{ b strings.Builder }

func (e *emitter) f(format string, a ...any) { fmt.Fprintf(&e.b, format+"\n", a...) }

func main() {
	repo := flag.String("repo", "/repo", "repository root")
	out := flag.String("out", "", "output Lean file (Gen/Tables.lean)")
	fpOut := flag.String("fingerprints", "", "output fingerprints json")
	mapFile := flag.String("model-map", "", "directory of model-map json files: modelled Go functions")
	groupsBase := flag.String("groups-baseline", "", "json of the table text per module/group at the baseline: used, and reported, when a group can no longer be extracted")
	groupsOut := flag.String("groups-out", "", "write the table text per module/group (the baseline file)")
	statusOut := flag.String("status", "", "write which groups fell back to the baseline, and why")
	flag.Parse()

	baseline := map[string]string{}
	if *groupsBase != "" {
		if data, err := os.ReadFile(*groupsBase); err == nil {
			if err := json.Unmarshal(data, &baseline); err != nil {
				fatalf("groups baseline %s: %v", *groupsBase, err)
			}
		}
	}
	fresh := map[string]string{}
	failed := map[string]string{}

	e := &emitter{}
	e.f("-- GENERATED by tools/extract from the working tree of %s — do not edit.", *repo)
	e.f("-- Regenerated on every check; the theorems in Props/ are stated against these tables.")
	for _, mod := range []struct{ ns, dir string }{{"Restli.Gen", "v2"}, {"Restli.GenRoot", "."}} {
		e.f("namespace %s", mod.ns)
		for _, t := range tableFuncs {
			key := mod.dir + "/" + t.name
			sub := &emitter{}
			err := runGroup(t, sub, filepath.Join(*repo, mod.dir), mod.dir == ".")
			if err == nil {
				// a table keyed by source text (error-site format strings): the model looks entries up
				// by those keys, so a key of the baseline that is gone is a changed shape, not a value
				if fb, ok := baseline[key]; ok {
					if gone := missingKeys(fb, sub.b.String()); len(gone) > 0 {
						err = fmt.Errorf("keys the model looks up are gone (texts changed): %q", gone)
					}
				}
			}
			if err == nil && t.name == "c18-lazymap-steps" {
				// the whole list is what the model was written against (Props/C18.lean states the
				// baseline list): any difference is a changed shape
				if fb, ok := baseline[key]; ok && fb != sub.b.String() {
					err = fmt.Errorf("the atomic steps of the source are no longer those of the model: %s", strings.TrimSpace(sub.b.String()))
				}
			}
			if err == nil {
				fresh[key] = sub.b.String()
				e.b.WriteString(sub.b.String())
				continue
			}
			// the tie of this group to the source is broken: the properties that rest on it report
			// that (bin/check); everything else keeps building against the last extracted tables
			fb, ok := baseline[key]
			if !ok || *statusOut == "" {
				fatalf("%s: %v", key, err)
			}
			failed[key] = err.Error()
			e.f("-- STALE: group %s could not be extracted from the working tree; tables as of the baseline", key)
			e.b.WriteString(fb)
		}
		e.f("end %s", mod.ns)
	}
	if *statusOut != "" {
		js, _ := json.MarshalIndent(map[string]any{"failed": failed}, "", " ")
		writeIfChanged(*statusOut, string(js)+"\n")
	}
	if *groupsOut != "" {
		if len(failed) > 0 {
			fatalf("cannot record a baseline while groups fail: %v", failed)
		}
		js, _ := json.MarshalIndent(fresh, "", " ")
		writeIfChanged(*groupsOut, string(js)+"\n")
	}
	if *out != "" {
		writeIfChanged(*out, e.b.String())
	} else {
		fmt.Print(e.b.String())
	}

	if *fpOut != "" && *mapFile != "" {
		type entry struct {
			Module string   `json:"module"` // "v2" or "."
			Pkg    string   `json:"pkg"`
			Funcs  []string `json:"funcs"`
			Lean   string   `json:"lean"`
			Props  []string `json:"props"`
		}
		var mm []entry
		mapFiles, _ := filepath.Glob(filepath.Join(*mapFile, "*.json"))
		sort.Strings(mapFiles)
		for _, mf := range mapFiles {
			data, err := os.ReadFile(mf)
			if err != nil {
				fatalf("%v", err)
			}
			var part []entry
			if err := json.Unmarshal(data, &part); err != nil {
				fatalf("model map %s: %v", mf, err)
			}
			mm = append(mm, part...)
		}
		fps := map[string]string{}
		var missing []string
		for _, m := range mm {
			p := loadPkg(filepath.Join(*repo, m.Module, m.Pkg))
			for _, fn := range m.Funcs {
				key := filepath.Join(m.Module, m.Pkg) + ":" + fn
				if h, ok := p.fingerprint(fn); ok {
					fps[key] = h
				} else {
					missing = append(missing, key)
				}
			}
		}
		// every other function of every package of both modules, and per package the text of its
		// non-function declarations: a change anywhere in a package a property rests on raises that
		// property's search budget, whether or not the function is one the model map names
		fingerprintAll(*repo, fps)
		sort.Strings(missing)
		res := map[string]any{"fingerprints": fps, "missing": missing}
		js, _ := json.MarshalIndent(res, "", " ")
		writeIfChanged(*fpOut, string(js)+"\n")
	}
}

// tableFuncs are registered by the tables_*.go files (one per modelled area) and run in name order.
type tableFunc struct {
	name string
	f    func(e *emitter, root string, isRoot bool)
}

var tableFuncs []tableFunc

func registerTables(name string, f func(e *emitter, root string, isRoot bool)) {
	tableFuncs = append(tableFuncs, tableFunc{name, f})
	sort.Slice(tableFuncs, func(i, j int) bool { return tableFuncs[i].name < tableFuncs[j].name })
}

func writeIfChanged(path, content string) {
	if old, err := os.ReadFile(path); err == nil && string(old) == content {
		return
	}
	if err := os.WriteFile(path, []byte(content), 0o644); err != nil {
		fatalf("%v", err)
	}
}
