package main

import (
	"path/filepath"
)

// Envelope member names the end-to-end call model (C02, Model/EndToEnd.lean) is stated against:
//
//	v2:   restlidata/generated/com/linkedin/restli/common/structs.go
//	root: restlidata/fields.go
//	      ElementsField, ValueField, StatusField, IdField, LocationField, PagingField, MetadataField,
//	      EntityField, EntitiesField  -> Restli.Gen.C02.<name>
//
// and the Location header name used by writeIdHeaders (a literal there; kept as a literal here).
func init() {
	registerTables("c02-envelopes", func(e *emitter, root string, isRoot bool) {
		dir := "restlidata/generated/com/linkedin/restli/common"
		if isRoot {
			dir = "restlidata"
		}
		c := loadPkg(filepath.Join(root, dir))
		e.f("namespace C02")
		for _, n := range []struct{ lean, goName string }{
			{"elementsField", "ElementsField"}, {"valueField", "ValueField"}, {"statusField", "StatusField"},
			{"idField", "IdField"}, {"locationField", "LocationField"}, {"pagingField", "PagingField"},
			{"metadataField", "MetadataField"}, {"entityField", "EntityField"}, {"entitiesField", "EntitiesField"},
		} {
			e.f("def %s : String := %s", n.lean, leanStr(c.str(n.goName)))
		}
		e.f("end C02")
	})
}
