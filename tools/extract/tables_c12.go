package main

import (
	"go/ast"
	"go/token"
	"path/filepath"
	"strconv"
)

// Tables for C12: the literals `codegen/utils.ExportedIdentifier` writes.
//
//	case unicode.IsNumber(c): if i == 0 { buf.WriteString(<identDigitPrefix>) }
//	case c == '_':            if i == 0 { buf.WriteString(<identUnderscorePrefix>) }
//	case c == '$':            if i != 0 { buf.WriteRune(<identDollarSep>) }; buf.WriteString(<identDollarWord>)
//
// and the two characters the cases test for (identUnderscoreChar, identDollarChar).
func init() {
	registerTables("c12-ident", func(e *emitter, root string, isRoot bool) {
		p := loadPkg(filepath.Join(root, "codegen/utils"))
		fd := p.funcDecl("ExportedIdentifier")
		if fd == nil || fd.Body == nil {
			fatalf("codegen/utils: func ExportedIdentifier not found")
		}
		var sw *ast.SwitchStmt
		ast.Inspect(fd.Body, func(n ast.Node) bool {
			if s, ok := n.(*ast.SwitchStmt); ok && sw == nil {
				sw = s
			}
			return true
		})
		if sw == nil || sw.Tag != nil {
			fatalf("ExportedIdentifier: expected one tagless switch")
		}
		type clause struct {
			cmpChar  string   // the rune literal of a `c == '<x>'` case, if that is the case's shape
			call     string   // unicode.<call>(c), if that is the shape
			strs     []string // string literals passed to WriteString, in order
			runeLits []string // rune literals passed to WriteRune, in order
			dflt     bool
		}
		var cls []clause
		for _, s := range sw.Body.List {
			cc := s.(*ast.CaseClause)
			var c clause
			if cc.List == nil {
				c.dflt = true
			} else if len(cc.List) == 1 {
				switch x := cc.List[0].(type) {
				case *ast.BinaryExpr:
					if lit, ok := x.Y.(*ast.BasicLit); ok && x.Op == token.EQL && lit.Kind == token.CHAR {
						c.cmpChar = lit.Value
					}
				case *ast.CallExpr:
					if sel, ok := x.Fun.(*ast.SelectorExpr); ok {
						c.call = sel.Sel.Name
					}
				}
			}
			for _, st := range cc.Body {
				ast.Inspect(st, func(n ast.Node) bool {
					call, ok := n.(*ast.CallExpr)
					if !ok {
						return true
					}
					sel, ok := call.Fun.(*ast.SelectorExpr)
					if !ok || len(call.Args) != 1 {
						return true
					}
					if lit, ok := call.Args[0].(*ast.BasicLit); ok {
						switch {
						case sel.Sel.Name == "WriteString" && lit.Kind == token.STRING:
							c.strs = append(c.strs, lit.Value)
						case sel.Sel.Name == "WriteRune" && lit.Kind == token.CHAR:
							c.runeLits = append(c.runeLits, lit.Value)
						}
					}
					return true
				})
			}
			cls = append(cls, c)
		}
		if len(cls) != 5 || cls[0].call != "IsLetter" || cls[1].call != "IsNumber" || cls[2].cmpChar == "" ||
			cls[3].cmpChar == "" || !cls[4].dflt || len(cls[0].strs) != 0 || len(cls[1].strs) != 1 ||
			len(cls[2].strs) != 1 || len(cls[3].strs) != 1 || len(cls[3].runeLits) != 1 || len(cls[1].runeLits) != 0 || len(cls[2].runeLits) != 0 {
			fatalf("ExportedIdentifier: the switch no longer has the modelled shape (letter, number, '_', '$', default)")
		}
		unq := func(s string) string {
			v, err := strconv.Unquote(s)
			if err != nil {
				fatalf("ExportedIdentifier: literal %s: %v", s, err)
			}
			return v
		}
		one := func(s string) int {
			v := unq(s)
			if len(v) != 1 || v[0] >= 0x80 {
				fatalf("ExportedIdentifier: %s is not a single ASCII character", s)
			}
			return int(v[0])
		}
		e.f("def identDigitPrefix : List UInt8 := %s", leanBytes([]byte(unq(cls[1].strs[0]))))
		e.f("def identUnderscoreChar : UInt8 := %d", one(cls[2].cmpChar))
		e.f("def identUnderscorePrefix : List UInt8 := %s", leanBytes([]byte(unq(cls[2].strs[0]))))
		e.f("def identDollarChar : UInt8 := %d", one(cls[3].cmpChar))
		e.f("def identDollarSep : UInt8 := %d", one(cls[3].runeLits[0]))
		e.f("def identDollarWord : List UInt8 := %s", leanBytes([]byte(unq(cls[3].strs[0]))))
	})
}
