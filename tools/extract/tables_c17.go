package main

import (
	"go/ast"
	"go/token"
	"path/filepath"
)

// Property C17: two structural facts about how the current code touches shared cells. The Lean
// model (Model/SharedCells.lean) takes its `fixed` / `locked` switches from these, so a repair in
// /repo flips the model with it, and the witness theorems stated for today's code
// (c17_shared_error_object_cex, c17_rng_lost_update_cex) then stop building — which is the signal
// to retire them together with the guards of the `_partial` theorems.
//
//	errBranchStoresThroughPointer : inside `if errRes, ok := err.(*…ErrorResponse); ok { … }` of
//	    rootNode.ServeHTTP some statement assigns to a field of errRes (the object the resource returned)
//	rngDrawSites / rngDrawUnlocked : calls of a method on the package-level `rng` of package d2,
//	    and whether one of them is not preceded, in its function, by a `….Lock()` call
func init() {
	registerTables("c17-shared-cells", func(e *emitter, root string, isRoot bool) {
		e.f("namespace C17")
		rp := loadPkg(filepath.Join(root, "restli"))
		fd := rp.funcDecl("rootNode.ServeHTTP")
		if fd == nil || fd.Body == nil {
			fatalf("%s: rootNode.ServeHTTP not found", rp.dir)
		}
		// the branch taken when the error is a *ErrorResponse, as an `if v, ok := err.(*…ErrorResponse); ok`
		// or as a `case *…ErrorResponse:` of a `switch v := err.(type)`
		isErrResp := func(t ast.Expr) bool {
			star, ok := t.(*ast.StarExpr)
			if !ok {
				return false
			}
			switch x := star.X.(type) {
			case *ast.SelectorExpr:
				return x.Sel.Name == "ErrorResponse"
			case *ast.Ident:
				return x.Name == "ErrorResponse"
			}
			return false
		}
		found, stores := false, 0
		// a store through the resource's pointer: `v.F = …` before v itself is re-pointed (`v = &copy`);
		// v handed to another function of the package cannot be judged here
		judge := func(v string, body []ast.Stmt) {
			found = true
			repointed := false
			for _, st := range body {
				ast.Inspect(st, func(m ast.Node) bool {
					switch x := m.(type) {
					case *ast.AssignStmt:
						for _, l := range x.Lhs {
							if id, ok := l.(*ast.Ident); ok && id.Name == v && x.Tok == token.ASSIGN {
								repointed = true
							}
							if sel, ok := l.(*ast.SelectorExpr); ok {
								if id, ok := sel.X.(*ast.Ident); ok && id.Name == v && !repointed {
									stores++
								}
							}
						}
					case *ast.CallExpr:
						if _, isMethod := x.Fun.(*ast.SelectorExpr); isMethod {
							return true
						}
						for _, a := range x.Args {
							if id, ok := a.(*ast.Ident); ok && id.Name == v && !repointed {
								fatalf("%s: rootNode.ServeHTTP hands the resource's *ErrorResponse to %s: whether that stores through it is not decided syntactically", rp.dir, printNode(x.Fun))
							}
						}
					}
					return true
				})
			}
		}
		ast.Inspect(fd.Body, func(n ast.Node) bool {
			switch x := n.(type) {
			case *ast.IfStmt:
				as, ok := x.Init.(*ast.AssignStmt)
				if !ok || as.Tok != token.DEFINE || len(as.Lhs) != 2 || len(as.Rhs) != 1 {
					return true
				}
				ta, ok := as.Rhs[0].(*ast.TypeAssertExpr)
				v, ok2 := as.Lhs[0].(*ast.Ident)
				if ok && ok2 && ta.Type != nil && isErrResp(ta.Type) {
					judge(v.Name, x.Body.List)
				}
			case *ast.TypeSwitchStmt:
				as, ok := x.Assign.(*ast.AssignStmt)
				if !ok || len(as.Lhs) != 1 {
					return true
				}
				v, ok := as.Lhs[0].(*ast.Ident)
				if !ok {
					return true
				}
				for _, c := range x.Body.List {
					cc := c.(*ast.CaseClause)
					if len(cc.List) == 1 && isErrResp(cc.List[0]) {
						judge(v.Name, cc.Body)
					}
				}
			}
			return true
		})
		if !found {
			fatalf("%s: rootNode.ServeHTTP has no branch for `err.(*…ErrorResponse)` (if-with-assertion or type switch)", rp.dir)
		}
		e.f("def errBranchStoresThroughPointer : Bool := %v", stores > 0)

		dp := loadPkg(filepath.Join(root, "d2"))
		// the shared generators: package-level vars initialised with rand.New(…), whatever their names
		rngNames := map[string]bool{}
		for _, f := range dp.files {
			for _, d := range f.Decls {
				if gd, ok := d.(*ast.GenDecl); ok && gd.Tok == token.VAR {
					for _, sp := range gd.Specs {
						vs := sp.(*ast.ValueSpec)
						for i, n := range vs.Names {
							if i >= len(vs.Values) {
								continue
							}
							isRand := false
							ast.Inspect(vs.Values[i], func(m ast.Node) bool {
								if c, ok := m.(*ast.CallExpr); ok {
									if sel, ok := c.Fun.(*ast.SelectorExpr); ok && sel.Sel.Name == "New" {
										if id, ok := sel.X.(*ast.Ident); ok && id.Name == "rand" {
											isRand = true
										}
									}
								}
								return true
							})
							if isRand {
								rngNames[n.Name] = true
							}
						}
					}
				}
			}
		}
		hasVar := len(rngNames) > 0
		if !hasVar {
			fatalf("%s: no package-level random generator (a var initialised with rand.New) found", dp.dir)
		}
		sites, unlocked := 0, 0
		if hasVar {
			for _, f := range dp.files {
				for _, d := range f.Decls {
					fn, ok := d.(*ast.FuncDecl)
					if !ok || fn.Body == nil {
						continue
					}
					var locks []token.Pos
					var draws []token.Pos
					ast.Inspect(fn.Body, func(n ast.Node) bool {
						c, ok := n.(*ast.CallExpr)
						if !ok {
							return true
						}
						// the generator handed to another function draws there: a draw site as well
						for _, a := range c.Args {
							if id, ok := a.(*ast.Ident); ok && rngNames[id.Name] {
								if id.Obj == nil {
									draws = append(draws, c.Pos())
								} else if vs, isVS := id.Obj.Decl.(*ast.ValueSpec); isVS && vs != nil && id.Obj.Kind == ast.Var {
									draws = append(draws, c.Pos())
								}
							}
						}
						sel, ok := c.Fun.(*ast.SelectorExpr)
						if !ok {
							return true
						}
						if sel.Sel.Name == "Lock" {
							locks = append(locks, c.Pos())
						}
						if id, ok := sel.X.(*ast.Ident); ok && rngNames[id.Name] && id.Obj == nil {
							// id.Obj == nil: not a local named rng (package-level idents of other files are unresolved)
							draws = append(draws, c.Pos())
						} else if ok && rngNames[id.Name] && id.Obj != nil && id.Obj.Kind == ast.Var {
							if _, isField := id.Obj.Decl.(*ast.Field); !isField {
								if vs, isVS := id.Obj.Decl.(*ast.ValueSpec); isVS && vs != nil {
									draws = append(draws, c.Pos())
								}
							}
						}
						return true
					})
					for _, dpos := range draws {
						sites++
						covered := false
						for _, l := range locks {
							if l < dpos {
								covered = true
							}
						}
						if !covered {
							unlocked++
						}
					}
				}
			}
		}
		e.f("def rngDrawSites : Nat := %d", sites)
		e.f("def rngDrawUnlocked : Bool := %v", unlocked > 0)
		e.f("end C17")
	})
}
