package main

import (
	"go/ast"
	"go/token"
	"path/filepath"
)

// Property C17: two structural facts about how the current code touches shared cells. The Lean
// model (Model/SharedCells.lean) takes its `fixed` / `locked` switches from these, so a repair in
// /repo flips the model with it, and the witness theorems stated for today's code
// (c17_shared_error_object_cex, c17_rng_lost_update_cex) then stop building — which is the signal
// to retire them together with the guards of the `_partial` theorems.
//
//	errBranchStoresThroughPointer : inside `if errRes, ok := err.(*…ErrorResponse); ok { … }` of
//	    rootNode.ServeHTTP some statement assigns to a field of errRes (the object the resource returned)
//	rngDrawSites / rngDrawUnlocked : calls of a method on the package-level `rng` of package d2,
//	    and whether one of them is not preceded, in its function, by a `….Lock()` call
func init() {
	registerTables("c17-shared-cells", func(e *emitter, root string, isRoot bool) {
		e.f("namespace C17")
		rp := loadPkg(filepath.Join(root, "restli"))
		fd := rp.funcDecl("rootNode.ServeHTTP")
		if fd == nil || fd.Body == nil {
			fatalf("%s: rootNode.ServeHTTP not found", rp.dir)
		}
		found, stores := false, 0
		ast.Inspect(fd.Body, func(n ast.Node) bool {
			is, ok := n.(*ast.IfStmt)
			if !ok || is.Init == nil {
				return true
			}
			as, ok := is.Init.(*ast.AssignStmt)
			if !ok || as.Tok != token.DEFINE || len(as.Lhs) != 2 || len(as.Rhs) != 1 {
				return true
			}
			ta, ok := as.Rhs[0].(*ast.TypeAssertExpr)
			if !ok {
				return true
			}
			star, ok := ta.Type.(*ast.StarExpr)
			if !ok {
				return true
			}
			name := ""
			switch t := star.X.(type) {
			case *ast.SelectorExpr:
				name = t.Sel.Name
			case *ast.Ident:
				name = t.Name
			}
			v, ok := as.Lhs[0].(*ast.Ident)
			if name != "ErrorResponse" || !ok {
				return true
			}
			found = true
			ast.Inspect(is.Body, func(m ast.Node) bool {
				if st, ok := m.(*ast.AssignStmt); ok {
					for _, l := range st.Lhs {
						if sel, ok := l.(*ast.SelectorExpr); ok {
							if id, ok := sel.X.(*ast.Ident); ok && id.Name == v.Name && id.Obj == v.Obj {
								stores++
							}
						}
					}
				}
				return true
			})
			return true
		})
		if !found {
			fatalf("%s: rootNode.ServeHTTP has no `if errRes, ok := err.(*…ErrorResponse); ok` branch", rp.dir)
		}
		e.f("def errBranchStoresThroughPointer : Bool := %v", stores > 0)

		dp := loadPkg(filepath.Join(root, "d2"))
		hasVar := false
		for _, f := range dp.files {
			for _, d := range f.Decls {
				if gd, ok := d.(*ast.GenDecl); ok && gd.Tok == token.VAR {
					for _, s := range gd.Specs {
						for _, n := range s.(*ast.ValueSpec).Names {
							if n.Name == "rng" {
								hasVar = true
							}
						}
					}
				}
			}
		}
		sites, unlocked := 0, 0
		if hasVar {
			for _, f := range dp.files {
				for _, d := range f.Decls {
					fn, ok := d.(*ast.FuncDecl)
					if !ok || fn.Body == nil {
						continue
					}
					var locks []token.Pos
					var draws []token.Pos
					ast.Inspect(fn.Body, func(n ast.Node) bool {
						c, ok := n.(*ast.CallExpr)
						if !ok {
							return true
						}
						sel, ok := c.Fun.(*ast.SelectorExpr)
						if !ok {
							return true
						}
						if sel.Sel.Name == "Lock" {
							locks = append(locks, c.Pos())
						}
						if id, ok := sel.X.(*ast.Ident); ok && id.Name == "rng" && id.Obj == nil {
							// id.Obj == nil: not a local named rng (package-level idents of other files are unresolved)
							draws = append(draws, c.Pos())
						} else if ok && id.Name == "rng" && id.Obj != nil && id.Obj.Kind == ast.Var {
							if _, isField := id.Obj.Decl.(*ast.Field); !isField {
								if vs, isVS := id.Obj.Decl.(*ast.ValueSpec); isVS && vs != nil {
									draws = append(draws, c.Pos())
								}
							}
						}
						return true
					})
					for _, dpos := range draws {
						sites++
						covered := false
						for _, l := range locks {
							if l < dpos {
								covered = true
							}
						}
						if !covered {
							unlocked++
						}
					}
				}
			}
		}
		e.f("def rngDrawSites : Nat := %d", sites)
		e.f("def rngDrawUnlocked : Bool := %v", unlocked > 0)
		e.f("end C17")
	})
}
