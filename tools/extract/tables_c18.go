package main

import (
	"fmt"
	"go/ast"
	"path/filepath"
	"sort"
	"strings"
)

// The atomic steps of d2/lazymap.LazySyncMap, as the source has them, in source order:
//
//	<module>/d2/lazymap/lazymap.go, every method of LazySyncMap
//	    -> Restli.Gen[Root].lazymapSteps : List (String × String × String)
//	       (method, label of the yield announcing the step, the atomic action)
//
// An atomic action is a call of a method on the map seen as a `*sync.Map` (`(*sync.Map)(m).X`),
// `Wait`/`Done` on a wait group reached through a selector (`v.wg.Wait()`; `Add` happens on a
// placeholder nobody else can see yet), or a call of a function-typed parameter (the compute
// function). The model (Model/LazyMap.lean) has one transition per such action, and the forced
// schedules of the harness can pre-empt only where a `yield` announces one: an action with no
// yield of its own in front of it is emitted with the label "<unannounced>", a yield followed by
// no action with the action "<none>", and Props/C18.lean states the list the model stands for.
func init() {
	registerTables("c18-lazymap-steps", func(e *emitter, root string, isRoot bool) {
		p := loadPkg(filepath.Join(root, "d2/lazymap"))
		var names []string
		for n := range p.files {
			names = append(names, n)
		}
		sort.Strings(names)
		var rows []string
		for _, n := range names {
			for _, d := range p.files[n].Decls {
				fd, ok := d.(*ast.FuncDecl)
				if !ok || fd.Recv == nil || fd.Body == nil || !strings.Contains(exprText(fd.Recv.List[0].Type), "LazySyncMap") {
					continue
				}
				rows = append(rows, lazySteps(fd)...)
			}
		}
		if len(rows) == 0 {
			panic("no method of LazySyncMap found in d2/lazymap")
		}
		e.f("def lazymapSteps : List (String × String × String) := [%s]", strings.Join(rows, ", "))
	})
}

func exprText(x ast.Expr) string {
	switch v := x.(type) {
	case *ast.Ident:
		return v.Name
	case *ast.StarExpr:
		return "*" + exprText(v.X)
	case *ast.ParenExpr:
		return "(" + exprText(v.X) + ")"
	case *ast.SelectorExpr:
		return exprText(v.X) + "." + v.Sel.Name
	case *ast.CallExpr:
		return exprText(v.Fun) + "(…)"
	case *ast.IndexExpr:
		return exprText(v.X) + "[…]"
	}
	return "?"
}

func lazySteps(fd *ast.FuncDecl) []string {
	funcParams := map[string]bool{}
	for _, f := range fd.Type.Params.List {
		if _, ok := f.Type.(*ast.FuncType); ok {
			for _, n := range f.Names {
				funcParams[n.Name] = true
			}
		}
	}
	var rows []string
	pending := ""
	row := func(label, action string) {
		rows = append(rows, fmt.Sprintf("(%s, %s, %s)", leanStr(fd.Name.Name), leanStr(label), leanStr(action)))
	}
	ast.Inspect(fd.Body, func(n ast.Node) bool {
		call, ok := n.(*ast.CallExpr)
		if !ok {
			return true
		}
		action := ""
		switch fun := call.Fun.(type) {
		case *ast.Ident:
			if fun.Name == "yield" && len(call.Args) == 1 {
				if pending != "" {
					row(pending, "<none>")
				}
				if lit, ok := call.Args[0].(*ast.BasicLit); ok {
					pending = strings.Trim(lit.Value, "\"`")
				} else {
					pending = "<computed>"
				}
				return false
			}
			if funcParams[fun.Name] {
				action = "call " + fun.Name
			}
		case *ast.SelectorExpr:
			recv := exprText(fun.X)
			switch {
			case strings.Contains(recv, "sync.Map"):
				action = "sync.Map." + fun.Sel.Name
			case (fun.Sel.Name == "Wait" || fun.Sel.Name == "Done") && strings.Contains(recv, "."):
				action = "WaitGroup." + fun.Sel.Name
			}
		}
		if action != "" {
			if pending == "" {
				row("<unannounced>", action)
			} else {
				row(pending, action)
			}
			pending = ""
		}
		return true
	})
	if pending != "" {
		row(pending, "<none>")
	}
	return rows
}
