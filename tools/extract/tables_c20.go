package main

import (
	"path/filepath"
)

func init() {
	registerTables("c20-codegen-utils", func(e *emitter, root string, isRoot bool) {
		cu := loadPkg(filepath.Join(root, "codegen/utils"))
		e.f("def genSuffix : String := %s", leanStr(cu.str("GeneratedFileSuffix")))
		if isRoot {
			// the root module's cleaner removes ParsedSpecsFile where v2 removes ManifestFile
			e.f("def manifestFile : String := %s", leanStr(cu.str("ParsedSpecsFile")))
		} else {
			e.f("def manifestFile : String := %s", leanStr(cu.str("ManifestFile")))
		}
	})
}
