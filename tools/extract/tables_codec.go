package main

import (
	"go/ast"
	"go/constant"
	"go/token"
	"net/url"
	"path/filepath"
	"strconv"
)

// constInFuncLit finds `const name = "…"` inside the function literal that initialises a var.
func constInFuncLit(p *pkg, varName, constName string) string {
	init := p.varInit(varName)
	var found *string
	ast.Inspect(init, func(n ast.Node) bool {
		gd, ok := n.(*ast.GenDecl)
		if !ok || gd.Tok != token.CONST {
			return true
		}
		for _, s := range gd.Specs {
			vs := s.(*ast.ValueSpec)
			for i, nm := range vs.Names {
				if nm.Name == constName && i < len(vs.Values) {
					if v, ok := p.eval(vs.Values[i], 0); ok && v.Kind() == constant.String {
						sv := constant.StringVal(v)
						found = &sv
					}
				}
			}
		}
		return true
	})
	if found == nil {
		fatalf("%s: const %s inside var %s not found", p.dir, constName, varName)
	}
	return *found
}

func init() {
	registerTables("codec", func(e *emitter, root string, isRoot bool) {
		rc := loadPkg(filepath.Join(root, "restlicodec"))
		e.f("def pathSafe : List UInt8 := %s", leanBytes([]byte(constInFuncLit(rc, "unescapedPathCharacters", "chars"))))
		e.f("def querySafe : List UInt8 := %s", leanBytes([]byte(constInFuncLit(rc, "unescapedQueryCharacters", "chars"))))
		e.f("def emptyMarker : List UInt8 := %s", leanBytes([]byte(rc.str("emptyString"))))
		e.f("def listPrefix : List UInt8 := %s", leanBytes([]byte(rc.str("list"))))
		e.f("def wildCard : List UInt8 := %s", leanBytes([]byte(rc.str("WildCard"))))
		// headerEncodingEscaper = strings.NewReplacer(lit, url.QueryEscape(lit), …).Replace
		init := rc.varInit("headerEncodingEscaper")
		var call *ast.CallExpr
		ast.Inspect(init, func(n ast.Node) bool {
			if c, ok := n.(*ast.CallExpr); ok {
				if se, ok := c.Fun.(*ast.SelectorExpr); ok && se.Sel.Name == "NewReplacer" {
					call = c
				}
			}
			return true
		})
		if call == nil || len(call.Args)%2 != 0 {
			fatalf("headerEncodingEscaper: strings.NewReplacer call not found in the expected shape")
		}
		pairs := ""
		for i := 0; i < len(call.Args); i += 2 {
			from, ok := call.Args[i].(*ast.BasicLit)
			if !ok {
				fatalf("headerEncodingEscaper: non-literal pattern")
			}
			fs, _ := strconv.Unquote(from.Value)
			var to string
			switch a := call.Args[i+1].(type) {
			case *ast.BasicLit:
				to, _ = strconv.Unquote(a.Value)
			case *ast.CallExpr:
				lit, ok := a.Args[0].(*ast.BasicLit)
				se, ok2 := a.Fun.(*ast.SelectorExpr)
				if !ok || !ok2 || se.Sel.Name != "QueryEscape" {
					fatalf("headerEncodingEscaper: unexpected replacement expression")
				}
				ls, _ := strconv.Unquote(lit.Value)
				to = url.QueryEscape(ls)
			default:
				fatalf("headerEncodingEscaper: unexpected replacement expression")
			}
			if len(fs) != 1 {
				fatalf("headerEncodingEscaper: pattern %q is not a single byte", fs)
			}
			if pairs != "" {
				pairs += ", "
			}
			pairs += "(" + strconv.Itoa(int(fs[0])) + ", " + leanBytes([]byte(to)) + ")"
		}
		e.f("def headerEscapes : List (UInt8 × List UInt8) := [%s]", pairs)
	})
}
