package main

import (
	"go/ast"
	"path/filepath"
)

// Tables for C10 (fnv1a hasher constants) and C16 (batch key set / batch response field names).
//
//	fnv1a/hasher.go            initialHash, multiplier, mask      -> fnvInit, fnvPrime, fnvMask : Nat
//	restli/batchkeyset/set.go  EntityIDsField                     -> batchIdsField : String
//	v2:   restlidata/generated/com/linkedin/restli/common/structs.go
//	root: restlidata/fields.go ResultsField, StatusesField, ErrorsField
//	                                                              -> batchResultsField, batchStatusesField, batchErrorsField
func init() {
	registerTables("c10-fnv", func(e *emitter, root string, isRoot bool) {
		h := loadPkg(filepath.Join(root, "fnv1a"))
		for _, c := range []struct{ lean, goName string }{
			{"fnvInit", "initialHash"}, {"fnvPrime", "multiplier"}, {"fnvMask", "mask"},
		} {
			v := h.int(c.goName)
			if v < 0 || v > 0xFFFFFFFF {
				fatalf("fnv1a: constant %s = %d does not fit the 32-bit hash type", c.goName, v)
			}
			e.f("def %s : Nat := %d", c.lean, v)
		}
	})
	registerTables("c16-batch", func(e *emitter, root string, isRoot bool) {
		ks := loadPkg(filepath.Join(root, "restli/batchkeyset"))
		e.f("def batchIdsField : String := %s", leanStr(ks.str("EntityIDsField")))
		dir := "restlidata/generated/com/linkedin/restli/common"
		if isRoot {
			dir = "restlidata"
		}
		c := loadPkg(filepath.Join(root, dir))
		e.f("def batchResultsField : String := %s", leanStr(c.str("ResultsField")))
		e.f("def batchStatusesField : String := %s", leanStr(c.str("StatusesField")))
		e.f("def batchErrorsField : String := %s", leanStr(c.str("ErrorsField")))
		// what UnmarshalWithKeyLocator does with a member that is none of the three fields: the
		// `default:` branch of its `switch field` either returns restlicodec.NoSuchFieldErr (an
		// error: nothing consumes it) or skips the value
		e.f("def batchUnknownFieldIsError : Bool := %v", unknownFieldIsError(c, "BatchResponse.UnmarshalWithKeyLocator"))
	})
}

// unknownFieldIsError inspects the first `switch` with a `default:` clause inside fn and reports
// whether that clause returns the NoSuchFieldErr sentinel (true) or the result of a Skip() call
// (false). Any other shape is a broken tie.
func unknownFieldIsError(p *pkg, fn string) bool {
	fd := p.funcDecl(fn)
	if fd == nil {
		fatalf("%s: function %s not found", p.dir, fn)
	}
	var verdict *bool
	ast.Inspect(fd.Body, func(n ast.Node) bool {
		sw, ok := n.(*ast.SwitchStmt)
		if !ok || verdict != nil {
			return verdict == nil
		}
		for _, c := range sw.Body.List {
			cc := c.(*ast.CaseClause)
			if cc.List != nil || len(cc.Body) != 1 {
				continue
			}
			ret, ok := cc.Body[0].(*ast.ReturnStmt)
			if !ok || len(ret.Results) != 1 {
				continue
			}
			switch x := ret.Results[0].(type) {
			case *ast.SelectorExpr:
				if x.Sel.Name == "NoSuchFieldErr" {
					t := true
					verdict = &t
				}
			case *ast.CallExpr:
				if sel, ok := x.Fun.(*ast.SelectorExpr); ok && sel.Sel.Name == "Skip" {
					f := false
					verdict = &f
				}
			}
		}
		return verdict == nil
	})
	if verdict == nil {
		fatalf("%s: %s: cannot find the default branch (NoSuchFieldErr / Skip) of its field switch", p.dir, fn)
	}
	return *verdict
}
