package main

import (
	"path/filepath"
)

// Tables for C10 (fnv1a hasher constants) and C16 (batch key set / batch response field names).
//
//	fnv1a/hasher.go            initialHash, multiplier, mask      -> fnvInit, fnvPrime, fnvMask : Nat
//	restli/batchkeyset/set.go  EntityIDsField                     -> batchIdsField : String
//	v2:   restlidata/generated/com/linkedin/restli/common/structs.go
//	root: restlidata/fields.go ResultsField, StatusesField, ErrorsField
//	                                                              -> batchResultsField, batchStatusesField, batchErrorsField
func init() {
	registerTables("c10-fnv", func(e *emitter, root string, isRoot bool) {
		h := loadPkg(filepath.Join(root, "fnv1a"))
		for _, c := range []struct{ lean, goName string }{
			{"fnvInit", "initialHash"}, {"fnvPrime", "multiplier"}, {"fnvMask", "mask"},
		} {
			v := h.int(c.goName)
			if v < 0 || v > 0xFFFFFFFF {
				fatalf("fnv1a: constant %s = %d does not fit the 32-bit hash type", c.goName, v)
			}
			e.f("def %s : Nat := %d", c.lean, v)
		}
	})
	registerTables("c16-batch", func(e *emitter, root string, isRoot bool) {
		ks := loadPkg(filepath.Join(root, "restli/batchkeyset"))
		e.f("def batchIdsField : String := %s", leanStr(ks.str("EntityIDsField")))
		dir := "restlidata/generated/com/linkedin/restli/common"
		if isRoot {
			dir = "restlidata"
		}
		c := loadPkg(filepath.Join(root, dir))
		e.f("def batchResultsField : String := %s", leanStr(c.str("ResultsField")))
		e.f("def batchStatusesField : String := %s", leanStr(c.str("StatusesField")))
		e.f("def batchErrorsField : String := %s", leanStr(c.str("ErrorsField")))
	})
}
