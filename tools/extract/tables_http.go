package main

import (
	"go/ast"
	"go/constant"
	"path/filepath"
)

// Constants of restli/http.go that the request-construction and tunnelling models (C14, C15) are
// stated against: header names, content types, the multipart boundary parameter name.
func init() {
	registerTables("http-constants", func(e *emitter, root string, isRoot bool) {
		p := loadPkg(filepath.Join(root, "restli"))
		for _, c := range []struct{ lean, goName string }{
			{"httpProtocolVersion", "ProtocolVersion"},
			{"hdrRestliId", "IDHeader"},
			{"hdrRestliMethod", "MethodHeader"},
			{"hdrRestliProtocolVersion", "ProtocolVersionHeader"},
			{"hdrRestliErrorResponse", "ErrorResponseHeader"},
			{"hdrMethodOverride", "MethodOverrideHeader"},
			{"hdrContentType", "ContentTypeHeader"},
			{"ctMultipartMixed", "MultipartMixedContentType"},
			{"mpBoundaryParam", "MultipartBoundary"},
			{"ctApplicationJson", "ApplicationJsonContentType"},
			{"ctFormUrlEncoded", "FormUrlEncodedContentType"},
		} {
			e.f("def %s : String := %s", c.lean, leanStr(p.str(c.goName)))
		}
		e.f("def detunnelErrorStatus : Nat := %d", detunnelStatus(p))
	})
}

// detunnelStatus finds, in rootNode.ServeHTTP, the statement pair
//
//	err := DecodeTunnelledQuery(req)
//	if err != nil { http.Error(res, err.Error(), <status>); return }
//
// placed before the call of sub.receive, and returns <status>. Any other shape is a broken tie.
func detunnelStatus(p *pkg) int64 {
	fd := p.funcDecl("rootNode.ServeHTTP")
	if fd == nil || fd.Body == nil {
		fatalf("%s: rootNode.ServeHTTP not found", p.dir)
	}
	callName := func(e ast.Expr) string {
		c, ok := e.(*ast.CallExpr)
		if !ok {
			return ""
		}
		switch f := c.Fun.(type) {
		case *ast.Ident:
			return f.Name
		case *ast.SelectorExpr:
			return f.Sel.Name
		}
		return ""
	}
	decodeAt, receiveAt := -1, -1
	var status int64 = -1
	// the error branch `{ http.Error(res, …, <status>); return }`
	branchStatus := func(ifs *ast.IfStmt) {
		if len(ifs.Body.List) != 2 {
			fatalf("%s: DecodeTunnelledQuery is not followed by `if err != nil { http.Error(...); return }`", p.dir)
		}
		es, ok := ifs.Body.List[0].(*ast.ExprStmt)
		if !ok || callName(es.X) != "Error" || len(es.X.(*ast.CallExpr).Args) != 3 {
			fatalf("%s: the de-tunnelling error branch does not call http.Error", p.dir)
		}
		if _, ok := ifs.Body.List[1].(*ast.ReturnStmt); !ok {
			fatalf("%s: the de-tunnelling error branch does not return", p.dir)
		}
		v, ok := p.eval(es.X.(*ast.CallExpr).Args[2], 0)
		if !ok {
			fatalf("%s: cannot evaluate the de-tunnelling error status", p.dir)
		}
		status, _ = constant.Int64Val(constant.ToInt(v))
	}
	for i, st := range fd.Body.List {
		// `if err := DecodeTunnelledQuery(req); err != nil { … }`
		if ifs, ok := st.(*ast.IfStmt); ok && ifs.Init != nil {
			if as, ok := ifs.Init.(*ast.AssignStmt); ok && len(as.Rhs) == 1 && callName(as.Rhs[0]) == "DecodeTunnelledQuery" {
				decodeAt = i
				branchStatus(ifs)
			}
		}
		if as, ok := st.(*ast.AssignStmt); ok && len(as.Rhs) == 1 {
			switch callName(as.Rhs[0]) {
			case "DecodeTunnelledQuery":
				decodeAt = i
				if i+1 >= len(fd.Body.List) {
					fatalf("%s: nothing follows DecodeTunnelledQuery in ServeHTTP", p.dir)
				}
				ifs, ok := fd.Body.List[i+1].(*ast.IfStmt)
				if !ok {
					fatalf("%s: DecodeTunnelledQuery is not followed by `if err != nil { http.Error(...); return }`", p.dir)
				}
				branchStatus(ifs)
			case "receive":
				if receiveAt < 0 {
					receiveAt = i
				}
			}
		}
	}
	if decodeAt < 0 || receiveAt < 0 || decodeAt > receiveAt || status < 0 {
		fatalf("%s: ServeHTTP does not de-tunnel before routing (decode at %d, receive at %d)", p.dir, decodeAt, receiveAt)
	}
	return status
}
