package main

import (
	"fmt"
	"go/ast"
	"go/constant"
	"go/token"
	"path/filepath"
	"sort"
	"strconv"
	"strings"
)

// Tables for C05 / C08 (server-side routing and error flow), emitted into the sub-namespace
// `Routing` of Restli.Gen / Restli.GenRoot so that no name clashes with other areas' tables.
//
//	restli/http.go            Method iota block                    -> methodConsts (iota order)
//	restli/*method_string.go  stringer name/index tables           -> methodNames (iota order)
//	restli/http.go            MethodNameMapping loop bounds        -> mappingFirst, mappingLast
//	restli/http.go            header constants, ProtocolVersion    -> methodHeader, protocolVersionHeader,
//	                                                                  protocolVersion, errorResponseHeader, methodOverrideHeader
//	restli/handler.go receive params["q"], params["action"],
//	                          params[batchkeyset.EntityIDsField]   -> paramFinder, paramAction, paramIds
//	restli/*.go               every newErrorResponsef(_, status, "format") call, keyed "<func>: <format>"
//	                                                               -> errStatuses
//	restli/handler.go ServeHTTP  http.NotFound calls, http.Error statuses, initial / nil-status defaults,
//	                          value the error header is set to     -> srvNotFoundCalls, srvErrorStatuses,
//	                                                                  srvInitialStatus, srvNilStatus, errorHeaderValue
//	restli/handler.go receive the status of the ErrorResponse built in the deferred recover -> recoverStatus
//	restli/handler.go NewPrefixedServer  how rootNode.prefix is initialised -> prefixIsLiteral, prefixLiteral
//	restli/handler.go AddToMux  the pattern expressions passed to mux.Handle -> muxPatterns (subtree?)
//	restli/server.go          `ctx.ResponseStatus = http.StatusX` per Register function -> respStatusSet
func init() {
	registerTables("routing", func(e *emitter, root string, isRoot bool) {
		rp := loadPkg(filepath.Join(root, "restli"))
		bk := loadPkg(filepath.Join(root, "restli/batchkeyset"))
		e.f("namespace Routing")

		// ---- Method enum, in iota order
		type mc struct {
			name string
			val  int64
		}
		var ms []mc
		for n, v := range rp.consts {
			if strings.HasPrefix(n, "Method_") && v.Kind() == constant.Int {
				i, _ := constant.Int64Val(v)
				ms = append(ms, mc{n, i})
			}
		}
		sort.Slice(ms, func(i, j int) bool { return ms[i].val < ms[j].val })
		var names []string
		for i, m := range ms {
			if m.val != int64(i) {
				fatalf("routing: Method constants are not a dense iota block (%s = %d at position %d)", m.name, m.val, i)
			}
			names = append(names, leanStr(m.name))
		}
		if len(names) == 0 {
			fatalf("routing: no Method_ constants found")
		}
		e.f("def methodConsts : List String := [%s]", strings.Join(names, ", "))

		// ---- stringer tables: const _X_name = "…", var _X_index = [...]uint8{…}
		var nameTable string
		found := 0
		for n, v := range rp.consts {
			if strings.HasPrefix(n, "_") && strings.HasSuffix(n, "Method_name") && v.Kind() == constant.String {
				nameTable = constant.StringVal(v)
				found++
			}
		}
		if found != 1 {
			fatalf("routing: stringer name table (_…Method_name) not found exactly once")
		}
		var idx []int
		for _, f := range rp.files {
			for _, d := range f.Decls {
				gd, ok := d.(*ast.GenDecl)
				if !ok || gd.Tok != token.VAR {
					continue
				}
				for _, s := range gd.Specs {
					vs := s.(*ast.ValueSpec)
					for j, n := range vs.Names {
						if strings.HasPrefix(n.Name, "_") && strings.HasSuffix(n.Name, "Method_index") && j < len(vs.Values) {
							cl, ok := vs.Values[j].(*ast.CompositeLit)
							if !ok {
								fatalf("routing: stringer index table is not a composite literal")
							}
							for _, el := range cl.Elts {
								v, ok := rp.eval(el, 0)
								if !ok {
									fatalf("routing: non-constant stringer index")
								}
								i, _ := constant.Int64Val(v)
								idx = append(idx, int(i))
							}
						}
					}
				}
			}
		}
		if len(idx) != len(ms)+1 {
			fatalf("routing: stringer index table has %d entries for %d methods", len(idx), len(ms))
		}
		var strs []string
		for i := 0; i+1 < len(idx); i++ {
			if idx[i] > idx[i+1] || idx[i+1] > len(nameTable) {
				fatalf("routing: stringer index table out of range")
			}
			strs = append(strs, leanStr(nameTable[idx[i]:idx[i+1]]))
		}
		e.f("def methodNames : List String := [%s]", strings.Join(strs, ", "))

		// ---- MethodNameMapping: for m := A; m <= B; m++ { mapping[m.String()] = m }
		var first, last string
		ast.Inspect(rp.varInit("MethodNameMapping"), func(n ast.Node) bool {
			fs, ok := n.(*ast.ForStmt)
			if !ok {
				return true
			}
			if as, ok := fs.Init.(*ast.AssignStmt); ok && len(as.Rhs) == 1 {
				if id, ok := as.Rhs[0].(*ast.Ident); ok {
					first = id.Name
				}
			}
			if be, ok := fs.Cond.(*ast.BinaryExpr); ok && be.Op == token.LEQ {
				if id, ok := be.Y.(*ast.Ident); ok {
					last = id.Name
				}
			}
			return true
		})
		if first == "" || last == "" {
			fatalf("routing: MethodNameMapping loop not found in the expected shape (for m := A; m <= B; m++)")
		}
		e.f("def mappingFirst : String := %s", leanStr(first))
		e.f("def mappingLast : String := %s", leanStr(last))

		// ---- header names
		e.f("def methodHeader : String := %s", leanStr(rp.str("MethodHeader")))
		e.f("def protocolVersionHeader : String := %s", leanStr(rp.str("ProtocolVersionHeader")))
		e.f("def protocolVersion : String := %s", leanStr(rp.str("ProtocolVersion")))
		e.f("def errorResponseHeader : String := %s", leanStr(rp.str("ErrorResponseHeader")))
		e.f("def methodOverrideHeader : String := %s", leanStr(rp.str("MethodOverrideHeader")))

		// ---- reserved query parameter names, as `receive` reads them
		recv := rp.funcDecl("pathNode.receive")
		if recv == nil {
			fatalf("routing: pathNode.receive not found")
		}
		paramKey := func(x ast.Expr) (string, bool) {
			ie, ok := x.(*ast.IndexExpr)
			if !ok {
				return "", false
			}
			if id, ok := ie.X.(*ast.Ident); !ok || id.Name != "params" {
				return "", false
			}
			switch k := ie.Index.(type) {
			case *ast.BasicLit:
				s, err := strconv.Unquote(k.Value)
				return s, err == nil
			case *ast.SelectorExpr:
				if id, ok := k.X.(*ast.Ident); ok && id.Name == "batchkeyset" {
					return bk.str(k.Sel.Name), true
				}
			}
			return "", false
		}
		reserved := map[string]string{}
		ast.Inspect(recv, func(n ast.Node) bool {
			switch s := n.(type) {
			case *ast.IfStmt: // if q, ok := params["q"]; ok { finder = q.String() }
				as, ok := s.Init.(*ast.AssignStmt)
				if !ok || len(as.Rhs) != 1 || len(s.Body.List) != 1 {
					return true
				}
				k, ok := paramKey(as.Rhs[0])
				if !ok {
					return true
				}
				if inner, ok := s.Body.List[0].(*ast.AssignStmt); ok && len(inner.Lhs) == 1 {
					if id, ok := inner.Lhs[0].(*ast.Ident); ok {
						reserved[id.Name] = k
					}
				}
			case *ast.AssignStmt: // hasIds := params[batchkeyset.EntityIDsField] != nil
				if len(s.Lhs) == 1 && len(s.Rhs) == 1 {
					if be, ok := s.Rhs[0].(*ast.BinaryExpr); ok && be.Op == token.NEQ {
						if k, ok := paramKey(be.X); ok {
							if id, ok := s.Lhs[0].(*ast.Ident); ok {
								reserved[id.Name] = k
							}
						}
					}
				}
			}
			return true
		})
		for _, want := range []struct{ goVar, lean string }{{"finder", "paramFinder"}, {"action", "paramAction"}, {"hasIds", "paramIds"}} {
			k, ok := reserved[want.goVar]
			if !ok {
				fatalf("routing: receive does not read a reserved query parameter into %q in the expected shape", want.goVar)
			}
			e.f("def %s : String := %s", want.lean, leanStr(k))
		}

		// ---- every newErrorResponsef(_, status, "format", …) call in the package
		type es struct {
			key    string
			status int64
		}
		var errs []es
		var fileNames []string
		for n := range rp.files {
			fileNames = append(fileNames, n)
		}
		sort.Strings(fileNames)
		for _, fn := range fileNames {
			for _, d := range rp.files[fn].Decls {
				fd, ok := d.(*ast.FuncDecl)
				if !ok || fd.Body == nil {
					continue
				}
				ast.Inspect(fd.Body, func(n ast.Node) bool {
					c, ok := n.(*ast.CallExpr)
					if !ok {
						return true
					}
					id, ok := c.Fun.(*ast.Ident)
					if !ok || id.Name != "newErrorResponsef" || len(c.Args) < 3 {
						return true
					}
					st, ok := rp.eval(c.Args[1], 0)
					if !ok {
						fatalf("routing: %s: newErrorResponsef status is not a constant", fd.Name.Name)
					}
					var format string
					switch a := c.Args[2].(type) {
					case *ast.BasicLit:
						format, _ = strconv.Unquote(a.Value)
					default: // multi-line: the format is still the third argument
						if v, ok := rp.eval(a, 0); ok && v.Kind() == constant.String {
							format = constant.StringVal(v)
						} else {
							fatalf("routing: %s: newErrorResponsef format is not a string literal", fd.Name.Name)
						}
					}
					sv, _ := constant.Int64Val(st)
					errs = append(errs, es{fd.Name.Name + ": " + format, sv})
					return true
				})
			}
		}
		if len(errs) == 0 {
			fatalf("routing: no newErrorResponsef calls found")
		}
		var parts []string
		for _, x := range errs {
			parts = append(parts, "("+leanStr(x.key)+", "+strconv.FormatInt(x.status, 10)+")")
		}
		e.f("def errStatuses : List (String × Nat) := [%s]", strings.Join(parts, ", "))

		// ---- ServeHTTP statuses
		serve := rp.funcDecl("rootNode.ServeHTTP")
		if serve == nil {
			fatalf("routing: rootNode.ServeHTTP not found")
		}
		notFound := 0
		var httpErrs []string
		initial, nilStatus := int64(-1), int64(-1)
		errVal := ""
		ast.Inspect(serve, func(n ast.Node) bool {
			switch x := n.(type) {
			case *ast.CallExpr:
				se, ok := x.Fun.(*ast.SelectorExpr)
				if !ok {
					return true
				}
				if id, ok := se.X.(*ast.Ident); ok && id.Name == "http" {
					switch se.Sel.Name {
					case "NotFound":
						notFound++
					case "Error":
						if len(x.Args) == 3 {
							if v, ok := rp.eval(x.Args[2], 0); ok {
								i, _ := constant.Int64Val(v)
								httpErrs = append(httpErrs, strconv.FormatInt(i, 10))
							} else {
								fatalf("routing: ServeHTTP: http.Error status is not a constant")
							}
						}
					}
				}
				// res.Header().Set(ErrorResponseHeader, "true")
				if se.Sel.Name == "Set" && len(x.Args) == 2 {
					if id, ok := x.Args[0].(*ast.Ident); ok && id.Name == "ErrorResponseHeader" {
						if bl, ok := x.Args[1].(*ast.BasicLit); ok {
							errVal, _ = strconv.Unquote(bl.Value)
						}
					}
				}
			case *ast.KeyValueExpr: // ResponseStatus: http.StatusOK
				if id, ok := x.Key.(*ast.Ident); ok && id.Name == "ResponseStatus" {
					if v, ok := rp.eval(x.Value, 0); ok {
						initial, _ = constant.Int64Val(v)
					}
				}
			case *ast.AssignStmt: // ctx.ResponseStatus = http.StatusInternalServerError
				if len(x.Lhs) == 1 && len(x.Rhs) == 1 {
					if se, ok := x.Lhs[0].(*ast.SelectorExpr); ok && se.Sel.Name == "ResponseStatus" {
						if v, ok := rp.eval(x.Rhs[0], 0); ok {
							nilStatus, _ = constant.Int64Val(v)
						}
					}
				}
			}
			return true
		})
		if initial < 0 || nilStatus < 0 || errVal == "" || len(httpErrs) == 0 {
			fatalf("routing: ServeHTTP not in the expected shape (initial status, nil-status default, error header value, http.Error calls)")
		}
		e.f("def srvNotFoundCalls : Nat := %d", notFound)
		e.f("def srvErrorStatuses : List Nat := [%s]", strings.Join(httpErrs, ", "))
		e.f("def srvInitialStatus : Nat := %d", initial)
		e.f("def srvNilStatus : Nat := %d", nilStatus)
		e.f("def errorHeaderValue : String := %s", leanStr(errVal))

		// ---- status of the ErrorResponse built by the deferred recover in receive
		recStatus := int64(-1)
		ast.Inspect(recv, func(n ast.Node) bool {
			ds, ok := n.(*ast.DeferStmt)
			if !ok {
				return true
			}
			ast.Inspect(ds, func(m ast.Node) bool {
				kv, ok := m.(*ast.KeyValueExpr)
				if !ok {
					return true
				}
				if id, ok := kv.Key.(*ast.Ident); ok && id.Name == "Status" {
					if c, ok := kv.Value.(*ast.CallExpr); ok && len(c.Args) == 1 {
						if v, ok := rp.eval(c.Args[0], 0); ok {
							recStatus, _ = constant.Int64Val(v)
						}
					}
				}
				return true
			})
			return false
		})
		if recStatus < 0 {
			fatalf("routing: receive: deferred recover does not build an ErrorResponse with a constant Status")
		}
		e.f("def recoverStatus : Nat := %d", recStatus)

		// ---- NewPrefixedServer: rootNode{ prefix: … }
		nps := rp.funcDecl("NewPrefixedServer")
		if nps == nil {
			fatalf("routing: NewPrefixedServer not found")
		}
		prefixSeen := false
		ast.Inspect(nps, func(n ast.Node) bool {
			kv, ok := n.(*ast.KeyValueExpr)
			if !ok {
				return true
			}
			if id, ok := kv.Key.(*ast.Ident); ok && id.Name == "prefix" {
				prefixSeen = true
				switch v := kv.Value.(type) {
				case *ast.BasicLit:
					s, _ := strconv.Unquote(v.Value)
					e.f("def prefixIsLiteral : Bool := true")
					e.f("def prefixLiteral : String := %s", leanStr(s))
				case *ast.Ident:
					if v.Name != "prefix" {
						fatalf("routing: NewPrefixedServer initialises rootNode.prefix from %q", v.Name)
					}
					e.f("def prefixIsLiteral : Bool := false")
					e.f("def prefixLiteral : String := \"\"")
				default:
					fatalf("routing: NewPrefixedServer initialises rootNode.prefix from an unexpected expression")
				}
			}
			return true
		})
		if !prefixSeen {
			fatalf("routing: NewPrefixedServer: rootNode.prefix initialiser not found")
		}

		// ---- AddToMux: mux.Handle(r.prefix+rootResource, h) — exact pattern unless a "/" is appended
		atm := rp.funcDecl("rootNode.AddToMux")
		if atm == nil {
			fatalf("routing: rootNode.AddToMux not found")
		}
		var patterns []string
		ast.Inspect(atm, func(n ast.Node) bool {
			c, ok := n.(*ast.CallExpr)
			if !ok {
				return true
			}
			se, ok := c.Fun.(*ast.SelectorExpr)
			if !ok || se.Sel.Name != "Handle" || len(c.Args) != 2 {
				return true
			}
			// r.prefix + rootResource [+ "/"]: a pattern ending in "/" is a subtree pattern
			be, ok := c.Args[0].(*ast.BinaryExpr)
			if !ok || be.Op != token.ADD {
				fatalf("routing: AddToMux: unexpected pattern expression")
			}
			subtree := false
			if bl, ok := be.Y.(*ast.BasicLit); ok {
				s, _ := strconv.Unquote(bl.Value)
				if s != "/" {
					fatalf("routing: AddToMux: unexpected pattern suffix %q", s)
				}
				subtree = true
			}
			patterns = append(patterns, fmt.Sprint(subtree))
			return true
		})
		if len(patterns) == 0 {
			fatalf("routing: AddToMux: no mux.Handle call found")
		}
		// one entry per mux.Handle call, in source order: true = subtree pattern (prefix+root+"/")
		e.f("def muxPatterns : List Bool := [%s]", strings.Join(patterns, ", "))

		// ---- server.go: per Register function, the statuses assigned to ctx.ResponseStatus
		var rs []string
		var sfuncs []*ast.FuncDecl
		for _, fn := range fileNames {
			for _, d := range rp.files[fn].Decls {
				if fd, ok := d.(*ast.FuncDecl); ok && fd.Body != nil && fd.Recv == nil && strings.HasPrefix(fd.Name.Name, "Register") {
					sfuncs = append(sfuncs, fd)
				}
			}
		}
		sort.Slice(sfuncs, func(i, j int) bool { return sfuncs[i].Name.Name < sfuncs[j].Name.Name })
		for _, fd := range sfuncs {
			ast.Inspect(fd.Body, func(n ast.Node) bool {
				as, ok := n.(*ast.AssignStmt)
				if !ok || len(as.Lhs) != 1 || len(as.Rhs) != 1 {
					return true
				}
				se, ok := as.Lhs[0].(*ast.SelectorExpr)
				if !ok || se.Sel.Name != "ResponseStatus" {
					return true
				}
				if v, ok := rp.eval(as.Rhs[0], 0); ok { // constant assignments only (not `= createdEntity.Status`)
					i, _ := constant.Int64Val(v)
					rs = append(rs, "("+leanStr(fd.Name.Name)+", "+strconv.FormatInt(i, 10)+")")
				}
				return true
			})
		}
		e.f("def respStatusSet : List (String × Nat) := [%s]", strings.Join(rs, ", "))
		var regNames []string
		for _, fd := range sfuncs {
			regNames = append(regNames, leanStr(fd.Name.Name))
		}
		e.f("def registerFuncs : List String := [%s]", strings.Join(regNames, ", "))

		e.f("end Routing")
	})
}
